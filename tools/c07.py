"""C07 — arithmetic evaluates as bash's wrapping 64-bit C-style integer arithmetic.

Ties:
  * translator: the `precedence!{}` block of brush-parser/src/arithmetic.rs -> lean/BrushVerif/Gen/ArithLevels.lean
    (theorems in Props/C07.lean are stated about the generated table);
  * correspondence: brush_parser::arithmetic::parse + Evaluatable::eval on a real Shell (harness c07) against
    the Lean parser/evaluator (drv), on every generated case;
  * property-direct: the brush binary against bash 5.2 on the same `$(( ))` scripts (value, error or not,
    variables afterwards), plus the other arithmetic contexts (`(( ))`, let, subscripts, substring offsets,
    declare -i) on a sample.
"""
import json
import os
import re
import subprocess
import tempfile
import lib
from lib import esc, unesc

BIN = "c07"
I64MIN, I64MAX = -(1 << 63), (1 << 63) - 1

# ------------------------------------------------------------------------------------------------
# translator: precedence!{} -> Gen/ArithLevels.lean

BINOPS = {"Comma": "comma", "LogicalOr": "lor", "LogicalAnd": "land", "BitwiseOr": "bor", "BitwiseXor": "bxor",
          "BitwiseAnd": "band", "Equals": "eq", "NotEquals": "ne", "LessThan": "lt", "GreaterThan": "gt",
          "LessThanOrEqualTo": "le", "GreaterThanOrEqualTo": "ge", "ShiftLeft": "shl", "ShiftRight": "shr",
          "Add": "add", "Subtract": "sub", "Multiply": "mul", "Modulo": "mod", "Divide": "div", "Power": "pow"}
UNOPS = {"UnaryPlus": "plus", "UnaryMinus": "minus", "BitwiseNot": "bnot", "LogicalNot": "lnot"}
INCOPS = {"PrefixIncrement": "preInc", "PrefixDecrement": "preDec", "PostfixIncrement": "postInc",
          "PostfixDecrement": "postDec"}


def _chars(s):
    return "[" + ", ".join("'%s'" % c for c in s) + "]"


def _norm(s):
    return re.sub(r"\s+", "", s)


def parse_precedence_block(src):
    """-> list of levels, each a list of Lean `Entry` terms. Raises if a rule is not understood."""
    m = re.search(r"rule\s+expression\s*\(\s*\)\s*->\s*ast::ArithmeticExpr\s*=\s*precedence!\s*\{", src)
    if not m:
        raise RuntimeError("precedence!{} block of rule expression() not found in arithmetic.rs")
    i = m.end()
    depth, j = 1, i
    while j < len(src) and depth:
        if src[j] == "{":
            depth += 1
        elif src[j] == "}":
            depth -= 1
        j += 1
    body = src[i:j - 1]
    lines = [re.sub(r"//.*$", "", l).strip() for l in body.split("\n")]
    levels, cur = [], []
    for l in lines:
        if not l:
            continue
        if l == "--":
            levels.append(cur)
            cur = []
            continue
        cur.append(parse_rule(l))
    levels.append(cur)
    if any(not lv for lv in levels):
        raise RuntimeError("empty precedence level")
    return levels


def parse_rule(l):
    mm = re.match(r"^(.*?)\{(.*)\}\s*$", l)
    if not mm:
        raise RuntimeError("cannot split rule into pattern and action: " + l)
    pat, act = mm.group(1).strip(), _norm(mm.group(2))
    B = "Box::new"
    # infix
    m = re.match(r'^x:(\(@\)|@) _ "([^"]+)" _ y:(\(@\)|@)$', pat)
    if m:
        la, lex, ra = m.group(1) == "(@)", m.group(2), m.group(3) == "(@)"
        if la == ra:
            raise RuntimeError("infix rule without associativity: " + l)
        a = re.match(r"^ast::ArithmeticExpr::BinaryOp\(ast::BinaryOperator::(\w+),%s\(x\),%s\(y\)\)$" % (re.escape(B), re.escape(B)), act)
        if not a or a.group(1) not in BINOPS:
            raise RuntimeError("unexpected action of infix rule: " + l)
        return ".infixOp %s .%s %d" % (_chars(lex), BINOPS[a.group(1)], 1 if la else 0)
    m = re.match(r'^x:@ _ "\?" _ y:expression\(\) _ ":" _ z:(\(@\)|@)$', pat)
    if m:
        if act != _norm("ast::ArithmeticExpr::Conditional(Box::new(x), Box::new(y), Box::new(z))"):
            raise RuntimeError("unexpected action of conditional rule: " + l)
        return ".ternary %d" % (0 if m.group(1) == "(@)" else 1)
    m = re.match(r'^x:lvalue\(\) _ "([^"]+)" _ y:(\(@\)|@)$', pat)
    if m:
        lex, rp = m.group(1), (0 if m.group(2) == "(@)" else 1)
        a = re.match(r"^ast::ArithmeticExpr::BinaryAssignment\(ast::BinaryOperator::(\w+),x,Box::new\(y\)\)$", act)
        if a and a.group(1) in BINOPS:
            return ".assignOp %s (some .%s) %d" % (_chars(lex), BINOPS[a.group(1)], rp)
        if act == _norm("ast::ArithmeticExpr::Assignment(x, Box::new(y))"):
            return ".assignOp %s none %d" % (_chars(lex), rp)
        raise RuntimeError("unexpected action of assignment rule: " + l)
    m = re.match(r'^"([^"]+)"(?: !\("(.)" _ variable_name\(\)\))? _ x:(\(@\)|@)$', pat)
    if m:
        lex, nn, rp = m.group(1), m.group(2), (0 if m.group(3) == "(@)" else 1)
        a = re.match(r"^ast::ArithmeticExpr::UnaryOp\(ast::UnaryOperator::(\w+),Box::new\(x\)\)$", act)
        if not a or a.group(1) not in UNOPS:
            raise RuntimeError("unexpected action of prefix rule: " + l)
        return ".prefixOp %s %s .%s %d" % (_chars(lex), "(some '%s')" % nn if nn else "none", UNOPS[a.group(1)], rp)
    m = re.match(r'^"([^"]+)" _ x:lvalue\(\)$', pat)
    if m:
        a = re.match(r"^ast::ArithmeticExpr::UnaryAssignment\(ast::UnaryAssignmentOperator::(\w+),x\)$", act)
        if not a or a.group(1) not in INCOPS:
            raise RuntimeError("unexpected action of pre-increment rule: " + l)
        return ".preIncDec %s .%s" % (_chars(m.group(1)), INCOPS[a.group(1)])
    m = re.match(r'^x:lvalue\(\) _ "([^"]+)"$', pat)
    if m:
        a = re.match(r"^ast::ArithmeticExpr::UnaryAssignment\(ast::UnaryAssignmentOperator::(\w+),x\)$", act)
        if not a or a.group(1) not in INCOPS:
            raise RuntimeError("unexpected action of post-increment rule: " + l)
        return ".postIncDec %s .%s" % (_chars(m.group(1)), INCOPS[a.group(1)])
    if pat == "n:literal_number()" and act == _norm("ast::ArithmeticExpr::Literal(n)"):
        return ".literal"
    if pat == "l:lvalue()" and act == _norm("ast::ArithmeticExpr::Reference(l)"):
        return ".reference"
    if pat == '"(" _ expr:expression() _ ")"' and act == "expr":
        return ".paren"
    raise RuntimeError("precedence rule not understood: " + l)


def gen_arith_levels():
    src = open(os.path.join(lib.REPO, "brush-parser", "src", "arithmetic.rs"), encoding="utf-8").read()
    levels = parse_precedence_block(src)
    out = ["import BrushVerif.Model.ArithParse",
           "/-! GENERATED by tools/c07.py (gen_arith_levels) from the `precedence!{}` block of",
           "`brush-parser/src/arithmetic.rs` — do not edit; regenerated on every `./check C07`. -/",
           "namespace BrushVerif.Gen", "open BrushVerif.Arith", "", "def arithLevels : Table := ["]
    for k, lv in enumerate(levels):
        out.append("  [" + ",\n   ".join(lv) + "]" + ("," if k + 1 < len(levels) else ""))
    out += ["]", "", "end BrushVerif.Gen", ""]
    text = "\n".join(out)
    gdir = os.path.join(lib.LEAN, "BrushVerif", "Gen")
    os.makedirs(gdir, exist_ok=True)
    p = os.path.join(gdir, "ArithLevels.lean")
    if not os.path.exists(p) or open(p, encoding="utf-8").read() != text:
        with open(p, "w", encoding="utf-8") as f:
            f.write(text)



# ------------------------------------------------------------------------------------------------
# expression trees (the property's quantifier) and their renderings

# (level, lexemes, right-assoc) in C / bash order, lowest first; level numbers only order the renderer
BIN_LEVELS = [(0, [","], False), (3, ["||"], False), (4, ["&&"], False), (5, ["|"], False), (6, ["^"], False),
              (7, ["&"], False), (8, ["==", "!="], False), (9, ["<", ">", "<=", ">="], False),
              (10, ["<<", ">>"], False), (11, ["+", "-"], False), (12, ["*", "/", "%"], False), (13, ["**"], True)]
BIN_PREC = {lx: (lv, ra) for lv, lxs, ra in BIN_LEVELS for lx in lxs}
BIN_ALL = [lx for _, lxs, _ in BIN_LEVELS for lx in lxs]                       # 20
ASSIGN_ALL = ["=", "*=", "/=", "%=", "+=", "-=", "<<=", ">>=", "&=", "|=", "^="]  # 11
UN_ALL = ["+", "-", "!", "~"]                                                    # 4
INC_ALL = ["++pre", "--pre", "post++", "post--"]                                 # 4
BIN_NAME = {",": "Comma", "||": "LogicalOr", "&&": "LogicalAnd", "|": "BitwiseOr", "^": "BitwiseXor", "&": "BitwiseAnd",
            "==": "Equals", "!=": "NotEquals", "<": "LessThan", ">": "GreaterThan", "<=": "LessThanOrEqualTo",
            ">=": "GreaterThanOrEqualTo", "<<": "ShiftLeft", ">>": "ShiftRight", "+": "Add", "-": "Subtract",
            "*": "Multiply", "/": "Divide", "%": "Modulo", "**": "Power"}
UN_NAME = {"+": "UnaryPlus", "-": "UnaryMinus", "!": "LogicalNot", "~": "BitwiseNot"}
INC_NAME = {"++pre": "PrefixIncrement", "--pre": "PrefixDecrement", "post++": "PostfixIncrement", "post--": "PostfixDecrement"}
P_ASSIGN, P_COND, P_UNARY, P_ATOM = 1, 2, 14, 16
VARS = ["a", "b", "c", "x", "y", "z"]
ARRS = ["A", "B"]
UNIVERSE = ["a", "b", "c", "d", "x", "y", "z", "u", "v", "w", "A", "B"]

BOUNDARY = [0, 1, 2, 3, 7, 10, 63, 64, 65, 255, (1 << 31) - 1, 1 << 31, 1 << 32, I64MAX, 1 << 63, (1 << 64) - 1]
D64 = "0123456789abcdefghijklmnopqrstuvwxyzABCDEFGHIJKLMNOPQRSTUVWXYZ@_"


def to_base(n, b):
    if n == 0:
        return "0"
    out = ""
    while n:
        out = D64[n % b] + out
        n //= b
    return out


def lit_forms(n):
    """every bash literal form of the non-negative number n (< 2^64)"""
    fs = [str(n), "0" + to_base(n, 8), "0x" + to_base(n, 16), "0X" + to_base(n, 16).upper()]
    for b in (2, 8, 10, 16, 36, 37, 62, 64):
        fs.append("%d#%s" % (b, to_base(n, b)))
    fs.append("16#" + to_base(n, 16).upper())
    return fs


def wrap(n):
    n &= (1 << 64) - 1
    return n - (1 << 64) if n >> 63 else n


def lit_value(text):
    """(value as i64, overflows_in_brush) of a well-formed literal"""
    t = text
    if "#" in t:
        b, ds = t.split("#")
        b = int(b)
        v = 0
        for ch in ds:
            if b <= 36:
                dv = int(ch, 36)
            else:
                dv = D64.index(ch)
            v = v * b + dv
        return wrap(v), False
    if t[:2] in ("0x", "0X"):
        v = int(t[2:], 16) if t[2:] else 0
        return wrap(v), (t[2:] == "" or v > I64MAX)
    if len(t) > 1 and t[0] == "0":
        v = int(t, 8)
        return wrap(v), v > I64MAX
    v = int(t)
    return wrap(v), v >= (1 << 64)


def prec_of(n):
    k = n[0]
    if k == "bin":
        return BIN_PREC[n[1]][0]
    if k == "assign":
        return P_ASSIGN
    if k == "cond":
        return P_COND
    if k == "un":
        return P_UNARY
    return P_ATOM          # lit, var, elem, inc (postfix/prefix on an lvalue: primary for rendering purposes)


def target_text(t, rng, style):
    if t[0] == "var":
        return t[1]
    inner = join_tokens(tokens(t[2], 0, rng, style), rng, "min" if style != "sp" else "inner")
    if style == "red" and rng.random() < 0.4:          # blanks next to the brackets are fine
        inner = rng.choice([" ", "  ", "\t"]) + inner + rng.choice([" ", "", "\t "])
    return t[1] + "[" + inner + "]"


def tokens(n, need, rng=None, style="min"):
    """token list of node n in a context requiring precedence >= need; style 'min' | 'red' (redundant parens)"""
    k = n[0]
    p = prec_of(n)
    if k == "lit":
        body = [n[1]]
    elif k in ("var", "elem"):
        body = [target_text(n, rng, style)]
    elif k == "un":
        body = [n[1]] + tokens(n[2], P_UNARY, rng, style)
    elif k == "inc":
        tt = target_text(n[2], rng, style)
        body = [n[1][:2], tt] if n[1].endswith("pre") else [tt, n[1][-2:]]
    elif k == "bin":
        lv, ra = BIN_PREC[n[1]]
        body = tokens(n[2], lv + 1 if ra else lv, rng, style) + [n[1]] + tokens(n[3], lv if ra else lv + 1, rng, style)
    elif k == "cond":
        body = tokens(n[1], P_COND + 1, rng, style) + ["?"] + tokens(n[2], 0, rng, style) + [":"] + tokens(n[3], P_COND, rng, style)
    elif k == "assign":
        body = [target_text(n[2], rng, style), n[1]] + tokens(n[3], P_ASSIGN, rng, style)
    else:
        raise ValueError(k)
    if p < need or (style == "red" and rng.random() < 0.25):
        body = ["("] + body + [")"]
    return body


def join_tokens(toks, rng, style):
    out = ""
    for t in toks:
        sep = ""
        if style == "red":
            sep = rng.choice(["", "", " ", " ", "  ", "\t", " \t "])
        elif style == "sp":
            sep = " "
        if out and sep == "" and out[-1] in "+-" and t[0] == out[-1]:
            sep = " "
        out += (sep if out else "") + t
    if style == "red" and rng.random() < 0.3:
        out = rng.choice([" ", "  ", "\t"]) + out + rng.choice([" ", "", "\t "])
    return out


def render(n, rng, style):
    return join_tokens(tokens(n, 0, rng, style), rng, style)


def sexpr(n):
    k = n[0]
    if k == "lit":
        return str(lit_value(n[1])[0])
    if k == "var":
        return "$" + n[1]
    if k == "elem":
        return "$%s[%s]" % (n[1], sexpr(n[2]))
    if k == "un":
        return "(u%s %s)" % (UN_NAME[n[1]], sexpr(n[2]))
    if k == "inc":
        return "(i%s %s)" % (INC_NAME[n[1]], sexpr(n[2]))
    if k == "bin":
        return "(b%s %s %s)" % (BIN_NAME[n[1]], sexpr(n[2]), sexpr(n[3]))
    if k == "cond":
        return "(? %s %s %s)" % (sexpr(n[1]), sexpr(n[2]), sexpr(n[3]))
    if k == "assign":
        if n[1] == "=":
            return "(= %s %s)" % (sexpr(n[2]), sexpr(n[3]))
        return "(a%s %s %s)" % (BIN_NAME[n[1][:-1]], sexpr(n[2]), sexpr(n[3]))
    raise ValueError(k)


def walk(n):
    yield n
    for c in n[1:]:
        if isinstance(c, tuple):
            yield from walk(c)


def features(n):
    """defect-class features of a tree (each names a known-finding clause when brush and bash differ);
    none since literal overflow and double subscript evaluation were repaired"""
    return set()


def num_node(v):
    """a node evaluating to the i64 v, random literal form"""
    if v < 0:
        return ("un", "-", ("lit", str(-v)))
    return ("lit", str(v))


def gen_lit(rng, all_forms=True):
    n = rng.choice(BOUNDARY + [rng.randrange(0, 100), rng.randrange(0, 1 << 64), rng.randrange(0, 1 << 62)])
    forms = lit_forms(n) if all_forms else [str(n)]
    return ("lit", rng.choice(forms))      # overflowing hex/octal/decimal forms included: they wrap, as in bash


def gen_target(rng, depth, arrays=True):
    """an lvalue / rvalue: a scalar name, an array element, or (the alias of element 0) a bare array name"""
    if arrays and rng.random() < 0.25:
        if rng.random() < 0.3:
            return ("var", rng.choice(ARRS))          # bare array name: element 0
        idx = rng.choice([("lit", "0"), ("lit", "0"), ("lit", "1"), ("lit", "2"), ("lit", "5"), ("bin", "+", ("lit", "1"), ("lit", "1")),
                          ("bin", "-", ("lit", "1"), ("lit", "1")), ("bin", "*", ("var", rng.choice(VARS)), ("lit", "0")),
                          ("bin", "&", ("var", rng.choice(VARS)), ("lit", "3")),       # never negative
                          ("bin", "&", ("inc", "post++", ("var", rng.choice(VARS))), ("lit", "7"))])
        return ("elem", rng.choice(ARRS), idx)
    return ("var", rng.choice(VARS))


def gen_tree(rng, depth):
    if depth <= 0 or rng.random() < 0.15:
        r = rng.random()
        if r < 0.55:
            return gen_lit(rng)
        if r < 0.65:
            return ("un", "-", gen_lit(rng))
        return gen_target(rng, depth)
    r = rng.random()
    if r < 0.55:
        return ("bin", rng.choice(BIN_ALL), gen_tree(rng, depth - 1), gen_tree(rng, depth - 1))
    if r < 0.67:
        return ("un", rng.choice(UN_ALL), gen_tree(rng, depth - 1))
    if r < 0.77:
        return ("inc", rng.choice(INC_ALL), gen_target(rng, depth))
    if r < 0.90:
        return ("assign", rng.choice(ASSIGN_ALL), gen_target(rng, depth), gen_tree(rng, depth - 1))
    return ("cond", gen_tree(rng, depth - 1), gen_tree(rng, depth - 1), gen_tree(rng, depth - 1))


VAR_VALUES = ["0", "1", "-1", "5", "-7", "63", "64", "9223372036854775807", "-9223372036854775808", "2147483648",
              "0x10", "010", "16#ff", "64#_", "", "", "a", "b", "c", "x", "y", "z", "1+2", "b*2", "y+1", "c=3", "b++",
              "1/0", "x", "  4 ", "-x", "2**62", "z,7", "q"]


# what a variable may hold besides hand-picked strings: every literal form the expression side uses, behind
# every unary prefix, with and without blanks around it (`x=-010`, `x=" +0x10 "`, `x=~16#ff`, `x=--08`, …)
VALUE_PREFIXES = ["", "-", "+", "- ", " -", "--", "-+", "!", "~"]
VALUE_NUMBERS = [0, 1, 7, 8, 9, 10, 63, 64, 255, 1 << 31, I64MAX, 1 << 63, (1 << 64) - 1]


def value_forms(n):
    """`<prefix><literal>` for every prefix and every literal form of n, bare and with surrounding blanks"""
    out = []
    for f in lit_forms(n) + ["0" + str(n), "00" + str(n)]:        # zero-padded decimal digits too (octal or an error in bash)
        for pre in VALUE_PREFIXES:
            out.append(pre + f)
            out.append(" " + pre + f + " ")
    return out


def gen_value(rng):
    n = rng.choice(VALUE_NUMBERS + [rng.randrange(0, 100), rng.randrange(0, 1 << 64)])
    return rng.choice(value_forms(n))


ARR_VALUES = ["0", "1", "-1", "5", "-7", "3", "12", "63", "9223372036854775807", "010", "0x10", "", "x", "y+1", "b", "A[1]"]


def gen_env(rng):
    """variable name -> contents: a string (scalar) or a list of strings (indexed array, elements 0..)"""
    env = {}
    for v in VARS:
        r = rng.random()
        if r < 0.5:
            env[v] = rng.choice(VAR_VALUES)
        elif r < 0.75:
            env[v] = gen_value(rng)
    for v in ARRS:
        if rng.random() < 0.5:
            env[v] = [rng.choice(ARR_VALUES) for _ in range(rng.randint(1, 4))]
    return env


def env_texts(env):
    out = []
    for v in env.values():
        out += v if isinstance(v, list) else [v]
    return out


def env_key(env):
    return tuple((k, tuple(v) if isinstance(v, list) else v) for k, v in sorted(env.items()))


def has_array(env):
    return any(isinstance(v, list) for v in env.values())


def set_text(k, v):
    """shell text that gives variable k the contents v"""
    if isinstance(v, list):
        return "%s=(%s)" % (k, " ".join(sq(x) for x in v))
    return "%s=%s" % (k, sq(v))


# ---- aliasing: a bare name is element 0.  Exhaustive (seed independent) read / write / read products.
ALIAS_WRITE_OPS = ASSIGN_ALL + INC_ALL


def alias_forms(name):
    """every spelling of element 0 of `name` (with z=0, y=7 in the environment), and element 1 as the control"""
    subs = [("lit", "0"), ("var", "z"), ("bin", "*", ("var", "y"), ("lit", "0")), ("bin", "-", ("var", "y"), ("var", "y"))]
    return [("var", name)] + [("elem", name, i) for i in subs], ("elem", name, ("lit", "1"))


def alias_write(op, t, rhs="5"):
    if op in INC_ALL:
        return ("inc", op, t)
    return ("assign", op, t, ("lit", "9" if op == "=" else rhs))


def alias_cases():
    cs = []
    env = {"A": ["4", "2", "3"], "z": "0", "y": "7"}
    aliases, control = alias_forms("A")
    forms = aliases + [control]
    # read, write, read: every pair of spellings around every write through every spelling
    for r1 in forms:
        for t in forms:
            for op in ALIAS_WRITE_OPS:
                for r2 in forms:
                    w = alias_write(op, t)
                    cs.append(("exh_alias_rwr", ("bin", "+", ("bin", "+", r1, w), r2), env, "min"))
                    if op in ("=", "+=", "post++", "--pre"):
                        cs.append(("exh_alias_rwr", ("bin", ",", ("bin", ",", r1, w), ("bin", "*", r2, r1)), env, "sp"))
    # write, read, write
    for t1 in aliases:
        for o1 in ("=", "*=", "post++", "--pre"):
            for r in forms:
                for t2 in forms:
                    for o2 in ("+=", "++pre"):
                        cs.append(("exh_alias_wrw", ("bin", "-", ("bin", "*", alias_write(o1, t1), r), alias_write(o2, t2, "3")), env, "min"))
    # conditional / short-circuit around the write: the write happens or not, the later read must know
    for r1 in aliases[:3]:
        for t in aliases[:3] + [control]:
            for r2 in aliases[:3]:
                for gate in ("&&", "||"):
                    cs.append(("exh_alias_gate", ("bin", ",", ("bin", gate, r1, alias_write("=", t)), r2), env, "sp"))
                cs.append(("exh_alias_gate", ("bin", "+", ("cond", ("bin", ">", r1, ("lit", "3")), alias_write("+=", t), alias_write("post--", t)), r2), env, "sp"))
    # a scalar is its own element 0 too (the store through x[0] turns it into an array)
    envx = {"x": "4", "z": "0"}
    xs = [("var", "x"), ("elem", "x", ("lit", "0")), ("elem", "x", ("var", "z"))]
    for r1 in xs:
        for t in xs:
            for op in ("=", "+=", "post++", "++pre"):
                for r2 in xs:
                    cs.append(("exh_alias_scalar", ("bin", "+", ("bin", "+", r1, alias_write(op, t)), r2), envx, "min"))
    # an array element 0 that is not a plain number (an expression, another name, empty, unset)
    for a0 in (["y+1", "2"], ["z", "2"], ["", "2"], None):
        e2 = {"z": "0", "y": "7"}
        if a0 is not None:
            e2["A"] = a0
        for r1 in aliases[:3]:
            for t in aliases[:3]:
                for op in ("=", "+=", "post++"):
                    cs.append(("exh_alias_other", ("bin", "+", ("bin", "+", r1, alias_write(op, t)), aliases[0]), e2, "min"))
    return cs


def deref_cases():
    """exhaustive: a variable holding <prefix><literal>, read through a bare name in several positions"""
    cs = []
    seen = set()
    for n in VALUE_NUMBERS:
        for v in value_forms(n):
            if v in seen:
                continue
            seen.add(v)
            cs.append(("exh_deref", "x", {"x": v}, None))
            cs.append(("exh_deref", "x+1", {"x": v}, None))
            cs.append(("exh_deref", "x++", {"x": v}, None))
            cs.append(("exh_deref", "y", {"x": v, "y": "x"}, None))          # chain y -> x -> value
            cs.append(("exh_deref", "A[x&3]=x, y*=x", {"x": v, "y": "3"}, None))
    return cs


# ------------------------------------------------------------------------------------------------
# running the three implementations

def req_line(kind, expr, env=None):
    parts = [kind, esc(expr)]
    for k in sorted(env or {}):
        if isinstance(env[k], list):             # indexed array, elements 0..
            parts.append("@%s=%s" % (k, ",".join(esc(x) for x in env[k])))
        else:
            parts.append("%s=%s" % (k, esc(env[k])))
    return " ".join(parts)


def sq(s):
    return "'" + s.replace("'", "'\\''") + "'"


DUMP = " ".join("%s=<${!%s[*]}><${%s[*]-~}>" % (n, n, n) for n in UNIVERSE)


def script_for(cases):
    """one script for a chunk of (expr, env) cases; each case prints `#i v <value>` (absent on error) and `#i s <vars>`"""
    out = []
    for i, (expr, env) in enumerate(cases):
        out.append("unset " + " ".join(UNIVERSE))
        if env:
            out.append(" ".join(set_text(k, v) for k, v in sorted(env.items())))
        out.append('echo "#%d v $((%s))"' % (i, expr))
        out.append('echo "#%d s %s"' % (i, DUMP))
    return "\n".join(out) + "\n"


def classify_err(text):
    t = text.lower()
    if "division by" in t:
        return "div0"
    if "exponent less than 0" in t:
        return "negexp"
    if "recursion level" in t:
        return "recursion"
    return "other"


def parse_script_output(text, n):
    """-> list of (result, vars) with result 'v N' | 'e kind'"""
    res = [None] * n
    vals, errs, svars = {}, {}, {}
    cur_err = []
    for line in text.split("\n"):
        m = re.match(r"^#(\d+) ([vs]) ?(.*)$", line)
        if m:
            i = int(m.group(1))
            if m.group(2) == "v":
                vals[i] = m.group(3)
                cur_err = []
            else:
                svars[i] = m.group(3)
                if i not in vals:
                    errs[i] = " ".join(cur_err)
                cur_err = []
        elif line.strip():
            cur_err.append(line)
    for i in range(n):
        if i not in svars:
            res[i] = ("<missing>", "", "")
        elif i in vals:
            res[i] = ("v " + vals[i], svars[i], "")
        else:
            res[i] = ("e " + classify_err(errs.get(i, "")), svars[i], errs.get(i, ""))
    return res


def run_script(which, script, timeout=300):
    d = tempfile.mkdtemp(prefix="c07-")
    p = os.path.join(d, "s.sh")
    try:
        with open(p, "w", encoding="utf-8", newline="") as f:
            f.write(script)
        cmd = lib.shell_cmd(which, p, (), "file")
        try:
            r = lib.sp_run(cmd, stdin=subprocess.DEVNULL, stdout=subprocess.PIPE, stderr=subprocess.STDOUT,
                               env=lib.BASE_ENV, timeout=timeout, cwd=d)
            return r.returncode, r.stdout.decode("utf-8", "replace")
        except subprocess.TimeoutExpired:
            return -9, ""
    finally:
        import shutil
        shutil.rmtree(d, ignore_errors=True)


def run_shells(cases, chunk=400):
    """cases: list of (expr, env) -> (brush results, bash results), each a list of (result, vars)"""
    chunks = [cases[i:i + chunk] for i in range(0, len(cases), chunk)]

    def one(job):
        which, ch = job
        rc, out = run_script(which, script_for(ch))
        return parse_script_output(out, len(ch)), rc, out
    jobs = [("brush", ch) for ch in chunks] + [("bash", ch) for ch in chunks]
    rs = lib.pmap(one, jobs)
    nb = len(chunks)
    brush = [x for r in rs[:nb] for x in r[0]]
    bash = [x for r in rs[nb:] for x in r[0]]
    panics = [r[2][-400:] for r in rs[:nb] if r[1] in (101, 134, -6, -11) or "panicked at" in r[2]]
    return brush, bash, panics


def canon_inproc(resp):
    """harness/model response `v N | a=1 A=[0:x,2:y]` -> the (result, vars) form the scripts print"""
    if " | " not in resp:
        return (resp, "")
    res, vs = resp.split(" | ", 1)
    d = {}
    if vs != "-":
        for item in vs.split(" "):
            n, v = item.split("=", 1)
            if v.startswith("[") and v.endswith("]") and n in ARRS + VARS and re.match(r"^\[(\d+:[^,]*(,|$))*\]?$", v):
                kv = [x.split(":", 1) for x in v[1:-1].split(",")] if v != "[]" else []
                d[n] = (" ".join(k for k, _ in kv), " ".join(unesc(x) for _, x in kv))
            else:
                d[n] = ("0", unesc(v))
    parts = []
    for n in UNIVERSE:
        if n in d:
            parts.append("%s=<%s><%s>" % (n, d[n][0], d[n][1]))
        else:
            parts.append("%s=<><~>" % n)
    if res.startswith("e "):
        k = res[2:]
        res = "e " + (k if k in ("div0", "negexp", "recursion") else "other")
    return (res, " ".join(parts))


# ------------------------------------------------------------------------------------------------
# case streams

OPERANDS = [0, 1, -1, 2, 3, -3, 63, 64, 65, -64, 1 << 31, I64MAX, I64MIN, I64MAX - 1, -(1 << 62)]


def exhaustive_cases():
    cs = []
    for op in BIN_ALL:
        for l in OPERANDS:
            for r in OPERANDS:
                cs.append(("exh_binop", ("bin", op, num_node(l), num_node(r)), {}, "min"))
    for op in UN_ALL:
        for v in OPERANDS:
            cs.append(("exh_unop", ("un", op, num_node(v)), {}, "min"))
            cs.append(("exh_unop", ("un", op, ("var", "x")), {"x": str(v)}, "min"))
    for op in INC_ALL:
        for v in OPERANDS:
            cs.append(("exh_incdec", ("bin", ",", ("inc", op, ("var", "x")), ("bin", "+", ("var", "x"), ("lit", "0"))), {"x": str(v)}, "min"))
            cs.append(("exh_incdec", ("inc", op, ("var", "x")), {"x": str(v)}, "min"))
        cs.append(("exh_incdec", ("inc", op, ("var", "x")), {}, "min"))
        cs.append(("exh_incdec", ("inc", op, ("elem", "A", ("lit", "2"))), {}, "min"))
    for op in ASSIGN_ALL:
        for l in OPERANDS:
            for r in OPERANDS:
                cs.append(("exh_assign", ("assign", op, ("var", "x"), num_node(r)), {"x": str(l)}, "min"))
    # every ordered pair of binary operators, both groupings, minimal parentheses: the precedence/associativity table
    for o1 in BIN_ALL:
        for o2 in BIN_ALL:
            a, b, c = ("lit", "7"), ("lit", "3"), ("lit", "2")
            cs.append(("exh_prec_pair", ("bin", o2, ("bin", o1, a, b), c), {}, "min"))
            cs.append(("exh_prec_pair", ("bin", o1, a, ("bin", o2, b, c)), {}, "min"))
            cs.append(("exh_prec_pair", ("bin", o2, ("bin", o1, ("var", "x"), ("var", "y")), ("var", "z")), {"x": "-9", "y": "4", "z": "3"}, "sp"))
            cs.append(("exh_prec_pair", ("bin", o1, ("var", "x"), ("bin", o2, ("var", "y"), ("var", "z"))), {"x": "-9", "y": "4", "z": "3"}, "sp"))
    # unary against binary, assignment and conditional against binary
    for u in UN_ALL:
        for o in BIN_ALL:
            cs.append(("exh_prec_unary", ("un", u, ("bin", o, ("lit", "6"), ("lit", "2"))), {}, "min"))
            cs.append(("exh_prec_unary", ("bin", o, ("un", u, ("lit", "6")), ("lit", "2")), {}, "min"))
            cs.append(("exh_prec_unary", ("bin", o, ("lit", "6"), ("un", u, ("lit", "2"))), {}, "min"))
        for u2 in UN_ALL:
            cs.append(("exh_prec_unary", ("un", u, ("un", u2, ("lit", "5"))), {}, "min"))
        for i in INC_ALL:
            cs.append(("exh_prec_unary", ("un", u, ("inc", i, ("var", "x"))), {"x": "4"}, "min"))
    for o in BIN_ALL:
        for aop in ASSIGN_ALL:
            cs.append(("exh_prec_assign", ("assign", aop, ("var", "x"), ("bin", o, ("lit", "6"), ("lit", "2"))), {"x": "9"}, "min"))
            cs.append(("exh_prec_assign", ("bin", o, ("assign", aop, ("var", "x"), ("lit", "6")), ("lit", "2")), {"x": "9"}, "min"))
            cs.append(("exh_prec_assign", ("bin", o, ("lit", "6"), ("assign", aop, ("var", "x"), ("lit", "2"))), {"x": "9"}, "min"))
        for cv in ("0", "1"):
            cs.append(("exh_prec_cond", ("cond", ("bin", o, ("lit", cv), ("lit", "1")), ("lit", "5"), ("lit", "6")), {}, "min"))
            cs.append(("exh_prec_cond", ("cond", ("lit", cv), ("bin", o, ("lit", "5"), ("lit", "1")), ("bin", o, ("lit", "6"), ("lit", "1"))), {}, "min"))
            cs.append(("exh_prec_cond", ("bin", o, ("cond", ("lit", cv), ("lit", "5"), ("lit", "6")), ("lit", "2")), {}, "min"))
    for cv in ("0", "1"):
        for cw in ("0", "1"):
            cs.append(("exh_prec_cond", ("cond", ("lit", cv), ("cond", ("lit", cw), ("lit", "1"), ("lit", "2")), ("cond", ("lit", cw), ("lit", "3"), ("lit", "4"))), {}, "min"))
            cs.append(("exh_prec_cond", ("cond", ("cond", ("lit", cv), ("lit", cw), ("lit", "1")), ("lit", "3"), ("lit", "4")), {}, "min"))
            cs.append(("exh_prec_cond", ("assign", "=", ("var", "x"), ("cond", ("lit", cv), ("assign", "=", ("var", "y"), ("lit", "3")), ("assign", "=", ("var", "z"), ("lit", "4")))), {}, "min"))
    # laziness: the untaken side must leave no side effect
    for o in ("&&", "||"):
        for lv in ("0", "1", "5"):
            cs.append(("exh_lazy", ("bin", o, ("lit", lv), ("assign", "=", ("var", "x"), ("lit", "9"))), {"x": "1"}, "min"))
            cs.append(("exh_lazy", ("bin", o, ("lit", lv), ("bin", "/", ("lit", "1"), ("lit", "0"))), {}, "min"))
            cs.append(("exh_lazy", ("bin", o, ("inc", "post++", ("var", "y")), ("inc", "++pre", ("var", "x"))), {"x": "1", "y": lv}, "min"))
    for cv in ("0", "1"):
        cs.append(("exh_lazy", ("cond", ("lit", cv), ("inc", "post++", ("var", "x")), ("inc", "post--", ("var", "y"))), {"x": "1", "y": "1"}, "min"))
        cs.append(("exh_lazy", ("cond", ("lit", cv), ("bin", "/", ("lit", "1"), ("lit", "0")), ("bin", "**", ("lit", "2"), ("un", "-", ("lit", "1")))), {}, "min"))
    # literals: every boundary value in every base form
    for n in BOUNDARY + [8, 9, 35, 36, 61, 62, 4095, (1 << 63) - 2, (1 << 63) + 1]:
        for f in lit_forms(n):
            cs.append(("exh_literal", ("lit", f), {}, "min"))
            cs.append(("exh_literal", ("un", "-", ("lit", f)), {}, "min"))
    return cs


def random_cases(rng, n, depth):
    cs = []
    for _ in range(n):
        d = rng.randint(1, depth)
        t = gen_tree(rng, d)
        cs.append(("rand_d%d" % d, t, gen_env(rng), rng.choice(["min", "red", "red", "sp"])))
    return cs


# texts that are NOT renderings of trees: (bucket, expr, env, clause or None)
def special_cases(rng, n_malformed):
    cs = []
    for e in ["--1", "++1", "- -1", "+ +1", "--x", "1 - --1", "-- 1", "++ 5", "2*--3", "~--1"]:
        cs.append(("double_sign", e, {"x": "4"}, None))
    for e in ["1 + x = 5", "1 ? 2 : x = 3", "2 * y += 1", "!x = 3", "-x = 3", "1 || x = 2", "0 && x = 2", "x + y = z = 1"]:
        cs.append(("assign_operand", e, {"x": "1", "y": "2"}, "assignment_as_operand_accepted"))
    for e, env in [(" ", {}), ("  \t ", {}), ("x", {"x": " "}), ("x+1", {"x": "\t"}), ("x*y", {"x": "  ", "y": "3"})]:
        cs.append(("blank", e, env, None))
    for e in ["A[ 1 ]=5", "A[1 ]=5", "A[ 1]", "A[0]=1, A[ 0 ]+1", "A[1+ 1]=2", "x[ 0 ]"]:
        cs.append(("subscript_space", e, {"x": "3"}, None))
    for e in ["A[x++]+=5", "A[x++]++", "++A[x++]", "A[x++]--", "A[x=2]*=3", "A[y=x++]|=1", "A[x++]=5", "A[x]+=5", "B[++x]-=2"]:
        cs.append(("subscript_once", e, {"x": "0"}, None))
    for e in ["0x", "0X", "0x+1", "0x8000000000000000", "0xFFFFFFFFFFFFFFFF", "01000000000000000000000", "18446744073709551616",
              "99999999999999999999", "0x7fffffffffffffff", "0777777777777777777777", "18446744073709551615", "9223372036854775808"]:
        cs.append(("literal_edge", e, {}, None))
    for v in ["0x8000000000000000", "18446744073709551616", "0x"]:
        cs.append(("literal_edge", "x+1", {"x": v}, None))
    # malformed: well-formed renderings with one token removed / duplicated / replaced
    for _ in range(n_malformed):
        t = gen_tree(rng, rng.randint(1, 3))
        toks = tokens(t, 0, rng, "min")
        k = rng.randrange(len(toks))
        r = rng.random()
        if r < 0.4:
            toks = toks[:k] + toks[k + 1:]
        elif r < 0.7:
            toks = toks[:k] + [rng.choice(BIN_ALL + ["(", ")", "?", ":", "=", "1", "x", "08", "2#2", "1#1", "65#1", "1a", "@", "."])] + toks[k:]
        else:
            toks[k] = rng.choice(BIN_ALL + ["(", ")", "?", ":", "=", "09", "3x", "0b1", "1.5", "1e3", "x.y"])
        e = join_tokens(toks, rng, "sp")
        depth, okp = 0, True
        for ch in e:
            depth += (ch == "(") - (ch == ")")
            okp = okp and depth >= 0
        if not okp or depth != 0:          # would end the shell's own $(( )) early: not an arithmetic question
            continue
        cs.append(("malformed", e, gen_env(rng), None))
    return cs


# ------------------------------------------------------------------------------------------------
# classification

def clause_for(expr, env, tags, brush, bash):
    """The recorded defect class that explains a brush/bash difference on this case, or None.
    Each clause is identified by the feature that triggers it (text of the expression / variable contents and
    bash's own diagnosis), so any other divergence stays a VIOLATION.
    (literal_overflow_rejected, blank_expression_rejected, space_next_to_subscript_bracket_rejected and
    subscript_evaluated_twice were repaired in brush: a divergence of those kinds is a VIOLATION again.)"""
    texts = [expr] + env_texts(env)
    berr = bash[2].lower()
    brush_err = brush[0].startswith("e ")
    bash_err = bash[0].startswith("e ")
    if bash_err and not brush_err and "attempted assignment to non-variable" in berr:
        return "assignment_as_operand_accepted"
    if bash_err and any(re.search(r"[-+*/%<>&|^!~:]\s*[A-Za-z_]\w*(\[[^\]]*\])?\s*([-+*/%&|^]|<<|>>)?=(?!=)", t) for t in texts):
        # `7 / b = 1`: bash fails (its own way) before or at the `=`; brush evaluates 7 / (b = 1)
        return "assignment_as_operand_accepted"
    if bash_err and not brush_err and bash[0] == "e other" and \
            any(re.search(r"[\w\])]\s*(--|\+\+)\s*((--|\+\+)\s*)?[\w(]", t) for t in texts):
        # `x -- -- a`, `A[5] -- ++ B[5]`: brush splits a ++/-- standing between two operands into two signs
        return "double_sign_tokenization"
    if "recursion_depth_limit_differs" in tags and bash[0] == "e recursion":
        return "recursion_depth_limit_differs"
    return None


def differs(expr, env, b, o):
    """(brush fails the property on this case, name of a bash quirk that applies or None)"""
    if b[0] == "<missing>" or o[0] == "<missing>":
        return (b[0] != o[0]), None
    be, oe = b[0].startswith("e "), o[0].startswith("e ")
    if oe and o[0] == "e negexp" and (b[0], b[1]) != (o[0], o[1]):
        # bash 5.2 raises "exponent less than 0" even in a branch it does not evaluate (exppower ignores noeval);
        # the property demands short-circuit evaluation, so bash is not the reference here.
        if any("**" in t for t in [expr] + env_texts(env)) and re.search(r"&&|\|\||\?", " ".join([expr] + env_texts(env))):
            return False, "negative_exponent_in_unevaluated_branch"
    if be and oe:
        # both report an error.  bash evaluates while it parses, brush parses first: after a *syntax* error the
        # variables assigned before the error point may differ, and which error comes first may differ.
        if b[0] == o[0] and b[0] != "e other":
            return (b[1] != o[1]), None
        if "e other" in (b[0], o[0]):
            return False, None
    if be and oe:
        return True, None
    return (b[0], b[1]) != (o[0], o[1]), None


def corpus_cases():
    cs = []
    cdir = os.path.join(lib.ROOT, "corpus", "C07")
    if os.path.isdir(cdir) and not os.environ.get("VERIF_C07_SKIP_CORPUS"):      # (test hook: generators on their own)
        for f in sorted(os.listdir(cdir)):
            if not f.endswith(".txt"):
                continue
            for l in open(os.path.join(cdir, f), encoding="utf-8"):
                l = l.rstrip("\n")
                if l == "" or l.startswith("//") or "\t" not in l:
                    continue
                # format: <clause or -> TAB <expr> [TAB name=value]...
                parts = l.split("\t")
                env = dict(p.split("=", 1) for p in parts[2:])
                for k in [k for k in env if k.startswith("@")]:       # `@name=v0,v1,…`: an indexed array
                    env[k[1:]] = env.pop(k).split(",")
                cs.append(("corpus", parts[1], env, None if parts[0] == "-" else parts[0]))
    return cs


def run(ctx):
    ok, out = lib.cargo_build([BIN])
    if not ok:
        lib.log(out[-4000:])
        ctx.broken.append("harness c07 does not build against the current tree: " + lib._first_errors(out))
    ctx.proof_stage(gens=[gen_arith_levels])
    if not ok:
        return
    if not os.path.exists(lib.DRV):
        return
    rng = ctx.rng
    # ---- assemble: (bucket, expr text, env, tags, expected sexpr or None)
    cases = []
    for b, e, env, tag in corpus_cases():
        cases.append((b, e, env, {tag} if tag else set(), None))
    for b, t, env, style in exhaustive_cases() + alias_cases():
        cases.append((b, render(t, rng, style), env, features(t), sexpr(t)))
    for b, t, env, style in random_cases(rng, ctx.size(20000, 300000), ctx.size(3, 5)):
        cases.append((b, render(t, rng, style), env, features(t), sexpr(t)))
    for b, e, env, tag in special_cases(rng, ctx.size(4000, 40000)) + deref_cases():
        cases.append((b, e, env, {tag} if tag else set(), None))
    # the scripts put the text inside $(( )): keep texts the shell itself would rewrite out of the eval stream
    n = len(cases)
    plines = [req_line("P", c[1]) for c in cases]
    elines = [req_line("E", c[1], c[2]) for c in cases]
    okh, hout, herr = lib.run_vh_parallel(BIN, plines + elines)
    if not okh:
        ctx.broken.append("harness c07 died: " + herr[:500])
    mout = lib.run_drv_parallel(["C07 " + l for l in plines + elines])
    brush, bash, panics = run_shells([(c[1], c[2]) for c in cases])
    for pn in panics:
        ctx.violation("brush panicked while evaluating arithmetic", {"output_tail": pn})
    nviol = 0
    nprop = 0
    clean = []          # cases on which brush and bash agree at top level: the population of the context sweep
    for i, (bucket, expr, env, tags, want) in enumerate(cases):
        nontriv = bool(re.search(r"[-+*/%<>=!~&|^?,]", expr))
        ctx.count((expr, env_key(env)), nontrivial=nontriv, bucket=bucket)
        ctx.impl_validated += 1
        hp, mp, he, me = hout[i], mout[i], hout[n + i], mout[n + i]
        case = {"expr": expr, "env": env}
        bres, ores = brush[i], bash[i]
        prop_fails, quirk = differs(expr, env, bres, ores)
        if quirk:
            ctx.oracle_mismatch += 1
            ctx.bucket("bash_quirk:" + quirk)
        why = None
        if "PANIC" in hp or "PANIC" in he:
            why = "brush's arithmetic code panicked"
            prop_fails = True
        elif prop_fails:
            why = "brush and bash disagree: brush %r, bash %r" % (bres[:2], ores[:2])
        # 1. correspondence model <-> brush (parser and evaluator, in-process)
        if hp != mp or he != me:
            if nviol < 25:
                nviol += 1
                ctx.violation("arithmetic model and brush disagree (correspondence broken)" + (": " + why if why else ""),
                              dict(case, brush_parse=hp, model_parse=mp, brush_eval=he, model_eval=me,
                                   brush_binary=bres[:2], bash=ores[:2]),
                              kind="property" if prop_fails else "correspondence")
            continue
        # 2. the in-process evaluator and the binary's $(( )) are the same thing
        if canon_inproc(he) != (bres[0], bres[1]) and "$" not in expr:
            if nviol < 25:
                nviol += 1
                ctx.violation("brush's $(( )) differs from Evaluatable::eval on the same expression" + (": " + why if why else ""),
                              dict(case, inproc=he, binary=bres[:2], bash=ores[:2]), kind="property" if prop_fails else "correspondence")
            continue
        # 3. the parse tree is the C-precedence tree the case was rendered from
        if want is not None and hp != "ok " + want:
            ctx.bucket("tree_mismatch")
            if nviol < 25:
                nviol += 1
                ctx.violation("parse tree differs from C precedence/associativity" + (": " + why if why else ""),
                              dict(case, brush_parse=hp, c_tree=want, bash=ores[:2]), kind="property")
            continue
        # 4. the property itself: brush == bash (value or error class, variables afterwards)
        if prop_fails:
            cl = clause_for(expr, env, tags, bres, ores)
            if cl:
                ctx.bucket("known:" + cl)
                ctx.known_or_violation(cl, why, dict(case, brush=bres[:2], bash=ores[:2]))
            elif nprop < 25:
                nprop += 1
                ctx.violation(why, dict(case, brush=bres[:2], bash=ores[:2], bash_message=ores[2][:200]))
        else:
            if ores[0].startswith("e "):
                ctx.bucket("both_error_" + ores[0][2:])
            if not quirk and ores[0] != "e other" and bres[0] != "<missing>" and bucket != "corpus":
                clean.append(i)
    k = len(cases) // 3
    for j in (k, 2 * k, n - 1):
        ctx.sample({"expr": cases[j][1], "env": cases[j][2], "brush": hout[n + j], "model": mout[n + j], "bash": bash[j][:2]})
    contexts(ctx)
    deref_contexts(ctx)
    alias_contexts(ctx)
    context_sweep(ctx, [(cases[i][0], cases[i][1], cases[i][2], bash[i][0]) for i in clean])
    ctx.cov["rule"] = ("exhaustive: 20 binary ops x 15^2 boundary operands, 4 unary, 4 inc/dec, 11 assignment ops x 15^2, every ordered pair "
                       "of binary operators in both groupings with minimal parentheses, unary/assignment/conditional against every binary "
                       "operator, laziness cases, 25 boundary values in 13 literal forms; seeded random trees to depth %d over all operators "
                       "with random variable contents (numbers, empty, names, expressions, cycles), rendered minimal / spaced / redundant "
                       "parentheses+spacing; variable contents: the hand-picked list plus <unary prefix><literal form> (9 prefixes x 15 forms x 13 "
                       "boundary values, bare and blank-padded), exhaustively through bare-name dereference (x, x+1, x++, chain, subscript) "
                       "and in (( )), let, ${Q[x]}, ${S:x}; a malformed stream (token deleted/inserted/replaced); fixed witnesses of recorded defects; "
                       "aliasing (a bare name is element 0): exhaustive read/write/read and write/read/write products over the spellings "
                       "A, A[0], A[z] (z=0), A[y*0], A[y-y] and the control A[1], every assignment operator and all four ++/--, around + and "
                       "the comma, under && || ?:, for an array, a scalar (x / x[0]) and an element 0 that is an expression / a name / empty / unset "
                       "(model + in-process + binary + bash), the same product for indexed and associative arrays in $(( )), (( )), let, "
                       "a subscript and a substring offset (binary vs bash); random trees use bare array names and elements as rvalues and "
                       "lvalues over arrays with initial contents; "
                       "non-trivial = contains an operator; each case: brush parser+evaluator in-process vs Lean model, brush binary vs bash"
                       % ctx.size(3, 5))
    ctx.assumptions += ["bash 5.2.15 `$(( ))` is the reference for value, error/no-error and variables afterwards",
                        "only scalar and indexed-array variables without attributes are modelled (no nounset); associative arrays (key 0 = the bare "
                        "name) are compared brush binary vs bash only",
                        "the peg crate's precedence!{} algorithm is modelled by hand (Model/ArithParse.lean) from peg-macros 0.8.6"]


ISOLATED = [
    ("shift_in_parameter_expansion_read_as_heredoc", 'Q=(10 20 30 40); a=1\necho "${Q[(1 << a) & 3]}"\n'),
    ("shift_in_parameter_expansion_read_as_heredoc", 'S=abcdefghij; a=1\necho "${S:1 << a:2}"\n'),
    ("arithmetic_error_in_command_aborts_list", '(( 1/0 )); echo "status $?"\n'),
    ("shift_after_double_paren_read_as_heredoc", '(( x = ((1))<<2 )); echo "$x"\n'),
    ("shift_after_double_paren_read_as_heredoc", 'for (( x = ((1)) << 2 ; 0 ; )); do :; done; echo "$x"\n'),
    ("unquoted_metachar_in_assignment_subscript", 'Q[(1+1)]=z; echo "${!Q[*]}"\n'),
    ("unquoted_metachar_in_assignment_subscript", 'Q[1 + 1]=z\necho "${!Q[*]}"\n'),
    ("unquoted_metachar_in_assignment_subscript", 'x=2; Q[x>1?4:5]=z; echo "${!Q[*]}"\n'),
    ("unquoted_metachar_in_assignment_subscript", 'Q=([1+1]=a [(2 > 1)+3]=b); echo "${!Q[*]}"\n'),
]


def contexts(ctx):
    """The other places arithmetic is evaluated: (( )) status, let, array subscripts, substring offsets, declare -i."""
    rng = ctx.rng
    exprs = []
    for _ in range(ctx.size(150, 1500)):
        t = gen_tree(rng, rng.randint(1, 2))
        e = render(t, rng, "sp")
        if features(t) or "[" in e or ("**" in e and re.search(r"&&|\|\||\?", e)):   # see differs(): bash quirk
            continue
        exprs.append(e)
    lines = []
    for i, e in enumerate(exprs):
        lines += ["unset " + " ".join(UNIVERSE), "x=5 y=-3 z=x",
                  "(( %s ))" % e, 'echo "#%d a $? $x $y"' % i,
                  "x=5 y=-3", "let %s" % sq(e), 'echo "#%d b $? $x $y"' % i]
        if "<<" not in e:      # `<<` inside ${…} is read as a here-document by brush's tokenizer (own witness below)
            lines += ["x=5 y=-3", "Q=(10 20 30 40)", 'echo "#%d c ${Q[(%s) & 3]}"' % (i, e),
                      "x=5 y=-3", "S=abcdefghij", 'echo "#%d d ${S:(%s) & 7:2}"' % (i, e)]
        lines += ["x=5 y=-3", "declare -i I=0", "I+=%s" % sq(e), 'echo "#%d e $I $x"' % i, "unset I",
                  "x=5 y=-3", "declare -i J", "J=%s" % sq(e), 'echo "#%d f $J $x"' % i, "unset J"]
    script = "\n".join(lines) + "\n"
    rb = run_script("brush", script)[1]
    ro = run_script("bash", script)[1]

    def grab(text):
        d = {}
        for l in text.split("\n"):
            m = re.match(r"^#(\d+) ([a-f]) ?(.*)$", l)
            if m:
                d[(int(m.group(1)), m.group(2))] = m.group(3)
        return d
    db, do = grab(rb), grab(ro)
    # witnesses that need a process of their own (a failure aborts the whole script)
    for clause, scr in ISOLATED:
        with tempfile.TemporaryDirectory(prefix="c07i-") as wd:   # `Q[x>1?4:5]=z` is a redirection for a shell that splits the word
            b, o = lib.run_both(scr, mode="file", cwd=wd)
        ctx.count(("isolated", scr), bucket="context_isolated")
        if lib.is_panic(b):
            ctx.violation("brush panicked", {"script": scr, "stderr": b["err"][-300:]})
        elif (b["out"], b["rc"] != 0) != (o["out"], o["rc"] != 0):
            ctx.bucket("known:" + clause)
            ctx.known_or_violation(clause, "brush and bash disagree on a script using arithmetic",
                                   {"script": scr, "brush": b["out"] + b["err"][-200:], "bash": o["out"]})
    names = {"a": "(( )) status", "b": "let", "c": "array subscript", "d": "substring offset", "e": "integer-attribute +=", "f": "integer-attribute ="}
    nv = 0
    for i, e in enumerate(exprs):
        for k in "abcdef":
            ctx.count(("ctx", k, e), bucket="context_" + k)
            if db.get((i, k)) != do.get((i, k)):
                case = {"context": names[k], "expr": e, "brush": db.get((i, k)), "bash": do.get((i, k))}
                if k == "f" and do.get((i, k)) is not None:
                    ctx.bucket("known:integer_attribute_assignment_not_evaluated")
                    ctx.known_or_violation("integer_attribute_assignment_not_evaluated",
                                           "declare -i J; J=<expr> does not evaluate the expression", case)
                elif k == "e" and do.get((i, k)) is not None and db.get((i, k)) is not None:
                    ctx.bucket("known:integer_attribute_assignment_not_evaluated")
                    ctx.known_or_violation("integer_attribute_assignment_not_evaluated",
                                           "declare -i I; I+=<expr> does not evaluate the expression", case)
                elif nv < 10:
                    nv += 1
                    ctx.violation("brush and bash disagree in context %s" % names[k], case)


def deref_contexts(ctx):
    """A variable holding <prefix><literal>, dereferenced by bare name where the shell itself evaluates arithmetic:
    (( )), let, an array subscript and a substring offset; brush binary against bash."""
    vals, seen = [], set()
    for n in VALUE_NUMBERS:
        for v in value_forms(n):
            if v not in seen:
                seen.add(v)
                vals.append(v)
    chunks = lib.chunked(vals, lib.NCPU)

    def script(vs, base):
        lines = ["Q=(" + " ".join("q%d" % i for i in range(70)) + ")", "S=abcdefghijklmnopqrstuvwxyzABCDEFGHIJKLMNOPQRSTUVWXYZ0123456789abcdefgh"]
        for k, v in enumerate(vs):
            i = base + k
            lines += ["x=%s" % sq(v), "(( x++ ))", 'echo "#%d a $? $x"' % i,
                      "x=%s" % sq(v), "let 'x+=1'", 'echo "#%d b $? $x"' % i,
                      "x=%s" % sq(v), 'echo "#%d c ${Q[x]}"' % i,
                      "x=%s" % sq(v), 'echo "#%d d ${S:x}"' % i,
                      "x=%s y=x" % sq(v), 'echo "#%d e ${S:y:2}"' % i]
        return "\n".join(lines) + "\n"
    jobs, base = [], 0
    for ch in chunks:
        jobs.append((script(ch, base), base))
        base += len(ch)

    def one(job):
        scr, _ = job
        return run_script("brush", scr)[1], run_script("bash", scr)[1]
    outs = lib.pmap(one, jobs)

    def grab(text, d):
        for l in text.split("\n"):
            m = re.match(r"^#(\d+) ([a-e]) ?(.*)$", l)
            if m:
                d[(int(m.group(1)), m.group(2))] = m.group(3)
    db, do = {}, {}
    for rb, ro in outs:
        if "panicked at" in rb:
            ctx.violation("brush panicked while dereferencing a variable in arithmetic", {"output_tail": rb[-400:]})
        grab(rb, db)
        grab(ro, do)
    names = {"a": "(( x++ ))", "b": "let x+=1", "c": "${Q[x]}", "d": "${S:x}", "e": "${S:y:2} with y=x"}
    nv = 0
    for i, v in enumerate(vals):
        for k in "abcde":
            ctx.count(("derefctx", k, v), bucket="deref_context_" + k)
            b, o = db.get((i, k)), do.get((i, k))
            if b == o:
                continue
            case = {"context": names[k], "x": v, "brush": b, "bash": o}
            cl = deref_ctx_clause(k, v, b, o)
            if cl:
                ctx.bucket("known:" + cl)
                ctx.known_or_violation(cl, "brush and bash disagree on a variable dereferenced in %s" % names[k], case)
            elif nv < 15:
                nv += 1
                ctx.violation("brush and bash disagree on a variable dereferenced in %s" % names[k], case)


def alias_contexts(ctx):
    """`a` and `a[0]` (indexed arrays; key 0 of associative arrays) read / written / read inside ONE evaluation, in the
    places the shell itself evaluates arithmetic: $(( )), (( )), let, an array subscript, a substring offset; brush
    binary against bash.  Exhaustive and seed independent."""
    fams = []
    # (array name, set-up, spellings of element 0, control)
    ai = ["A", "A[0]", "A[z]", "A[y*0]"]
    ah = ["H", "H[0]"]                  # an associative subscript is a string key: only the literal spelling is element "0"
    for name, setup, al, ctl in (("A", "unset A H; A=(4 2 3)", ai, "A[1]"),
                                 ("H", "unset A H; declare -A H=([0]=4 [1]=2 [k]=3)", ah, "H[1]")):
        forms = al + [ctl]
        ws = []
        for t in forms:
            ws += ["%s=9" % t, "%s+=5" % t, "%s*=3" % t, "%s>>=1" % t, "++%s" % t, "--%s" % t, "%s++" % t, "%s--" % t]
        for r1 in forms:
            for w in ws:
                for r2 in forms:
                    fams.append((name, setup, "%s + (%s) + %s" % (r1, w, r2)))
                fams.append((name, setup, "%s , %s , %s * %s" % (r1, w, al[0], r1)))
        for w1 in ws[:16]:
            for r in forms:
                fams.append((name, setup, "(%s) * %s - (%s -= 2)" % (w1, r, al[-1])))
    chunks = lib.chunked(list(enumerate(fams)), lib.NCPU)

    def block(i, name, setup, e):
        dump = '${%s[0]}|${%s[1]}|${!%s[*]}' % (name, name, name) if name == "A" else '${H[0]}|${H[1]}|${H[k]}|${#H[@]}'
        pre = setup + "; z=0 y=7 r=; "
        L = [pre + 'echo "#%d.a $(( %s )) %s"' % (i, e, dump),
             pre + '(( r = %s )); echo "#%d.b $? $r %s"' % (e, i, dump),
             pre + 'let %s; echo "#%d.c $? $r %s"' % (sq("r = " + e), i, dump),
             pre + 'Q=(q0 q1 q2 q3 q4 q5 q6 q7); echo "#%d.d ${Q[(%s)&7]} %s"' % (i, e, dump),
             pre + 'S=abcdefghijkl; echo "#%d.e ${S:(%s)&7:2} %s"' % (i, e, dump)]
        return L

    def one(ch):
        scr = "\n".join(l for i, (name, setup, e) in ch for l in block(i, name, setup, e)) + "\n"
        return run_script("brush", scr)[1], run_script("bash", scr)[1]
    outs = lib.pmap(one, chunks)
    db, do = {}, {}
    for rb, ro in outs:
        if "panicked at" in rb:
            ctx.violation("brush panicked in the alias contexts", {"output_tail": rb[-400:]})
        db.update(sweep_outputs(rb))
        do.update(sweep_outputs(ro))
    names = {"a": "$(( ))", "b": "(( ))", "c": "let", "d": "array subscript", "e": "substring offset"}
    nv = 0
    for i, (name, setup, e) in enumerate(fams):
        for k, line in zip("abcde", block(i, name, setup, e)):
            key = "%d.%s" % (i, k)
            ctx.count(("aliasctx", k, name, e), nontrivial=True, bucket="alias_%s_%s" % ("indexed" if name == "A" else "assoc", k))
            b, o = db.get(key), do.get(key)
            if b == o and b is not None:
                continue
            if nv < 15:
                nv += 1
                ctx.violation("`%s` and `%s[0]` are the same cell: brush and bash disagree on a read/write/read inside one %s"
                              % (name, name, names[k]),
                              {"context": names[k], "expr": e, "env": {}, "script": line, "brush": b, "bash": o})


def deref_ctx_clause(k, v, b, o):
    """recorded defect classes, by the feature of the variable's contents"""
    w = v.strip()
    m = re.search(r"0[xX][0-9a-fA-F]*$|[0-9]+$", w)
    if m and "#" not in w:
        t = m.group(0)
        if re.fullmatch(r"0[xX]", t) or (re.fullmatch(r"0[xX][0-9a-fA-F]+|0[0-7]*|[1-9][0-9]*", t) and lit_value(t)[1]):
            return "literal_overflow_rejected"   # brush: parse error; bash: wraps
    return None


# ------------------------------------------------------------------------------------------------
# context sweep: the same expression carried by every arithmetic context, in every execution context, under
# options that must not matter, and evaluated repeatedly in one process (parse cache)

SWEEP_OPTIONS = ["set -u", "set -f", "set -e", "set -E", "set -T", "set +h", "set -C", "set -o posix",
                 "shopt -s extglob", "shopt -s nullglob", "shopt -s dotglob", "shopt -s nocasematch", "shopt -s globstar",
                 "shopt -s expand_aliases", "shopt -s lastpipe", "shopt -s inherit_errexit"]


def sweep_blocks(cid, expr, env):
    """-> list of (context name, script text).  Every block is a subshell of its own (state cannot leak between
    blocks) that prints lines `#<cid>.<ctx> <tag> ...`; everything else on stdout/stderr is ignored."""
    def ident(c):
        return "%s.%s" % (cid, c)
    unset = "unset " + " ".join(UNIVERSE)
    sets = " ".join(set_text(k, v) for k, v in sorted(env.items()))
    pre = unset + ("\n" + sets if sets else "")

    def val(c, e=None, tag="v"):
        return 'echo "#%s %s $(( %s ))"' % (ident(c), tag, e if e is not None else expr)

    def dmp(c, tag="s"):
        return 'echo "#%s %s %s"' % (ident(c), tag, DUMP)

    def body(c):
        return val(c) + "\n" + dmp(c)
    B = []

    def add(c, text):
        B.append((c, "(\n" + text + "\n)"))
    keys = sorted(env)
    hide = " ".join("%s=77" % k for k in keys)
    loc = lambda ks: ("local " + " ".join(set_text(k, env[k]) for k in ks)) if ks else ":"
    # --- execution contexts, carrier $(( ))
    add("top", pre + "\n" + body("top"))
    add("func", pre + "\nf_() {\n" + body("func") + "\n}\nf_\n" + dmp("func", "g"))
    add("local", unset + ("\n" + hide if hide else "") + "\nf_() {\n" + loc(keys) + "\n" + body("local") + "\n}\nf_\n" + dmp("local", "g"))
    h1, h2 = keys[::2], keys[1::2]
    add("deep", unset + ("\n" + hide if hide else "") + "\nf_() {\n" + loc(h2) + "\n" + body("deep") + "\n}\ng_() {\n" + loc(h1) + "\nf_\n"
        + dmp("deep", "h") + "\n}\ng_\n" + dmp("deep", "g"))
    add("subshell", pre + "\n(\n" + body("subshell") + "\n)\n" + dmp("subshell", "g"))
    add("cmdsub", pre + "\nr_=$(\n" + body("cmdsub") + "\n)\necho \"$r_\"\n" + dmp("cmdsub", "g"))
    add("eval", pre + "\neval '" + body("eval") + "'")
    add("brace", pre + "\n{\n" + body("brace") + "\n} 3>/dev/null")
    add("lastpipe", "shopt -s lastpipe\n" + pre + "\n: | {\n" + body("lastpipe") + "\n}\n" + dmp("lastpipe", "g"))
    add("for", pre + "\nfor q_ in 1; do\n" + body("for") + "\ndone")
    add("while", pre + "\nwhile :; do\n" + body("while") + "\nbreak\ndone")
    # an EXIT handler: brush does not run EXIT traps set inside ( … ) (C16's subject, not arithmetic), so the handler is the
    # script's own, registered as the last command of the chunk's script: one case per script gets this context
    B.append(("trap", pre + "\ntrap '" + body("trap") + "' EXIT"))
    add("source", pre + "\ncat > ./src_ <<'EOF_'\n" + body("source") + "\nEOF_\n. ./src_")
    add("twice", pre + "\n" + body("twice") + "\n" + val("twice", tag="v2") + "\n" + dmp("twice", "s2"))
    add("posarg", pre + "\nf_() {\n" + val("posarg", "(%s) + $1 * ${2} - $#" % expr) + "\n" + dmp("posarg") + "\n}\nf_ 010 -3")
    add("posset", pre + "\nset -- 0x10 7 z\n" + val("posset", "$1 - (%s) * $2 + $#" % expr) + "\n" + dmp("posset"))
    # --- the other arithmetic contexts as carriers of the same expression
    # `(( … ))` / `for (( … ))`: after an inner `))` brush's tokenizer takes a later `<<` for a here-document operator and
    # rejects the whole script (clause shift_after_double_paren_read_as_heredoc, own witnesses in ISOLATED)
    arith_cmd_ok = not re.search(r"\)\s*\).*<<", expr)
    def add_cmd(c, text):
        if arith_cmd_ok:
            add(c, text)
    add_cmd("cmd", pre + "\n(( " + expr + " ))\n" + 'echo "#%s r $?"' % ident("cmd") + "\n" + dmp("cmd"))
    add("let", pre + "\nlet " + sq(expr) + "\n" + 'echo "#%s r $?"' % ident("let") + "\n" + dmp("let"))
    add_cmd("forinit", pre + "\nfor (( " + expr + " ; 0 ; )); do :; done\n" + dmp("forinit"))
    add_cmd("forcond", pre + "\nfor (( ; " + expr + " ; )); do\n" + 'echo "#%s t"' % ident("forcond") + "\nbreak\ndone\n" + dmp("forcond"))
    add_cmd("forstep", pre + "\nfor (( k_=0 ; k_<1 ; k_++ , " + expr + " )); do :; done\n" + dmp("forstep"))
    add("test", pre + "\n[[ \"" + expr + "\" -lt 1 ]]\n" + 'echo "#%s r $?"' % ident("test") + "\n" + dmp("test"))
    # the subscript is quoted: unquoted, brush's tokenizer rejects blanks, parentheses and operator characters in the
    # subscript of an assignment word (clause unquoted_metachar_in_assignment_subscript, own witnesses in ISOLATED)
    add("sublhs", pre + "\nQ_[\"(" + expr + ")&7\"]=z\n" + 'echo "#%s k ${!Q_[*]}"' % ident("sublhs") + "\n" + dmp("sublhs"))
    # subscripts inside an array literal (quoted for the same reason): plain assignment and `+=` must equal bash; the
    # declare / local / readonly forms do not evaluate the subscript (clause declare_array_literal_subscript_not_evaluated)
    lit = '(["(' + expr + ')&7"]=z)'
    kline = lambda c: 'echo "#%s k ${!Q_[*]}"' % ident(c)
    add("litsub", pre + "\nQ_=" + lit + "\n" + kline("litsub") + "\n" + dmp("litsub"))
    add("litadd", pre + "\nQ_=(p q)\nQ_+=" + lit + "\n" + kline("litadd") + "\n" + dmp("litadd"))
    add("declit", pre + "\ndeclare -a Q_=" + lit + "\n" + kline("declit") + "\n" + dmp("declit"))
    add("loclit", pre + "\nf_() {\nlocal -a Q_=" + lit + "\n" + kline("loclit") + "\n" + dmp("loclit") + "\n}\nf_")
    add("rolit", pre + "\nreadonly -a Q_=" + lit + "\n" + kline("rolit") + "\n" + dmp("rolit"))
    # no `<` / `>` inside ${…}: `<<` there is clause shift_in_parameter_expansion_read_as_heredoc (own witnesses), and bash
    # itself re-tokenizes an unspaced `(z<=3)` inside "${a[…]}" / "${s:…}" into `z < =3` (a bash quirk, not arithmetic)
    if "<" not in expr and ">" not in expr:
        add("subrhs", pre + "\nQ_=(q0 q1 q2 q3 q4 q5 q6 q7)\n" + 'echo "#%s e ${Q_[(%s)&7]}"' % (ident("subrhs"), expr) + "\n" + dmp("subrhs"))
        add("substr", pre + "\nS_=abcdefghijkl\n" + 'echo "#%s e ${S_:(%s)&7:2}"' % (ident("substr"), expr) + "\n" + dmp("substr"))
    if "[" not in expr and arith_cmd_ok:        # `$[ … ]` shares the `))`-then-`<<` tokenizer defect
        add("dbracket", pre + "\n" + 'echo "#%s v $[ %s ]"' % (ident("dbracket"), expr) + "\n" + dmp("dbracket"))
    add("locali", pre + "\nf_() {\nlocal -i I_\nI_=" + sq(expr) + "\n" + 'echo "#%s e $I_"' % ident("locali") + "\n}\nf_")
    # --- options that must not matter (bash under the same option is the oracle where one does)
    for k, opt in enumerate(SWEEP_OPTIONS):
        c = "opt%d" % k
        B.append((c, "(\n" + opt + "\n" + pre + "\n" + body(c) + "\n)\n" + 'echo "#%s rc $(( $? != 0 ))"' % ident(c)))
    return B


def run_sweep_script(which, script, timeout=600):
    return run_script(which, script, timeout)[1]


def sweep_outputs(text):
    d = {}
    for l in text.split("\n"):
        m = re.match(r"^#(\d+\.\w+) (.*)$", l)
        if m:
            d.setdefault(m.group(1), []).append(m.group(2))
    return d


def sweep_clause(c, expr, env, b, o):
    """recorded defect classes a context difference may belong to"""
    if c == "locali":
        return "integer_attribute_assignment_not_evaluated"
    if c in ("declit", "loclit", "rolit"):
        # only this shape: brush did not evaluate the (never plain-decimal) subscript `(E)&7` and stored the element at
        # index 0, while bash evaluated it (the sweep's cases all evaluate to a value in bash)
        bk = [l for l in (b or []) if l.startswith("k ")]
        ok = [l for l in (o or []) if l.startswith("k ")]
        if bk == ["k 0"] and len(ok) == 1 and re.fullmatch(r"k [0-7]", ok[0]):
            return "declare_array_literal_subscript_not_evaluated"
    return None


def context_sweep(ctx, population):
    """population: (bucket, expr, env, bash's top-level result) of cases on which brush and bash agree at top level"""
    rng = ctx.rng
    # only cases that evaluate to a value: what happens to the rest of a function / list / subshell after an arithmetic
    # *error* differs between the shells by context (bash unwinds to the top level; clause
    # arithmetic_error_in_command_aborts_list and C02/C03's subject), which would drown the arithmetic question
    pop = [p for p in population if "\n" not in p[1] and p[3].startswith("v ") and p[1].strip()]
    if not pop:
        return
    nsample = ctx.size(360, 5000)
    # half from the exhaustive families, half from the random ones, so every operator family is met
    exh = [p for p in pop if p[0].startswith("exh")]
    rnd = [p for p in pop if not p[0].startswith("exh")]
    sample = rng.sample(exh, min(len(exh), nsample // 2)) + rng.sample(rnd, min(len(rnd), nsample - nsample // 2))
    blocks = {}
    per_case = []
    for cid, (bucket, expr, env, _) in enumerate(sample):
        bl = sweep_blocks(cid, expr, env)
        per_case.append(bl)
        for c, text in bl:
            blocks["%d.%s" % (cid, c)] = text
    chunks = lib.chunked(list(range(len(sample))), max(lib.NCPU, len(sample) // 8))

    def chunk_script(idx):
        parts = [text for cid in idx for c, text in per_case[cid] if c != "trap"]
        parts += [text for c, text in per_case[idx[-1]] if c == "trap"]      # last: the script's EXIT handler
        return "\n".join(parts) + "\n"

    def one(idx):
        scr = chunk_script(idx)
        return run_sweep_script("brush", scr), run_sweep_script("bash", scr)
    outs = lib.pmap(one, chunks)
    db, do = {}, {}
    for idx, (rb, ro) in zip(chunks, outs):
        if "panicked at" in rb:
            ctx.violation("brush panicked in the context sweep", {"output_tail": rb[-600:]})
        b1 = sweep_outputs(rb)
        if idx and not b1:
            ctx.violation("brush produced nothing for a context-sweep script (the script as a whole was rejected?)",
                          {"script": chunk_script(idx[:1]), "brush_output": rb[-600:]})
        db.update(b1)
        do.update(sweep_outputs(ro))
    nv = 0
    for cid, (bucket, expr, env, _) in enumerate(sample):
        for c, text in per_case[cid]:
            if c == "trap" and not any(idx and idx[-1] == cid for idx in chunks):
                continue
            key = "%d.%s" % (cid, c)
            name = SWEEP_OPTIONS[int(c[3:])] if c.startswith("opt") else c
            ctx.count(("sweep", c, expr, env_key(env)), bucket="sweep_" + ("option" if c.startswith("opt") else c))
            b, o = db.get(key), do.get(key)
            if b == o:
                continue
            case = {"context": name, "expr": expr, "env": env, "script": text, "brush": b, "bash": o}
            cl = sweep_clause(c, expr, env, b, o)
            if cl:
                ctx.bucket("known:" + cl)
                ctx.known_or_violation(cl, "brush and bash disagree in context %s" % name, case)
            elif nv < 20:
                nv += 1
                ctx.violation("brush and bash agree on $(( %s )) at top level but disagree in context `%s`" % (expr[:60], name), case)
    repeated_evaluation(ctx, [p for p in pop if p[3].startswith("v ")])


def repeated_evaluation(ctx, pop):
    """One process, many evaluations (the parser keeps a 64-entry cache keyed on the text): the same expression in three
    blank layouts, the same text again after its variables changed, and again after more than 64 other expressions."""
    rng = ctx.rng
    exprs = rng.sample(pop, min(len(pop), ctx.size(600, 6000)))
    chunks = lib.chunked(exprs, lib.NCPU)

    def relayout(e, how):
        toks = re.findall(r"[A-Za-z_0-9#@]+|\*\*|<<=|>>=|<<|>>|<=|>=|==|!=|&&|\|\||\+\+|--|[-+*/%&|^]=|.", e.replace("\t", " "))
        toks = [t for t in toks if t.strip()]
        out = ""
        for t in toks:
            sep = {"min": "", "sp": " ", "wide": " \t "}[how]
            if out and sep == "" and ((out[-1] in "+-" and t[0] == out[-1]) or (re.match(r"\w", out[-1]) and re.match(r"\w", t[0]))):
                sep = " "
            if out and t == "[" or (out and out[-1] == "["):     # no blank between a name and its subscript bracket
                sep = ""
            out += sep + t if out else t
        return out

    def script(ch, base):
        lines = []
        unset = "unset " + " ".join(UNIVERSE)
        for rnd in ("A", "B", "C", "D"):
            for k, (bucket, expr, env, _) in enumerate(ch):
                i = base + k
                sets = " ".join(set_text(kk, v) for kk, v in sorted(env.items()))
                how = {"A": "sp", "B": "min", "C": "wide", "D": "sp"}[rnd]
                e = relayout(expr, how)
                lines.append(unset)
                if rnd == "D":           # same text as round A, other variable values: nothing of round A may be remembered
                    lines.append(" ".join("%s=%d" % (v, 3 + j) for j, v in enumerate(VARS)))
                elif sets:
                    lines.append(sets)
                lines.append('echo "#%d.%s v $(( %s ))"' % (i, rnd, e))
                lines.append('echo "#%d.%s s %s"' % (i, rnd, DUMP))
        return "\n".join(lines) + "\n"
    jobs, base = [], 0
    for ch in chunks:
        jobs.append((script(ch, base), base, ch))
        base += len(ch)

    def one(job):
        return run_sweep_script("brush", job[0]), run_sweep_script("bash", job[0])
    outs = lib.pmap(one, jobs)
    nv = 0
    for (scr, base, ch), (rb, ro) in zip(jobs, outs):
        b1, o1 = sweep_outputs(rb), sweep_outputs(ro)
        for k, (bucket, expr, env, _) in enumerate(ch):
            for rnd in "ABCD":
                key = "%d.%s" % (base + k, rnd)
                ctx.count(("repeat", rnd, expr, env_key(env)), bucket="repeat_" + rnd)
                if b1.get(key) != o1.get(key) and nv < 10:
                    nv += 1
                    ctx.violation("repeated evaluation in one process: brush and bash disagree (round %s of: spaced, minimal, wide, "
                                  "spaced again with other variable values)" % rnd,
                                  {"expr": expr, "env": env, "round": rnd, "brush": b1.get(key), "bash": o1.get(key),
                                   "note": "the whole script of this chunk evaluates %d expressions in one process" % (4 * len(ch))})


def replay(ctx, rp):
    lib.cargo_build([BIN])
    case = rp["case"]
    if "expr" not in case:
        print(json.dumps(case, indent=1))
        return 1
    expr, env = case["expr"], case.get("env") or {}
    if "script" in case:
        b, o = run_sweep_script("brush", case["script"] + "\n"), run_sweep_script("bash", case["script"] + "\n")
        bl = [l for l in b.split("\n") if l.startswith("#")]
        ol = [l for l in o.split("\n") if l.startswith("#")]
        print("context:", case.get("context"), " expr:", repr(expr), " env:", env)
        print("script:\n" + case["script"])
        print("brush:", bl)
        print("bash: ", ol)
        print("property on brush:", "FAILS" if bl != ol else "holds (brush == bash)")
        return 1 if bl != ol else 0
    if "context" in case:
        print(json.dumps(case, indent=1))
        return 1
    _, h, _ = lib.run_vh(BIN, [req_line("P", expr), req_line("E", expr, env)])
    m = lib.run_drv(["C07 " + req_line("P", expr), "C07 " + req_line("E", expr, env)])
    brush, bash, _ = run_shells([(expr, env)])
    print("expr:        ", repr(expr), " env:", env)
    print("brush parse: ", h[0] if h else "<none>")
    print("model parse: ", m[0])
    print("brush eval:  ", h[1] if len(h) > 1 else "<none>")
    print("model eval:  ", m[1])
    print("brush $(( )):", brush[0][:2])
    print("bash  $(( )):", bash[0][:2], bash[0][2][:160])
    bad = (brush[0][:2] != bash[0][:2]) or not h or h[0] != m[0] or h[1] != m[1]
    if "c_tree" in case and h and h[0] != "ok " + case["c_tree"]:
        print("C tree:      ", case["c_tree"])
        bad = True
    print("property on brush:", "FAILS" if brush[0][:2] != bash[0][:2] else "holds (brush == bash)")
    return 1 if bad else 0


if __name__ == "__main__":
    gen_arith_levels()
    print(open(os.path.join(lib.LEAN, "BrushVerif", "Gen", "ArithLevels.lean")).read())
