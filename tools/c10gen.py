"""Translator for C10: regenerates lean/BrushVerif/Gen/RedirTables.lean from brush-core/src/interp.rs.

Three tables of `setup_redirect` are read from the Rust source on every run:
  * `get_default_fd_for_redirect_kind`  (redirect kind -> descriptor when none is written),
  * the `match kind { … }` that fills the `OpenOptions` of a file redirection (incl. the noclobber branch),
  * the `OpenOptions` of `setup_redirect_output_and_error_to` (`&>` / `&>>`).
Props/C10.lean proves that the hand-written `Fd.defaultFd`, `Fd.flagsFor`, `Fd.outErrFlags` — the functions every
refinement theorem of C10 is stated over — are equal to the generated ones, so the theorems are re-checked
against what the code says now.  Anything the mini parser does not recognise raises (broken obligation)."""
import os, re
import lib

KINDS = {"Read": "read", "Write": "write", "Append": "append", "ReadAndWrite": "readWrite", "Clobber": "clobber",
         "DuplicateInput": "dupIn", "DuplicateOutput": "dupOut"}
SETTERS = {"read": "setRead", "write": "setWrite", "append": "setAppend", "create": "setCreate",
           "create_new": "setCreateNew", "truncate": "setTruncate"}


def _strip_comments(s):
    return re.sub(r"//[^\n]*", "", s)


def _match_brace(s, i):
    """s[i] == '{' -> index just after the matching '}'"""
    assert s[i] == "{"
    d = 0
    for j in range(i, len(s)):
        if s[j] == "{":
            d += 1
        elif s[j] == "}":
            d -= 1
            if d == 0:
                return j + 1
    raise RuntimeError("unbalanced braces")


def _cond(c):
    parts = [p.strip() for p in c.split("&&")]
    out = []
    for p in parts:
        p = re.sub(r"\s+", "", p)
        neg = p.startswith("!")
        if neg:
            p = p[1:]
        if "disallow_overwriting_regular_files_via_output_redirection" in p and p.startswith("shell.options()"):
            a = "nc"
        elif re.fullmatch(r"\w+\.is_file\(\)", p):
            a = "existsReg"
        elif p == "append":
            a = "append"
        else:
            raise RuntimeError("condition not understood: " + c.strip()[:120])
        out.append(("!" if neg else "") + a)
    return " && ".join(out)


def _arg(a):
    a = re.sub(r"\s+", "", a)
    if a in ("true", "false", "append", "!append"):
        return a
    raise RuntimeError("option argument not understood: " + a)


def _block(s, var):
    """statements of a block -> list of ('set', setter, arg) | ('if', cond, then, else)"""
    i, out = 0, []
    while True:
        while i < len(s) and s[i].isspace():
            i += 1
        if i >= len(s):
            return out
        if s.startswith("if", i) and not (s[i + 2].isalnum() or s[i + 2] == "_"):
            b = s.index("{", i)
            cond = _cond(s[i + 2:b])
            e = _match_brace(s, b)
            then = _block(s[b + 1:e - 1], var)
            i = e
            m = re.match(r"\s*else\s*\{", s[i:])
            els = []
            if m:
                b2 = i + m.end() - 1
                e2 = _match_brace(s, b2)
                els = _block(s[b2 + 1:e2 - 1], var)
                i = e2
            out.append(("if", cond, then, els))
            continue
        e = s.find(";", i)
        if e < 0:
            raise RuntimeError("statement without ';': " + s[i:i + 80])
        st = s[i:e]
        i = e + 1
        st1 = re.sub(r"\s+", "", st)
        if not st1.startswith(var + "."):
            raise RuntimeError("statement not understood (expected %s.…): %s" % (var, st.strip()[:100]))
        calls = re.findall(r"\.(\w+)\(([^()]*)\)", st1[len(var):])
        if "".join(".%s(%s)" % c for c in calls) != st1[len(var):]:
            raise RuntimeError("call chain not understood: " + st.strip()[:100])
        for name, arg in calls:
            if name not in SETTERS:
                raise RuntimeError("unknown OpenOptions method: " + name)
            out.append(("set", SETTERS[name], _arg(arg)))


def _term(block, acc):
    for st in block:
        if st[0] == "set":
            acc = "(%s (%s) %s)" % (st[1], st[2], acc)
        else:
            acc = "(if %s then %s else %s)" % (st[1], _term(st[2], acc), _term(st[3], acc))
    return acc


def _arms(body):
    """`ast::IoFileRedirectKind::X => {…}` / `=> N,` arms of a match body -> {X: text}"""
    arms, i = {}, 0
    for m in re.finditer(r"ast::IoFileRedirectKind::(\w+)\s*=>\s*", body):
        if m.start() < i:
            continue
        j = m.end()
        if body[j] == "{":
            e = _match_brace(body, j)
            arms[m.group(1)] = body[j + 1:e - 1]
            i = e
        else:
            e = body.index(",", j)
            arms[m.group(1)] = body[j:e].strip()
            i = e
    return arms


def parse(src):
    src = _strip_comments(src)
    # 1. default descriptors
    m = re.search(r"fn get_default_fd_for_redirect_kind\s*\([^)]*\)\s*->\s*ShellFd\s*\{\s*match kind\s*\{", src)
    if not m:
        raise RuntimeError("get_default_fd_for_redirect_kind not found in interp.rs")
    b = m.end() - 1
    dflt = _arms(src[b + 1:_match_brace(src, b) - 1])
    if set(dflt) != set(KINDS):
        raise RuntimeError("default-fd table: kinds %s" % sorted(dflt))
    for k, v in dflt.items():
        if not re.fullmatch(r"\d+", v):
            raise RuntimeError("default-fd arm not a number: %s => %s" % (k, v))
    # 2. OpenOptions per kind
    m = re.search(r"let default_fd_if_unspecified = get_default_fd_for_redirect_kind\(kind\);\s*match kind\s*\{", src)
    if not m:
        raise RuntimeError("the `match kind` that fills the OpenOptions of setup_redirect was not found")
    b = m.end() - 1
    arms = _arms(src[b + 1:_match_brace(src, b) - 1])
    if set(arms) != set(KINDS):
        raise RuntimeError("open-options table: kinds %s" % sorted(arms))
    flags = {k: _block(v, "options") for k, v in arms.items()}
    # 3. &> / &>>
    m = re.search(r"fn setup_redirect_output_and_error_to\s*\(", src)
    if not m:
        raise RuntimeError("setup_redirect_output_and_error_to not found")
    b = src.index("{", src.index("->", m.end()))
    body = src[b + 1:_match_brace(src, b) - 1]
    m1 = re.search(r"let mut file_options = std::fs::File::options\(\);", body)
    m2 = re.search(r"let stdout_file\s*=", body)
    if not (m1 and m2):
        raise RuntimeError("setup_redirect_output_and_error_to: option block not found")
    outerr = _block(body[m1.end():m2.start()], "file_options")
    return dflt, flags, outerr


def gen_redir_tables():
    src = open(os.path.join(lib.REPO, "brush-core", "src", "interp.rs"), encoding="utf-8").read()
    dflt, flags, outerr = parse(src)
    L = ["import BrushVerif.Model.Fd",
         "/-! GENERATED by tools/c10gen.py (gen_redir_tables) from `brush-core/src/interp.rs`",
         "(`get_default_fd_for_redirect_kind`, the `match kind` of `setup_redirect`,",
         "`setup_redirect_output_and_error_to`) — do not edit; regenerated on every `./check C10`. -/",
         "namespace BrushVerif.Gen", "open BrushVerif.Fd", "",
         "/-- all seven `IoFileRedirectKind`s (the model's `Fd.Kind` has the five that open a path by kind;",
         "the two duplication kinds reach these tables only when the word after `<&`/`>&` is a file name) -/",
         "inductive RKind where", "  | " + " | ".join(KINDS.values()), "  deriving DecidableEq, Repr", "",
         "def RKind.ofKind : Kind → RKind",
         "  | .read => .read | .write => .write | .append => .append | .readWrite => .readWrite | .clobber => .clobber", "",
         "/-! `std::fs::OpenOptions` setters (std's documented meaning: `append(true)` implies write access,",
         "`create_new(true)` implies `create`) -/",
         "def setRead (v : Bool) (o : OFlags) : OFlags := { o with rd := v }",
         "def setWrite (v : Bool) (o : OFlags) : OFlags := { o with wr := v }",
         "def setAppend (v : Bool) (o : OFlags) : OFlags := { o with app := v, wr := o.wr || v }",
         "def setCreate (v : Bool) (o : OFlags) : OFlags := { o with creat := v }",
         "def setCreateNew (v : Bool) (o : OFlags) : OFlags := { o with excl := v, creat := o.creat || v }",
         "def setTruncate (v : Bool) (o : OFlags) : OFlags := { o with trunc := v }", "",
         "def genDefaultFd : RKind → Fd"]
    for k, lk in KINDS.items():
        L.append("  | .%s => %s" % (lk, dflt[k]))
    L += ["", "def genFlagsFor (nc : Bool) (existsReg : Bool) : RKind → OFlags"]
    for k, lk in KINDS.items():
        L.append("  | .%s => %s" % (lk, _term(flags[k], "({} : OFlags)")))
    L += ["", "def genOutErrFlags (nc : Bool) (existsReg : Bool) (append : Bool) : OFlags :=",
          "  " + _term(outerr, "({} : OFlags)"), "", "end BrushVerif.Gen", ""]
    text = "\n".join(L)
    gdir = os.path.join(lib.LEAN, "BrushVerif", "Gen")
    os.makedirs(gdir, exist_ok=True)
    p = os.path.join(gdir, "RedirTables.lean")
    if not os.path.exists(p) or open(p, encoding="utf-8").read() != text:
        with open(p, "w", encoding="utf-8") as f:
            f.write(text)


if __name__ == "__main__":
    gen_redir_tables()
    print(open(os.path.join(lib.LEAN, "BrushVerif", "Gen", "RedirTables.lean")).read())
