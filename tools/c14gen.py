"""C14 generator: function definitions from the program grammar as a neutral tree; renderer to shell
source (a layout different from brush's printer); wire form for the Lean driver; feature detection.

tree shapes
  fdef     := ("fdef", name, compound, [redir])
  list     := [(andor, sep)]                       sep ";" | "&"
  andor    := (pipeline, [(op, pipeline)])         op "&&" | "||"
  pipeline := (timed, bang, [cmd])                 timed 0 | 1 (time) | 2 (time -p)
  cmd      := ("simple", [item], word|None, [item]) | ("comp", compound, [redir]) | fdef
  item     := ("w", word) | ("a", word) | ("r", redir) | ("ps", "<"|">", list)
  redir    := ("file", fd|None, kind, ("w", word) | ("ps", "<"|">", list)) | ("oe", append, word)
              | ("hs", fd|None, word) | ("hd", fd|None, strip, delim, body)
  compound := ("arith", expr) | ("afor", init|None, cond|None, upd|None, list) | ("brace", list) | ("sub", list)
              | ("for", var, [word]|None, list) | ("case", word, [(patterns, list|None, post)])
              | ("if", list, list, [(list|None, list)]) | ("while", list, list) | ("until", list, list)
              | ("coproc", word|None, cmd) | ("test", [word])
"""
from lib import esc

PLAIN = ["a", "b1", "$x", "x.y", "-n", "w2", "$y", "z/k", "7", "+3", "a:b", "%s", "@", "k=v"]
RICH = ['"q s"', "'s q'", "$(echo z)", "${x:-d}", "a\\ b", '"a;b"', "`echo t`", '"$x"', "x{1,2}", "'a>b'", '"(p)"']
MULTI = ['"l1\nl2"', "'m1\n  m2'", "$(echo u\necho v)"]
FILES = ["o1", "o2", "o3", "/dev/null"]
NAMES = ["p", "n", "echo", "true", "false", ":", "p", "n"]


def item1(cmd, sep=";"):
    """a list item holding one plain command"""
    return (((0, False, [cmd]), []), sep)


class Gen:
    def __init__(self, rng, size, rich=0.15, weird=0.5):
        self.rng, self.budget, self.rich, self.weird = rng, size, rich, weird
        self.nfile = 0
        self.nfun = 0
        self.async_ok = False       # `&` items only in the top-level brace group (so that `wait` sees them)
        self.norun = False          # behaviour is not deterministic (coproc)
        # a multi-line word on a line that has a pending here-document is a source-level hazard
        # (where the document starts); one tree uses here-documents or multi-line words, not both
        self.hd_ok = rng.random() < 0.2

    def chance(self, p):
        return self.rng.random() < p

    def word(self, allow_multi=True):
        r = self.rng.random()
        if r < self.rich:
            if allow_multi and not self.hd_ok and self.chance(0.12 * self.weird):
                return self.rng.choice(MULTI)
            w = self.rng.choice(RICH)
            # brush's tokenizer reorders `${…}`/`$(…)` text that follows a here-document tag on the same
            # line (source-level defect, outside this property): keep them out of trees with here-documents
            return w if not (self.hd_ok and ("$(" in w or "${" in w or "`" in w or "{" in w)) else '"q s"'
        w = self.rng.choice(PLAIN)
        # same tokenizer defect: a digit word followed by ` >` after a here-document tag is taken as an fd number
        return "w7" if (self.hd_ok and w.isdigit()) else w

    def fd(self):
        return self.rng.choice([None, None, None, 1, 2, 2, 3]) if self.chance(0.5) else None

    def ofile(self):
        """a fresh output file per redirect (stages of a pipeline run concurrently: never two writers per file)"""
        if self.chance(0.25):
            return "/dev/null"
        self.nfile += 1
        return "o%d" % self.nfile

    def redir(self, inp_ok=True):
        rng = self.rng
        r = rng.random()
        if r < 0.35:
            kind = rng.choice([">", ">>", ">|", ">", ">>"])
            fd = rng.choice([None, None, 1, 2])
            return ("file", fd, kind, ("w", self.ofile()))
        if r < 0.55:
            k = rng.choice([(2, ">&", "1"), (1, ">&", "2"), (None, ">&", "2"), (None, "<&", "0"), (2, ">&", "-"), (3, ">&", "1")])
            return ("file", k[0], k[1], ("w", k[2]))
        if r < 0.63:
            return ("file", rng.choice([None, 0]), "<", ("w", "/dev/null"))
        if r < 0.68:
            return ("file", 3, "<>", ("w", self.ofile()))
        if r < 0.75:
            return ("oe", self.chance(0.4), self.ofile())
        if r < 0.83:
            return ("hs", rng.choice([None, None, 0]), self.word(False))
        if r < 0.93 and not self.hd_ok:
            return ("hs", None, self.word(False))
        if r < 0.93:
            strip = self.chance(0.3)
            delim = rng.choice(["E", "EOF", "'Q'", "E2"])
            nl = rng.randint(0, 2)
            lines = [rng.choice(["h $x", "text", "  sp", "\tt", "a;b > c", "$(echo s)"]) for _ in range(nl)]
            return ("hd", rng.choice([None, None, 0]), strip, delim, "".join(l + "\n" for l in lines))
        if self.hd_ok:      # a process substitution after a pending here-document tag: source-level hazard
            return ("file", None, ">", ("w", self.ofile()))
        self.budget -= 1
        self.norun = True   # process substitutions run asynchronously: what they write is not ordered
        if rng.random() < 0.5:
            return ("file", None, "<", ("ps", "<", self.lst_sf(1)))
        return ("file", None, ">", ("ps", ">", [item1(("simple", [], "cat", [("r", ("file", None, ">>", ("w", self.ofile())))]))]))

    def redirs_comp(self):
        """redirect list of a compound command (fd numbers and digit targets included)"""
        if not self.chance(0.3):
            return []
        return self.redirs(0.6, 3) or [("file", 2, ">&", ("w", "1"))]

    def redirs(self, p=0.3, maxn=3):
        out = []
        while len(out) < maxn and self.chance(p):
            out.append(self.redir())
        return out

    def simple(self):
        rng = self.rng
        self.budget -= 1
        pre, suf = [], []
        if self.chance(0.15):
            for _ in range(rng.randint(1, 2)):
                pre.append(("a", rng.choice(["v=1", "x=c", "arr=(1 2)", "v+=q", "e="])))
        if self.chance(0.06):
            pre.append(("r", self.redir()))
        name = rng.choice(NAMES) if (not pre or self.chance(0.7)) else None
        if name is not None:
            for _ in range(rng.randint(0, 3)):
                suf.append(("w", self.word()))
            if self.chance(0.3):
                for r in self.redirs(0.6, 3):
                    suf.insert(rng.randint(0, len(suf)), ("r", r))
            if self.chance(0.05 * self.weird) and not self.hd_ok:
                self.budget -= 1
                self.norun = True
                suf.append(("ps", "<", self.lst_sf(1)))
                name = "cat"
            if name in ("echo", "p") and self.chance(0.03):
                name = "cat"
                suf = [("r", self.redir())] if self.chance(0.5) else [("r", ("hs", None, "in"))]
        return ("simple", pre, name, suf)

    def leaf_async(self):
        self.nfile += 1
        return ("simple", [], "p", [("w", "bg%d" % self.nfile), ("r", ("file", None, ">", ("w", "oa%d" % self.nfile)))])

    def cmd(self, depth):
        rng = self.rng
        if self.budget <= 0 or depth > 4 or self.chance(0.55):
            return self.simple()
        self.budget -= 1
        if self.chance(0.05):
            self.nfun += 1
            return ("fdef", "g%d" % self.nfun, self.compound(depth + 1, body=True), self.redirs_comp() if self.chance(0.3) else [])
        return ("comp", self.compound(depth + 1), self.redirs_comp())

    def pipeline(self, depth):
        rng = self.rng
        timed = rng.choice([1, 2]) if self.chance(0.05) else 0
        bang = self.chance(0.08)
        n = 1 if self.chance(0.8) else rng.randint(2, 3)
        seq = [self.cmd(depth) for _ in range(n)]
        for k in range(1, n):
            # a later stage that never reads its input makes the earlier one race against SIGPIPE:
            # simple stages use the draining helpers pc/nc; otherwise behaviour is not compared
            c = seq[k]
            if c[0] == "simple" and any(it[0] == "r" and (it[1][0] in ("hs", "hd") or (it[1][0] == "file" and it[1][2][0] == "<"))
                                        for it in c[1] + c[3]):
                self.norun = True      # its stdin is redirected away from the pipe: nobody drains the pipe
            if c[0] == "simple" and c[2] in ("p", "n", "echo", "true", "false", ":"):
                seq[k] = ("simple", c[1], "pc" if c[2] in ("p", "echo", "true", ":") else "nc", c[3])
            elif not (c[0] == "simple" and c[2] == "cat"):
                self.norun = True
        return (timed, bang, seq)

    def andor(self, depth):
        first = self.pipeline(depth)
        more = []
        while self.chance(0.15) and len(more) < 2:
            more.append((self.rng.choice(["&&", "||"]), self.pipeline(depth)))
        return (first, more)

    def lst(self, depth, maxn=3, allow_async=True):
        n = 1 if self.budget <= 0 else self.rng.randint(1, maxn)
        out = []
        for _ in range(n):
            if allow_async and self.async_ok and depth == 1 and self.chance(0.12):
                out.append(item1(self.leaf_async(), "&"))
            else:
                out.append((self.andor(depth), ";"))
        return out

    def lst_sf(self, depth):
        """a list whose first command is a simple command (`( (` / `( ((` at the start of a subshell
        is read as arithmetic by brush's tokenizer: recorded finding of C02, not a printing matter)"""
        l = self.lst(depth)
        if l[0][0][0][2][0][0] != "simple":
            l = [item1(("simple", [], "p", [("w", "s")]))] + l
        return l

    def failing(self):
        return item1(("simple", [], self.rng.choice(["false", "n"]), [("w", "c")]))

    def compound(self, depth, body=False):
        rng = self.rng
        kinds = ["brace", "brace", "sub", "for", "case", "if", "if", "while", "until", "arith", "afor", "test"]
        if body:
            kinds = ["brace"] * 30 + ["sub", "if", "for", "while", "case"]
        elif self.chance(0.02 * self.weird):
            kinds = ["coproc"]
        k = rng.choice(kinds)
        if k == "brace":
            return ("brace", self.lst(depth))
        if k == "sub":
            return ("sub", self.lst_sf(depth))
        if k == "for":
            vals = None if self.chance(0.1 * self.weird) else [self.word(False) for _ in range(rng.randint(0, 3))]
            return ("for", rng.choice(["i", "v"]), vals, self.lst(depth))
        if k == "afor":
            init = rng.choice(["i=0", "i=0", None]) if False else "i=0"
            return ("afor", init, rng.choice(["i<2", "i<1"]), rng.choice(["i++", "i+=1"]), self.lst(depth))
        if k == "case":
            items = []
            for _ in range(rng.randint(0, 3)):
                pats = [rng.choice(["a", "b*", "$x", "*", "[bc]", "?1"]) for _ in range(rng.randint(1, 2))]
                body_ = None if self.chance(0.2) else self.lst(depth, 2)
                items.append((pats, body_, rng.choice([";;", ";;", ";;", ";&", ";;&"])))
            return ("case", rng.choice(["$x", "b1", "a", "$1"]), items)
        if k == "if":
            elses = []
            while self.chance(0.3) and len(elses) < 2:
                elses.append((self.lst(depth, 2, False), self.lst(depth, 2)))
            if self.chance(0.4):
                elses.append((None, self.lst(depth, 2)))
            return ("if", self.lst(depth, 2, False), self.lst(depth), elses)
        if k == "while":
            cond = self.lst(depth, 1, False)
            return ("while", cond, self.lst(depth, 2) + [item1(("simple", [], "break", []))])
        if k == "until":
            cond = self.lst(depth, 1, False)
            return ("until", cond, self.lst(depth, 2) + [item1(("simple", [], "break", []))])
        if k == "arith":
            e = rng.choice(["1+2", "x=3", "y++", "0", "y > 1 && 2", "(1+2)*3"])
            return ("arith", "y>1" if (self.hd_ok and " " in e) else e)   # same tokenizer defect (blanks lost)
        if k == "test":
            return ("test", rng.choice([["a", "==", "b"], ["-n", "$x"], ["!", "-f", "o1"], ["$x", "=~", "^b"],
                                        ["-z", "$q", "&&", "a", "!=", "b"], ["(", "a", "<", "b", "||", "-d", ".", ")"],
                                        ["$y", "-lt", "3"]]))
        if k == "coproc":
            self.norun = True
            return ("coproc", rng.choice([None, "CP"]), ("comp", ("brace", self.lst(depth, 1, False)), []))
        raise AssertionError(k)

    def fdef(self):
        if self.chance(0.7):
            self.async_ok = True
            body = ("brace", self.lst(1))
            self.async_ok = False
            return ("fdef", "f", body, self.redirs_comp() if self.chance(0.2) else [])
        return ("fdef", "f", self.compound(1, body=True), self.redirs_comp() if self.chance(0.2) else [])


# ------------------------------------------------------------------------------------------------
# rendering to source text (not brush's layout: `;`-joined where possible, `function` keyword, `|` spaced)

class Src:
    def __init__(self, style, hdr=None):
        self.hdr = style % 2 if hdr is None else hdr      # 0 `name()`, 1 `function name`, 2 `function name()`
        self.out = []
        self.pending = []
        self.style = style

    def emit(self, s):
        self.out.append(s)

    def nl(self):
        self.out.append("\n")
        for (strip, delim, body) in self.pending:
            self.out.append(body)
            d = delim[1:-1] if delim.startswith("'") else delim
            self.out.append(d + "\n")
        self.pending = []

    def sep(self):
        """end of a list item"""
        if self.pending or self.style % 2 == 0:
            self.nl()
        else:
            self.emit(" ")

    def text(self):
        return "".join(self.out)


def r_redir(s, r):
    if r[0] == "file":
        _, fd, kind, tgt = r
        s.emit(("" if fd is None else str(fd)) + kind)
        if tgt[0] == "w":
            s.emit(tgt[1] if s.style % 3 else " " + tgt[1])
        else:
            s.emit(" " + tgt[1] + "( ")
            r_list(s, tgt[2], True)
            s.emit(" )")
    elif r[0] == "oe":
        s.emit("&>" + (">" if r[1] else "") + r[2])
    elif r[0] == "hs":
        s.emit(("" if r[1] is None else str(r[1])) + "<<<" + r[2])
    elif r[0] == "hd":
        _, fd, strip, delim, body = r
        s.emit(("" if fd is None else str(fd)) + "<<" + ("-" if strip else "") + delim)
        s.pending.append((strip, delim, body))


def r_item(s, it):
    if it[0] in ("w", "a"):
        s.emit(it[1])
    elif it[0] == "r":
        r_redir(s, it[1])
    else:
        s.emit(it[1] + "( ")
        r_list(s, it[2], True)
        s.emit(" )")


def r_cmd(s, c):
    if c[0] == "simple":
        parts = list(c[1]) + ([("w", c[2])] if c[2] is not None else []) + list(c[3])
        for i, it in enumerate(parts):
            if i:
                s.emit(" ")
            r_item(s, it)
    elif c[0] == "comp":
        r_compound(s, c[1])
        for r in c[2]:
            s.emit(" ")
            r_redir(s, r)
    else:
        s.emit([c[1] + "() ", "function " + c[1] + " ", "function " + c[1] + "() "][s.hdr])
        r_compound(s, c[2])
        for r in c[3]:
            s.emit(" ")
            r_redir(s, r)


def r_pipeline(s, p):
    timed, bang, seq = p
    if timed:
        s.emit("time " if timed == 1 else "time -p ")
    if bang:
        s.emit("! ")
    for i, c in enumerate(seq):
        if i:
            s.emit(" | ")
        r_cmd(s, c)


def r_andor(s, ao):
    r_pipeline(s, ao[0])
    for op, p in ao[1]:
        s.emit(" " + op + " ")
        r_pipeline(s, p)


def r_list(s, l, inline_last=False):
    for i, (ao, sep) in enumerate(l):
        r_andor(s, ao)
        last = i == len(l) - 1
        if sep == "&":
            s.emit(" &")
        elif not (last and inline_last and not s.pending):
            s.emit(";") if not s.pending else None
        if last and inline_last and not s.pending:
            return
        s.sep()


def r_compound(s, c):
    k = c[0]
    if k == "arith":
        s.emit("((" + c[1] + "))")
    elif k == "afor":
        s.emit("for ((" + (c[1] or "") + ";" + (c[2] or "") + ";" + (c[3] or "") + ")); do ")
        r_list(s, c[4])
        s.emit("done")
    elif k == "brace":
        s.emit("{ ")
        r_list(s, c[1])
        s.emit("}")
    elif k == "sub":
        s.emit("( ")
        r_list(s, c[1], True)
        s.emit(" )")
    elif k == "for":
        s.emit("for " + c[1])
        if c[2] is not None:
            s.emit(" in" + "".join(" " + w for w in c[2]))
        s.emit("; do ")
        r_list(s, c[3])
        s.emit("done")
    elif k == "case":
        s.emit("case " + c[1] + " in ")
        for pats, body, post in c[2]:
            s.emit(("(" if s.style % 2 else "") + " | ".join(pats) + ") ")
            if body is not None:
                r_list(s, body, True)
                if s.pending:
                    s.nl()
            s.emit(" " + post + " ")
        s.emit("esac")
    elif k == "if":
        s.emit("if ")
        r_list(s, c[1])
        s.emit("then ")
        r_list(s, c[2])
        for cond, body in c[3]:
            if cond is None:
                s.emit("else ")
            else:
                s.emit("elif ")
                r_list(s, cond)
                s.emit("then ")
            r_list(s, body)
        s.emit("fi")
    elif k in ("while", "until"):
        s.emit(k + " ")
        r_list(s, c[1])
        s.emit("do ")
        r_list(s, c[2])
        s.emit("done")
    elif k == "coproc":
        s.emit("coproc " + (c[1] + " " if c[1] else ""))
        r_cmd(s, c[2])
    elif k == "test":
        s.emit("[[ " + " ".join(c[1]) + " ]]")


def source(fdef, style=0, hdr=None):
    s = Src(style, hdr)
    s.emit(["f() ", "function f ", "function f() "][s.hdr])
    r_compound(s, fdef[2])
    for r in fdef[3]:
        s.emit(" ")
        r_redir(s, r)
    s.nl()
    return s.text()


# ------------------------------------------------------------------------------------------------
# wire form for the Lean driver (prefix notation, words as "=" + esc)

def W(w):
    return "=" + esc(w)


def O(w):
    return "-" if w is None else W(str(w))


def w_redirs(rs):
    out = [str(len(rs))]
    for r in rs:
        out += w_redir(r)
    return out


def w_redir(r):
    if r[0] == "file":
        tgt = r[3]
        return ["rf", O(r[1]), W(r[2])] + (["tw", W(tgt[1])] if tgt[0] == "w" else ["tp", tgt[1]] + w_list(tgt[2]))
    if r[0] == "oe":
        return ["ro", "1" if r[1] else "0", W(r[2])]
    if r[0] == "hs":
        return ["rs", O(r[1]), W(r[2])]
    body = r[4]
    if r[2]:   # `<<-`: the tokenizer removes leading tabs; the stored document has none
        body = "".join(l.lstrip("\t") + "\n" for l in body.split("\n")[:-1])
    return ["rh", O(r[1]), "1" if r[2] else "0", W(r[3]), W(body)]


def w_item(it):
    if it[0] == "w":
        return ["w", W(it[1])]
    if it[0] == "a":
        return ["a", W(it[1])]
    if it[0] == "r":
        return ["r"] + w_redir(it[1])
    return ["ps", it[1]] + w_list(it[2])


def w_items(its):
    out = [str(len(its))]
    for it in its:
        out += w_item(it)
    return out


def w_cmd(c):
    if c[0] == "simple":
        return ["S"] + w_items(c[1]) + [O(c[2])] + w_items(c[3])
    if c[0] == "comp":
        return ["C"] + w_compound(c[1]) + w_redirs(c[2])
    return ["D", W(c[1])] + w_compound(c[2]) + w_redirs(c[3])


def w_pipeline(p):
    out = ["P", str(p[0]), "1" if p[1] else "0", str(len(p[2]))]
    for c in p[2]:
        out += w_cmd(c)
    return out


def w_andor(ao):
    out = ["A", str(len(ao[1]))] + w_pipeline(ao[0])
    for op, p in ao[1]:
        out += [op] + w_pipeline(p)
    return out


def w_list(l):
    out = ["L", str(len(l))]
    for ao, sep in l:
        out += w_andor(ao) + [sep]
    return out


def w_compound(c):
    k = c[0]
    if k == "arith":
        return ["ca", W(c[1])]
    if k == "afor":
        return ["cf", O(c[1]), O(c[2]), O(c[3])] + w_list(c[4])
    if k == "brace":
        return ["cb"] + w_list(c[1])
    if k == "sub":
        return ["cs"] + w_list(c[1])
    if k == "for":
        return ["co", W(c[1])] + (["-"] if c[2] is None else [str(len(c[2]))] + [W(w) for w in c[2]]) + w_list(c[3])
    if k == "case":
        out = ["cc", W(c[1]), str(len(c[2]))]
        for pats, body, post in c[2]:
            out += [str(len(pats))] + [W(p) for p in pats] + (["-"] if body is None else w_list(body)) + [post]
        return out
    if k == "if":
        out = ["ci"] + w_list(c[1]) + w_list(c[2]) + [str(len(c[3]))]
        for cond, body in c[3]:
            out += (["-"] if cond is None else w_list(cond)) + w_list(body)
        return out
    if k == "while":
        return ["cw"] + w_list(c[1]) + w_list(c[2])
    if k == "until":
        return ["cu"] + w_list(c[1]) + w_list(c[2])
    if k == "coproc":
        return ["cp", O(c[1])] + w_cmd(c[2])
    if k == "test":
        return ["ct", str(len(c[1]))] + [W(w) for w in c[1]]
    raise AssertionError(k)


def wire(fdef):
    return " ".join(["D", W(fdef[1])] + w_compound(fdef[2]) + w_redirs(fdef[3]))


# ------------------------------------------------------------------------------------------------
# features (which known defect classes a tree touches) — mirrors the Lean guard

def features(fdef):
    """returns a set of feature names"""
    fs = set()

    def redirs_compound(rs, ind):
        # redirect list of a compound command / function body: written with no blank before or between
        if any(has_fd(r) for r in rs):
            fs.add("compound_redirect_fd")
        elif rs:
            fs.add("compound_redirect_plain")
        if any((r[0] == "file" and r[3][0] == "w" and r[3][1].isdigit()) or (r[0] in ("oe", "hs") and r[2].isdigit())
               for r in rs[:-1]):
            fs.add("compound_redirect_digits")
        for r in rs:
            redir(r, ind, True)

    def has_fd(r):
        return r[0] in ("file", "hs", "hd") and r[1] is not None

    def redir(r, ind, last_in_cmd):
        if r[0] == "hd":
            fs.add("heredoc")
            if ind > 0:
                fs.add("heredoc_indented")
        if r[0] == "file" and r[3][0] == "ps":
            fs.add("procsub_redirect")
            lst(r[3][2], ind)

    def word(w, ind):
        if "\n" in w:
            fs.add("multiline_word")
        if "\n" in w and ind > 0:
            fs.add("multiline_word_indented")
        if any(ch in w for ch in "\"'`\\(){};<>|&# \t\n"):
            fs.add("rich_word")

    def item(it, ind):
        if it[0] in ("w", "a"):
            word(it[1], ind)
        elif it[0] == "r":
            redir(it[1], ind, False)
        else:
            fs.add("procsub_word")
            lst(it[2], ind)

    def cmd(c, ind):
        if c[0] == "simple":
            for it in c[1] + c[3]:
                item(it, ind)
            if c[2] is not None:
                word(c[2], ind)
        elif c[0] == "comp":
            compound(c[1], ind)
            redirs_compound(c[2], ind)
        else:
            fs.add("nested_function")
            compound(c[2], ind)
            redirs_compound(c[3], ind)

    def lst(l, ind):
        for ao, sep in l:
            for p in [ao[0]] + [q for _, q in ao[1]]:
                if p[0]:
                    fs.add("time")
                if p[1]:
                    fs.add("bang")
                for k, c in enumerate(p[2]):
                    cmd(c, ind)
                    if k > 0 and c[0] == "simple":
                        its = c[1] + ([] if c[2] is not None else c[3])
                        if its and its[0][0] == "r" and its[0][1][0] == "oe":
                            fs.add("pipe_amp_redirect")

    def compound(c, ind):
        k = c[0]
        fs.add("k_" + k)
        if k in ("arith", "test"):
            return
        if k == "afor":
            lst(c[4], ind + 1)
        elif k == "brace":
            lst(c[1], ind + 1)
        elif k == "sub":
            lst(c[1], ind)
        elif k == "for":
            if c[2] is None:
                fs.add("for_without_in")
            else:
                for w in c[2]:
                    word(w, ind)
            lst(c[3], ind + 1)
        elif k == "case":
            for pats, body, post in c[2]:
                if body is not None:
                    lst(body, ind + 2)
        elif k == "if":
            lst(c[1], ind)
            lst(c[2], ind + 1)
            for cond, body in c[3]:
                if cond is not None:
                    lst(cond, ind)
                lst(body, ind + 1)
        elif k in ("while", "until"):
            lst(c[1], ind)
            lst(c[2], ind + 1)
        elif k == "coproc":
            cmd(c[2], ind)

    compound(fdef[2], 0)
    redirs_compound(fdef[3], 0)
    if fdef[2][0] != "brace":
        fs.add("body_not_brace")
    return fs
