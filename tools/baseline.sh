#!/bin/bash
# Runs the repository's baseline suite (guard OFF) and compares with /root/.vp/BASELINE.json's stable set.
# usage: tools/baseline.sh [repo-dir]   (default /repo)
R=${1:-/repo}
cd "$R" || exit 2
export CARGO_NET_OFFLINE=true
cargo nextest run --workspace --no-fail-fast --tool-config-file pb:/w/lib/nextest.toml --profile pb --test-threads 8 --offline >/tmp/baseline.$$.log 2>&1
J=$(find "$R/target/nextest/pb" -name junit.xml | head -1)
python3 - "$J" <<'PY'
import json, sys, xml.etree.ElementTree as ET
b = json.load(open('/root/.vp/BASELINE.json'))
stable = set(b['stable_pass'])
root = ET.parse(sys.argv[1]).getroot()
passed, failed = set(), set()
for tc in root.iter('testcase'):
    tid = (tc.get('classname') or '') + '::' + (tc.get('name') or '')
    if tc.find('failure') is not None or tc.find('error') is not None: failed.add(tid)
    elif tc.find('skipped') is None: passed.add(tid)
missing = sorted(stable - passed)
print("baseline: %d passed, %d failed; stable set %d; stable tests not passing: %d" % (len(passed), len(failed), len(stable), len(missing)))
for m in missing[:40]: print("  NOT PASSING:", m)
sys.exit(1 if missing else 0)
PY
rc=$?
rm -f /tmp/baseline.$$.log
exit $rc
