"""C12 — subshell isolation: nothing done in a subshell changes the parent shell."""
import itertools
import json
import os
import re
import shutil
import tempfile
import lib
from lib import esc, unesc

BIN = "c12"

# ------------------------------------------------------------------------------------------------
# mutator grammar (tokens shared with the Lean driver) and its rendering as shell text

VARS = ["v1", "v2"]
FUNCS = ["f1", "f2"]
SETO = ["noglob", "nounset", "notify"]
SHOPT = ["nullglob", "dotglob", "extglob"]
ALIASES = ["a1", "a2"]
SIGS = ["INT", "USR1", "TERM", "EXIT"]
DIRS = ["R", "R/a", "R/a/b", "R/c", "..", "a", "b", "c", "nx"]
CTXS = ["paren", "cmdsub", "backq", "pipe", "stages", "bg", "procsub", "coproc", "pl"]

DUMP_FN = r'''D() {
  declare -p v1 2>/dev/null || echo "unset v1"
  declare -p v2 2>/dev/null || echo "unset v2"
  declare -p r1 2>/dev/null || echo "unset r1"
  for f in f1 f2; do if declare -F $f >/dev/null; then $f; else echo "nofn $f"; fi; done
  for o in noglob nounset notify; do if [[ -o $o ]]; then echo "o $o on"; else echo "o $o off"; fi; done
  for o in nullglob dotglob extglob; do if shopt -q $o; then echo "s $o on"; else echo "s $o off"; fi; done
  alias a1 2>/dev/null || echo "noalias a1"
  alias a2 2>/dev/null || echo "noalias a2"
  trap -p INT; trap -p USR1; trap -p TERM; trap -p EXIT
  pwd
  umask
  ulimit -S -n
  echo "args $# $*"
  ls /proc/self/fd
}
'''


# `exec <external command>`: in a subshell it must stay there; only the parent's own `exec` replaces the shell
EXEC_FORMS = {"true": "exec /bin/true", "echo": "exec /bin/echo x", "false": "exec /bin/false",
              "nosuch": "exec nosuchcmd_c12", "arg0": "exec -a name /bin/true",
              "cmd": "command exec /bin/echo x", "blt": "builtin exec /bin/echo x"}


def render_mut(tok, root):
    p = tok.split(":")
    k = p[0]
    if k == "as":
        return "%s=%s" % (p[1], p[2])
    if k == "ex":
        return "export %s" % p[1]
    if k == "ro":
        return "readonly %s=%s" % (p[1], p[2])
    if k == "un":
        return "unset %s" % p[1]
    if k == "fn":
        return "%s() { echo fn %s %s; }" % (p[1], p[1], p[2])
    if k == "uf":
        return "unset -f %s" % p[1]
    if k == "so":
        return "set %so %s" % ("-" if p[2] == "1" else "+", p[1])
    if k == "sh":
        return "shopt -%s %s" % ("s" if p[2] == "1" else "u", p[1])
    if k == "al":
        return "alias %s=%s" % (p[1], ":" if p[2] == "colon" else p[2])
    if k == "ua":
        return "unalias %s" % p[1]
    if k == "tr":
        act = {"colon": ":", "true": "true", "ign": "''", "reset": "-"}[p[2]]
        return "trap %s %s" % (act, p[1])
    if k == "cd":
        d = p[1]
        if d.startswith("R"):
            d = root + d[1:]
        return "cd %s" % d
    if k == "um":
        return "umask %s" % p[1]
    if k == "ul":
        return "ulimit -S -n %s" % p[1]
    if k == "sa":
        return "set --" + "".join(" " + a for a in p[1].split(",") if a and a != "-")
    if k == "sf":
        return "shift"
    if k == "fd":
        return {"o": "exec %s>/dev/null", "i": "exec %s</dev/null", "c": "exec %s>&-"}[p[2]] % p[1]
    if k == "xi":
        return "exit %s" % p[1]
    if k == "br":
        return "break"
    if k == "co":
        return "continue"
    if k == "rt":
        return "return %s" % p[1]
    if k == "fa":
        return "false"
    if k == "tu":
        return "true"
    if k == "ec":
        return "echo %s" % p[1]
    if k == "xc":
        return EXEC_FORMS[p[1]]
    raise ValueError(tok)


SYNCS = ["all", "spec", "spec2"]
FRAMES = ["plain", "loop", "func", "errexit"]
BGW = ["bgw-%s-%s" % (sy, fr) for sy in SYNCS for fr in FRAMES if not (sy == "spec2" and fr == "loop")]
# what the context script must have recorded of `$?` if the parent's line / loop / function went on
ST_SHAPE = {"plain": r"\d+", "errexit": r"\d+", "loop": r"1:\d+,2:\d+", "func": r"in:\d+,after:0"}


def render_bgw(ctx, ms):
    """A background job `{ ms; D; } &` collected by every synchronisation the parent has, the parent
    being at top level, in a loop, in a function, or under `set -e`."""
    _, sync, frame = ctx.split("-")
    job = "{ %s; } >$SUBF &" % "; ".join(ms + ['D "$@"'])
    if sync == "spec2":
        job += " { exit 5; } &"
    wait = {"all": "wait", "spec": "wait %%" if frame == "loop" else "wait %1", "spec2": "wait %1 %2"}[sync]
    if frame == "plain":
        return "%s %s; echo $? >$STF\n" % (job, wait)
    if frame == "loop":
        return "for i in 1 2; do %s %s; echo $i:$? >>$STF; done\n" % (job, wait)
    if frame == "func":
        return 'W() { %s %s; echo in:$? >$STF; }; W "$@"; echo after:$? >>$STF; unset -f W\n' % (job, wait)
    if frame == "errexit":
        return "set -e; %s %s; echo $? >$STF; set +e\n" % (job, wait)
    raise ValueError(ctx)


def render_ctx(ctx, sub, root):
    if ctx.startswith("lay+"):
        _, wrapper, layout, base = ctx.split("+")
        return lay_wrap(lay_join(ctx_elements(base, sub, root), layout), wrapper)
    ms = [render_mut(t, root) for t in sub]
    if ctx.startswith("bgw-"):
        return render_bgw(ctx, ms)
    body = "; ".join(ms + ['D "$@"'])
    if ctx == "paren":
        s = "( %s ) >$SUBF" % body
    elif ctx == "cmdsub":
        s = "cv=$( %s )" % body
    elif ctx == "backq":
        s = "cv=` %s `" % body
    elif ctx == "pipe":
        s = "{ %s; } | cat >$SUBF" % body
    elif ctx == "stages":
        s = " | ".join(ms + ["true"])
    elif ctx == "bg":
        s = "{ %s; } >$SUBF & wait $!" % body
    elif ctx == "procsub":
        s = "cat <( %s ) >$SUBF" % body
    elif ctx == "coproc":
        s = "coproc { %s; }; wait" % "; ".join(ms + ['D "$@" >$SUBF'])
    elif ctx == "pl":
        # every mutator is a stage; the last one is the pipeline's last command (the parent's own under lastpipe)
        # (only `echo` writes anything; `{ exec N>…; } >f` would make brush keep f as the shell's stdout)
        last = ("{ %s; } >$SUBF" if sub[-1].startswith(("ec:", "xc:")) else "{ %s; }") % ms[-1] if ms else "true"
        s = " | ".join(ms[:-1] + [last])
    else:
        raise ValueError(ctx)
    # `$?` is recorded on the same command line: if anything but a status comes back from the
    # subshell (an exit request, an error) the rest of the line does not run and $STF stays absent
    return s + "; echo $? >$STF\n"


# ------------------------------------------------------------------------------------------------
# layouts: the same context written with other separators, inside every kind of compound command

LAY_BASES = ["bg", "bgw-spec-plain", "bgw-spec2-plain", "bgw-all-plain", "paren", "cmdsub", "pipe", "procsub", "stages"]
LAY_WRAPPERS = ["top", "brace", "func", "ifthen", "forbody", "whilebody", "caseitem", "eval"]
LAYOUTS = ["semi", "nl", "blank", "mixed", "ampnl"]


def base_ctx(c):
    return c.split("+")[-1] if c.startswith("lay+") else c


def ctx_elements(base, sub, root):
    """The context as list elements (text, runs-in-background); a harmless command goes first so that
    the background job is not the first element of its list."""
    ms = [render_mut(t, root) for t in sub]
    body = "; ".join(ms + ['D "$@"'])
    job = ("{ %s; } >$SUBF" % body, True)
    el = {
        "paren": [("( %s ) >$SUBF" % body, False)],
        "cmdsub": [("cv=$( %s )" % body, False)],
        "pipe": [("{ %s; } | cat >$SUBF" % body, False)],
        "procsub": [("cat <( %s ) >$SUBF" % body, False)],
        "stages": [(" | ".join(ms + ["true"]), False)],
        "bg": [job, ("wait", False)],
        "bgw-all-plain": [job, ("wait", False)],
        "bgw-spec-plain": [job, ("wait %1", False)],
        "bgw-spec2-plain": [job, ("{ exit 5; }", True), ("wait %1 %2", False)],
    }[base]
    return [(":", False)] + el + [("echo $? >$STF", False)]


def lay_join(elems, layout):
    out = []
    for i, (t, bg) in enumerate(elems):
        last = i == len(elems) - 1
        if layout == "semi":
            sep = " & " if bg else ("" if last else "; ")
        elif layout == "nl":
            sep = " &\n" if bg else "\n"
        elif layout == "blank":
            sep = " &\n\n# after the job\n" if bg else "\n\n  # a comment between two commands\n"
        elif layout == "mixed":
            sep = " & " if bg else ("\n" if i % 2 == 0 else ("" if last else "; "))
        elif layout == "ampnl":
            sep = " &\n" if bg else ("" if last else "; ")
        else:
            raise ValueError(layout)
        out.append(t + sep)
    return "".join(out).rstrip(" ")


def lay_wrap(text, wrapper):
    text = text.rstrip("\n")
    if wrapper == "top":
        return text + "\n"
    if wrapper == "brace":
        return "{\n%s\n}\n" % text
    if wrapper == "func":
        return 'WL() {\n%s\n}\nWL "$@"\nunset -f WL\n' % text
    if wrapper == "ifthen":
        return "if true; then\n%s\nfi\n" % text
    if wrapper == "forbody":
        return "for _l in 1; do\n%s\ndone\n" % text
    if wrapper == "whilebody":
        return "while :; do\n%s\nbreak\ndone\n" % text
    if wrapper == "caseitem":
        return "case x in\nx)\n%s\n;;\nesac\n" % text
    if wrapper == "eval":
        return "eval " + lib_sq(text) + "\n"
    raise ValueError(wrapper)


def lib_sq(s):
    return "'" + s.replace("'", "'\\''") + "'"


def render_setup(par, root):
    return "cv=\n_l=1\n" + DUMP_FN + "".join(render_mut(t, root) + "\n" for t in par)


POST = 'D "$@" >$PARF\n'


def vh_request(root, ctx, par, sub):
    return " ".join(esc(x) for x in (root, render_setup(par, root), render_ctx(ctx, sub, root), POST))


# ------------------------------------------------------------------------------------------------
# translator: struct Shell + impl Clone for Shell  ->  lean/BrushVerif/Gen/ShellFields.lean

def _balanced(text, start, open_ch="{", close_ch="}"):
    """text[start] == open_ch; returns index just past the matching close."""
    depth, i = 0, start
    while i < len(text):
        c = text[i]
        if c == open_ch:
            depth += 1
        elif c == close_ch:
            depth -= 1
            if depth == 0:
                return i + 1
        i += 1
    raise RuntimeError("unbalanced braces")


def _strip_comments(text):
    text = re.sub(r"/\*.*?\*/", "", text, flags=re.S)
    return re.sub(r"//[^\n]*", "", text)


def _split_top(body, sep=","):
    """split on separators that are not nested in (), [], {}, <>"""
    out, cur, depth = [], [], 0
    i = 0
    while i < len(body):
        c = body[i]
        if c in "([{":
            depth += 1
        elif c in ")]}":
            depth -= 1
        elif c == "<":
            depth += 1
        elif c == ">" and not (i > 0 and body[i - 1] in "-="):
            depth -= 1
        if c == sep and depth == 0:
            out.append("".join(cur))
            cur = []
        else:
            cur.append(c)
        i += 1
    if "".join(cur).strip():
        out.append("".join(cur))
    return out


def _lean_str(s):
    return '"' + s.replace("\\", "\\\\").replace('"', '\\"') + '"'


INTERIOR = ["Mutex", "RwLock", "RefCell", "Cell<", "Atomic", "Rc<", "Arc<"]


def parse_shell_clone(repo=None):
    repo = repo or lib.REPO
    path = os.path.join(repo, "brush-core", "src", "shell.rs")
    src = _strip_comments(open(path, encoding="utf-8").read())
    aliases = dict((m.group(1), " ".join(m.group(2).split()))
                   for m in re.finditer(r"\btype\s+(\w+)\s*(?:<[^=]*>)?\s*=\s*([^;]+);", src))
    m = re.search(r"pub struct Shell\b[^{]*\{", src)
    if not m:
        raise RuntimeError("pub struct Shell not found in " + path)
    body = src[m.end() - 1 + 1:_balanced(src, m.end() - 1) - 1]
    body = re.sub(r"#\[[^\]]*(?:\[[^\]]*\][^\]]*)*\]", "", body)      # attributes
    fields = []
    for part in _split_top(body):
        part = " ".join(part.split())
        if not part:
            continue
        fm = re.match(r"(?:pub(?:\([^)]*\))?\s+)?(\w+)\s*:\s*(.+)$", part)
        if not fm:
            raise RuntimeError("cannot parse struct Shell field: %r" % part)
        ty = fm.group(2)
        for a, t in aliases.items():     # expand local type aliases (KeyBindingsHelper = Arc<Mutex<…>>)
            ty = re.sub(r"\b%s\b" % re.escape(a), t, ty)
        fields.append((fm.group(1), ty))
    m = re.search(r"impl\s*<[^{]*>\s*Clone\s+for\s+Shell\b[^{]*\{|impl\s+Clone\s+for\s+Shell\b[^{]*\{", src)
    if not m:
        raise RuntimeError("impl Clone for Shell not found in " + path)
    impl = src[m.end() - 1:_balanced(src, m.end() - 1)]
    fm2 = re.search(r"fn\s+clone\s*\([^)]*\)\s*->\s*Self\s*\{", impl)
    if not fm2:
        raise RuntimeError("fn clone not found in impl Clone for Shell")
    impl = impl[fm2.end():]
    sm = re.search(r"\bSelf\s*\{", impl)
    if not sm:
        raise RuntimeError("`Self { … }` literal not found in impl Clone for Shell")
    lit = impl[sm.end():_balanced(impl, sm.end() - 1) - 1]
    inits = {}
    for part in _split_top(lit):
        part = " ".join(part.split())
        if not part:
            continue
        im = re.match(r"(\w+)\s*:\s*(.+)$", part)
        if im:
            inits[im.group(1)] = im.group(2)
        elif re.match(r"^\w+$", part):      # shorthand `field,`
            inits[part] = part
        elif part.startswith(".."):
            raise RuntimeError("struct update syntax in Shell::clone: cannot tell how fields are cloned")
        else:
            raise RuntimeError("cannot parse Shell::clone initialiser: %r" % part)
    rows = []
    for name, ty in fields:
        e = inits.get(name)
        if e is None:
            kind, e = "missing", ""
        elif re.fullmatch(r"self\s*\.\s*%s\s*\.\s*clone\s*\(\s*\)" % name, e):
            kind = "deep"
        elif re.fullmatch(r"self\s*\.\s*%s" % name, e):
            kind = "copy"
        elif "self" not in e:
            kind = "fresh"
        elif e.startswith("{") and re.search(r"self\s*\.\s*%s\s*\.\s*clone\s*\(\s*\)" % name, e):
            kind = "special"
        elif re.fullmatch(r"self\s*\.\s*%s\s*[-+]\s*\d+" % name, e):
            kind = "special"
        else:
            kind = "other"
        rows.append((name, ty, kind))
    extra = sorted(set(inits) - set(n for n, _ in fields))
    if extra:
        raise RuntimeError("Shell::clone initialises unknown fields: %s" % extra)
    return rows


def parse_comp_types(rows, repo=None):
    """First level below `Shell`: for every field whose type names a struct of brush-core, does the
    struct derive Clone, and which shared-ownership / interior-mutability markers do its fields mention."""
    repo = repo or lib.REPO
    srcdir = os.path.join(repo, "brush-core", "src")
    texts = {}
    for dp, dn, fn in os.walk(srcdir):
        for f in fn:
            if f.endswith(".rs"):
                texts[os.path.join(dp, f)] = _strip_comments(open(os.path.join(dp, f), encoding="utf-8").read())
    out = []
    for name, ty, kind in rows:
        # last path segment of the outermost non-generic type, or of the argument of Option<…>
        t = ty
        om = re.fullmatch(r"Option<(.+)>", t)
        if om:
            t = om.group(1)
        if "<" in t or "dyn " in t:
            continue
        seg = t.split("::")
        tn = seg[-1].strip()
        if not re.fullmatch(r"[A-Z]\w*", tn) or tn in ("PathBuf", "String", "SystemTime"):
            continue
        hint = seg[-2].strip() if len(seg) >= 2 else None
        cands = []
        for path, text in texts.items():
            for m in re.finditer(r"((?:#\[[^\n]*\]\s*)*)pub(?:\([^)]*\))?\s+struct\s+%s\b[^{;]*\{" % tn, text):
                cands.append((path, text, m))
        if hint:
            pref = [c for c in cands if os.path.splitext(os.path.basename(c[0]))[0] == hint]
            cands = pref or cands
        if len(cands) != 1:
            if tn in ("ErrorFormatter", "ParserImpl"):
                continue
            raise RuntimeError("struct %s (type of Shell.%s): %d definitions found" % (tn, name, len(cands)))
        path, text, m = cands[0]
        attrs = m.group(1)
        derives = bool(re.search(r"derive\([^)]*\bClone\b", attrs)) or \
            bool(re.search(r"impl[^{;]*\bClone\s+for\s+%s\b" % tn, text))
        body = text[m.end():_balanced(text, m.end() - 1) - 1]
        body = " ".join(re.sub(r"#\[[^\]]*(?:\[[^\]]*\][^\]]*)*\]", "", body).split())
        marks = [k for k in INTERIOR if re.search(r"(?<![A-Za-z_])" + re.escape(k), body)]
        out.append((name, tn, derives, ",".join(marks)))
    return out


def gen_shell_fields():
    rows = parse_shell_clone()
    comps = parse_comp_types(rows)
    lines = ["/-! GENERATED by tools/c12.py from brush-core/src/shell.rs (`pub struct Shell`, `impl Clone for Shell`)",
             "and the struct definitions of the field types — do not edit; regenerated on every run. -/",
             "namespace BrushVerif.Gen.ShellFields", "",
             "/-- (field, type text with local aliases expanded, how `Shell::clone` builds it):",
             "`deep` = `self.f.clone()`, `copy` = `self.f`, `fresh` = built without `self`,",
             "`special` = a block around `self.f.clone()` / `self.f + n`, `other`, `missing` -/",
             "def shellFields : List (String × String × String) := ["]
    lines += ["  (%s, %s, %s)%s" % (_lean_str(n), _lean_str(t), _lean_str(k), "," if i + 1 < len(rows) else "")
              for i, (n, t, k) in enumerate(rows)]
    lines += ["]", "",
              "/-- (field, struct name of its type, has a Clone impl, shared-ownership / interior-mutability",
              "markers mentioned by the struct's own fields, comma separated) -/",
              "def compTypes : List (String × String × Bool × String) := ["]
    lines += ["  (%s, %s, %s, %s)%s" % (_lean_str(f), _lean_str(t), "true" if d else "false", _lean_str(mk),
                                         "," if i + 1 < len(comps) else "")
              for i, (f, t, d, mk) in enumerate(comps)]
    lines += ["]", "", "end BrushVerif.Gen.ShellFields", ""]
    text = "\n".join(lines)
    gdir = os.path.join(lib.LEAN, "BrushVerif", "Gen")
    os.makedirs(gdir, exist_ok=True)
    path = os.path.join(gdir, "ShellFields.lean")
    if not os.path.exists(path) or open(path, encoding="utf-8").read() != text:
        with open(path, "w", encoding="utf-8") as f:
            f.write(text)


# ------------------------------------------------------------------------------------------------
# in-process correspondence: brush (harness c12) vs the Lean model, and the property on brush itself

DIRS = ["R", "R/c12a", "R/c12a/c12b", "R/c12c", "..", "c12a", "c12b", "c12c", "nx"]
COMP_OF_KEY = {"env": "env", "funcs": "funcs", "options": "options", "aliases": "aliases", "traps": "traps",
               "working_dir": "working_dir", "args": "args", "open_files": "open_files"}

ALPHABET = (
    ["as:v1:abc", "as:v1:q", "as:v2:n", "ex:v1", "ex:v2", "ro:r1:z", "un:v1", "un:v2",
     "fn:f1:A", "fn:f1:B", "fn:f2:C", "uf:f1", "uf:f2"]
    + ["so:%s:%d" % (o, b) for o in SETO for b in (1, 0)]
    + ["sh:%s:%d" % (o, b) for o in SHOPT + ["lastpipe"] for b in (1, 0)]
    + ["al:a1:true", "al:a1:colon", "al:a2:false", "ua:a1", "ua:a2"]
    + ["tr:INT:colon", "tr:USR1:true", "tr:TERM:ign", "tr:EXIT:true", "tr:INT:reset", "tr:TERM:reset", "tr:EXIT:reset"]
    + ["cd:" + d for d in DIRS]
    + ["um:077", "um:027", "um:022", "ul:512", "ul:256", "ul:1024"]
    + ["sa:x,y", "sa:z", "sa:-", "sf"]
    + ["fd:7:o", "fd:8:i", "fd:7:c", "fd:8:c", "fd:3:o"]
    + ["xi:3", "xi:0", "fa", "tu", "ec:hello"]
    + ["xc:" + k for k in EXEC_FORMS]
)
PRESETS = [
    [],
    ["as:v1:abc", "ex:v1", "ro:r1:z", "fn:f1:A", "so:noglob:1", "sh:nullglob:1", "sh:extglob:0", "al:a1:true",
     "tr:INT:colon", "tr:TERM:ign", "tr:EXIT:true", "cd:c12a", "um:027", "ul:512", "sa:x,y", "fd:7:o"],
    ["as:v2:n", "fn:f2:C", "so:nounset:1", "al:a2:false", "tr:USR1:true", "cd:R/c12a/c12b", "sa:z", "fd:8:i", "fd:3:o"],
    ["sh:lastpipe:1", "as:v1:abc", "fn:f1:A", "al:a1:true", "tr:INT:colon", "cd:c12a", "sa:x,y", "fd:7:o"],
]


def lastpipe_on(par):
    on = False
    for t in par:
        if t.startswith("sh:lastpipe:"):
            on = t.endswith(":1")
    return on


def own_filter(c, par, sub, changes, bc, mc):
    """`m1 | … | mk` with lastpipe on (or a single command): the last stage is the parent's own activity.
    Returns (changes that are not the parent's own, the mutators that ran in subshells)."""
    if c != "pl" or not sub or not (lastpipe_on(par) or len(sub) == 1):
        return changes, sub
    last, rest = sub[-1], sub[:-1]
    clean = mc.get("leak", "-") == "-"
    allowed = set(mc["diff"].split(",")) if (mc["diff"] != "-" and clean) else set()
    out = []
    for ch in changes:
        if ch.startswith("Shell."):
            key = re.split(r"[.\[]", ch[6:].lstrip("+-~"), 1)[0]
            if COMP_OF_KEY.get(key, key) in allowed:
                continue
        elif ch.startswith("process umask") and last.startswith("um:") and bc["w1"] == mc["w1"]:
            continue
        elif ch.startswith("process RLIMIT_NOFILE") and last.startswith("ul:") and bc["w1"] == mc["w1"]:
            continue
        out.append(ch)
    if clean and (bc["par"] != mc["par"] or bc["diff"] != mc["diff"]):
        out.append("the parent is not `parent before + the last stage's own effects` (a non-final stage leaked, "
                   "or the last stage's effects were lost)")
    return out, rest


CF_BODIES = [["xi:7"], ["xi:0"], ["br"], ["co"], ["rt:4"], ["rt:0"], ["fa"], ["tu"], ["as:v1:q"], ["cd:nx"], ["ec:hello"],
             ["um:027"], ["so:errexit:1", "fa"], ["so:errexit:1", "cd:nx", "as:v1:q"], ["as:v1:q", "xi:7"], ["ec:hello", "br"],
             ["cd:..", "rt:4"], ["fn:f1:B", "co"], ["al:a1:colon", "sa:z", "xi:3"], ["fa", "rt:2", "ec:hello"],
             ["xc:echo"], ["xc:true", "as:v1:q"], ["so:errexit:1", "xc:false", "as:v1:q"], ["xc:arg0", "xc:cmd", "br"]]
CF_MUTS = ["br", "co", "rt:4", "rt:0", "so:errexit:1", "xi:7"]
LAY_BODIES = [["as:v1:q", "cd:..", "fn:f1:B", "al:a1:colon", "tr:INT:reset", "tr:USR1:true", "sa:z", "so:noglob:0", "sh:dotglob:1", "fd:9:o"],
              ["ec:hello", "as:v2:n", "xi:3"], ["un:v1", "uf:f1", "ua:a1", "sf", "fd:7:c", "xc:echo"]]


def is_world(tok):
    return tok.startswith("um:") or tok.startswith("ul:")


def parse_resp(line):
    d = {}
    for f in line.split(" "):
        k, sep, v = f.partition("=")
        if sep:
            d[k] = v
    return d


def canon_brush(resp, ctxname):
    """Harness response -> comparable dict + list of parent changes (the property on brush)."""
    d = parse_resp(resp)
    if resp.strip() == "DIED":
        return None, ["the shell's own process ended or was replaced while it ran the context (it hangs up): "
                      "an `exec`/`exit` of a subshell reached the process"]
    if resp.strip() == "TIMEOUT":
        return None, ["the parent shell did not come back from the subshell context in time (it hangs)"]
    if "st" not in d:
        return None, ["harness: " + resp[:200]]
    out = {"st": d["st"], "sub": unesc(d.get("sub", "%")), "par": unesc(d.get("par", "%")),
           "cv": unesc(d.get("cv", "%"))}
    w0 = unesc(d["w0"]).split("/", 2)
    w1 = unesc(d["w1"]).split("/", 2)
    out["w0"] = "/".join(w0[:2])
    out["w1"] = "/".join(w1[:2])
    changes = []
    comps = set()
    dtext = unesc(d["diff"])
    if dtext != "-":
        for pth in dtext.split(","):
            if ctxname == "coproc":
                # the parent's own side of a coprocess: two pipe ends and the COPROC variables
                if pth in ("~env.entry_count",) or re.fullmatch(r"\+env\.scopes\[0\]\[1\]\.variables\.COPROC(_PID)?", pth) \
                        or re.fullmatch(r"\+open_files\.files\.\d+", pth):
                    continue
            if ctxname.startswith("bgw-") and ctxname.endswith("-loop") and \
                    (pth == "~env.entry_count" or re.fullmatch(r"[+~]env\.scopes\[0\]\[1\]\.variables\.i", pth)):
                continue        # the parent's own loop variable
            key = re.split(r"[.\[]", pth.lstrip("+-~"), 1)[0]
            comps.add(COMP_OF_KEY.get(key, key))
            changes.append("Shell." + pth)
    out["diff"] = ",".join(sorted(comps)) if comps else "-"
    if w0[:2] != w1[:2]:
        if w0[0] != w1[0]:
            changes.append("process umask %s -> %s" % (w0[0], w1[0]))
        if w0[1] != w1[1]:
            changes.append("process RLIMIT_NOFILE %s -> %s" % (w0[1], w1[1]))
    if len(w0) > 2 and len(w1) > 2 and w0[2] != w1[2]:
        changes.append("process working directory %s -> %s" % (w0[2], w1[2]))
        out["w1"] += "/cwd-changed"
    if d["st"] == "none":
        changes.append("the parent did not continue after the subshell")
    elif ctxname.startswith("bgw-") and not re.fullmatch(ST_SHAPE[ctxname.split("-")[2]], d["st"]):
        changes.append("the parent did not continue after the subshell: its %s did not go on after the background job "
                       "was collected (recorded `$?`: %s)" % ({"loop": "loop", "func": "function"}.get(ctxname.split("-")[2], "line"), d["st"]))
    if "err" in d:
        out["err"] = unesc(d["err"])
    return out, changes


def canon_model(resp, root):
    d = parse_resp(resp)
    if "st" not in d:
        return None
    order = ["env", "funcs", "options", "aliases", "traps", "working_dir", "args", "open_files"]
    df = d["diff"]
    if df != "-":
        df = ",".join(sorted(df.split(",")))
    return {"st": d["st"], "sub": unesc(d["sub"]).replace(root, "R"), "par": unesc(d["par"]).replace(root, "R"),
            "cv": unesc(d["cv"]).replace(root, "R"), "w0": d["w0"], "w1": d["w1"], "diff": df, "leak": d.get("leak", "-")}


def drv_request(root, ctxname, par, sub):
    return "C12 %s %s %s -- %s" % (ctxname, esc(root), " ".join(par), " ".join(sub))


def classify_world(changes, sub, ctxname=None):
    """Clause names for a property failure that consists only of recorded defect classes."""
    clauses = set()
    for c in changes:
        # (an Err of a pipeline stage used to abandon the parent's line — clause stage_error_aborts_parent,
        # repaired by a653878: "the parent did not continue" is now always a violation)
        if c.startswith("process umask") and any(t.startswith("um:") for t in sub):
            clauses.add("umask_process_wide")
        elif c.startswith("process RLIMIT_NOFILE") and any(t.startswith("ul:") for t in sub):
            clauses.add("ulimit_process_wide")
        else:
            return None
    return clauses


def gen_cases(ctx):
    cases = []
    cdir = os.path.join(lib.ROOT, "corpus", "C12")
    if os.path.isdir(cdir):
        for f in sorted(os.listdir(cdir)):
            if not f.endswith(".txt"):
                continue
            for l in open(os.path.join(cdir, f)):
                l = l.strip()
                if l and not l.startswith("//"):
                    t = l.split(" ")
                    k = t.index("--")
                    cases.append(("corpus", t[0], t[1:k], t[k + 1:]))
    # layouts: separators (`;`, newline, `&` then newline, blank lines, comments) x compound kinds x contexts
    k = 0
    for base in LAY_BASES:
        for wrapper in LAY_WRAPPERS:
            for layout in LAYOUTS:
                for bi, body in enumerate(LAY_BODIES):
                    k += 1
                    if ctx.quick and k % 3 != ctx.seed % 3 and not (layout == "nl" and bi == 0):
                        continue
                    cases.append(("lay", "lay+%s+%s+%s" % (wrapper, layout, base), PRESETS[(k // 7) % 2], body))
    # exhaustive-small: every context x every single mutator x every parent preset
    for c in CTXS:
        for pre in PRESETS:
            for m in ALPHABET:
                cases.append(("exh1", c, pre, [m]))
    # pipelines of 2-4 stages with the mutator in each position, lastpipe off and on
    for n in (2, 3, 4):
        for pos in range(n):
            for m in ALPHABET:
                for pre in (PRESETS[1], PRESETS[3]):
                    cases.append(("pl", "pl", pre, ["tu"] * pos + [m] + ["tu"] * (n - 1 - pos)))
    for a, b in itertools.product(ALPHABET[::3], repeat=2):
        cases.append(("pl2", "pl", PRESETS[3] if (len(a) + len(b)) % 2 else PRESETS[0], [a, b, "tu"][: 2 + (len(a) % 2)]))
    # background jobs ending through exit / break / continue / return / errexit, collected by `wait`, `wait %N`,
    # `wait %1 %2`, with the parent at top level, in a loop, in a function, under `set -e`
    for c in BGW:
        for body in CF_BODIES:
            for pre in (PRESETS[0], PRESETS[1]):
                cases.append(("bgw", c, pre, body))
    # pairs: (mutator, mutator) for one context each, rotating, rich preset
    pairs = list(itertools.product(ALPHABET, repeat=2))
    step = ctx.size(4, 1)
    for i, (a, b) in enumerate(pairs[::step]):
        cases.append(("exh2", CTXS[i % len(CTXS)], PRESETS[(i // len(CTXS)) % len(PRESETS)], [a, b]))
    rng = ctx.rng
    for _ in range(ctx.size(1500, 12000)):
        c = rng.choice(CTXS + BGW[::2] + BGW[1::2][:3])
        pre = [rng.choice(ALPHABET) for _ in range(rng.randint(0, 8))]
        pre = [t for t in pre if not t.startswith(("xi:", "ec:", "xc:"))]   # the parent neither leaves, prints, nor execs
        sub = [rng.choice(ALPHABET) for _ in range(rng.randint(1, 8))]
        if c.startswith("bgw-"):     # the job's body may also end through control flow
            sub = [rng.choice(CF_MUTS) if rng.random() < 0.3 else t for t in sub]
        cases.append(("rand", c, pre, sub))
    out = []
    for kind, c, par, sub in cases:
        if c == "pl" and sub and sub[-1].startswith(("xi:", "xc:")) and (lastpipe_on(par) or len(sub) == 1):
            sub = sub[:-1] + ["fa"]          # `exit` as the parent's own last stage would end the parent: not a subshell
        if c == "pl" and len(sub) >= 2 and sub[-1].startswith("fd:") and lastpipe_on(par):
            # brush: `exec` inside `… | { exec N>f; }` also keeps the stage's pipe as the shell's stdin for good
            # (exec persists the redirections it inherits, not only its own) — the parent's own doing, not a subshell's
            sub = sub[:-1] + ["tu"]
        if c in ("stages", "pl"):
            # builtin stages run as concurrent tasks: two writers of the same process-wide value race
            seen, keep = set(), []
            for t in sub:
                if is_world(t):
                    if t[:2] in seen:
                        continue
                    seen.add(t[:2])
                keep.append(t)
            sub = keep
        out.append((kind, c, par, sub))
    return out


def run_vh_resilient(lines, workers, env=None):
    """Like lib.run_vh_parallel, but a harness process that ends early (the shell under test replaced or
    killed its own process: a real execve reaching the parent) costs one case, reported as DIED; the
    rest of its share is run by a fresh process."""
    def share(part):
        outs = []
        while len(outs) < len(part):
            rc, out, err = lib.run_vh(BIN, part[len(outs):], env=env)
            good = []
            for o in out:
                if o.startswith(("st=", "TIMEOUT", "PANIC", "bad-request", "setup-error", "serde-error")):
                    good.append(o)
                else:
                    break
            outs.extend(good)
            if len(outs) < len(part):
                outs.append("DIED")         # the case after the last good answer
        return outs[:len(part)]
    parts = lib.chunked(lines, workers)
    res = lib.pmap(share, parts, workers=workers)
    return [o for r in res for o in r]


def run_inproc(ctx, root):
    cases = gen_cases(ctx)
    reqs = [vh_request(root, c, par, sub) for _, c, par, sub in cases]
    bouts = run_vh_resilient(reqs, workers=min(lib.NCPU, 8))
    # a context that did not come back in time: the machine may just be busy — ask again, with a long fixed limit
    late = [i for i, b in enumerate(bouts) if b.strip() == "TIMEOUT"]
    if late:
        ctx.notes.append("%d contexts timed out at first; retried with a 45 s limit" % len(late))
        retry = late[:48]
        ok2, outs2, _ = lib.run_vh_parallel(BIN, [reqs[i] for i in retry], workers=min(lib.NCPU, 8),
                                            env={"VH_C12_TIMEOUT": "45"})
        for i, o in zip(retry, outs2):
            bouts[i] = o
        if len(late) > len(retry):
            still = sum(1 for i in retry if bouts[i].strip() == "TIMEOUT")
            if still == 0:      # all of the sample came back: the rest were late for the same reason
                ok3, outs3, _ = lib.run_vh_parallel(BIN, [reqs[i] for i in late[len(retry):]], workers=min(lib.NCPU, 8),
                                                    env={"VH_C12_TIMEOUT": "45"})
                for i, o in zip(late[len(retry):], outs3):
                    bouts[i] = o
    mouts = lib.run_drv_parallel([drv_request(root, c, par, sub) for _, c, par, sub in cases], workers=4)
    nviol = 0
    for (kind, c, par, sub), b, m in zip(cases, bouts, mouts):
        ctx.count((c, tuple(par), tuple(sub)), nontrivial=True, bucket=kind)
        ctx.bucket("ctx_" + c)
        ctx.impl_validated += 1
        case = {"mode": "inproc", "ctx": c, "parent": par, "sub": sub}
        bc, changes = canon_brush(b, base_ctx(c))
        mc = canon_model(m, root)
        if mc is None:
            ctx.broken.append("driver rejected a generated case: %s -> %s" % (drv_request(root, c, par, sub)[:200], m))
            continue
        if bc is None:
            if nviol < 20:
                nviol += 1
                hang = any("hangs" in x or "hangs up" in x for x in changes)
                ctx.violation(("" if hang else "harness could not run the case: ") + "; ".join(changes), case,
                              kind="property" if hang else "correspondence")
            continue
        if c == "pl" and sub and sub[-1].startswith("fn:") and (lastpipe_on(par) or len(sub) == 1):
            # the parent redefining a function (even with the same body) changes its recorded source position
            for dct in (bc, mc):
                dct["diff"] = ",".join(sorted(set(dct["diff"].split(",")) - {"-"} | {"funcs"}))
        same = all(bc[k] == mc[k] for k in ("st", "sub", "par", "cv", "w0", "w1", "diff"))
        changes, sub_in_subshells = own_filter(c, par, sub, changes, bc, mc)
        cb = base_ctx(c)
        if cb.startswith("bgw-") and cb.endswith("-errexit") and mc["st"] == "none" and mc.get("leak", "-") == "-" \
                and bc["st"] == "none" and bc["diff"] == mc["diff"]:
            # the parent's own `set -e` acted on the status `wait %N` gave it (as in bash): it stops, errexit still on
            changes = [ch for ch in changes if not (ch.startswith("the parent did not continue") or
                                                    ch.startswith("Shell.~options.exit_on_nonzero"))]
        sub_all, sub = sub, sub_in_subshells      # classification looks only at what ran in subshells
        in_guard = not any(is_world(t) for t in sub)
        if same:
            if changes:
                cl = classify_world(changes, sub, c)
                if cl and not in_guard:
                    for clause in sorted(cl):
                        ctx.known_or_violation(clause, "parent state changed by a subshell: " + "; ".join(changes), case,
                                               {"brush": bc})
                elif nviol < 20:
                    nviol += 1
                    ctx.violation("parent state changed by a subshell: " + "; ".join(changes), case, {"brush": bc})
        else:
            if nviol < 20:
                nviol += 1
                bad = [k for k in ("st", "sub", "par", "cv", "w0", "w1", "diff") if bc[k] != mc[k]]
                what = "subshell model and brush disagree on " + ",".join(bad)
                cl = classify_world(changes, sub, c) if changes else None
                real = bool(changes) and not (cl and not in_guard)
                if real:
                    what = "parent state changed by a subshell: " + "; ".join(changes) + " (" + what + ")"
                ctx.violation(what, case, {"brush": {k: bc[k] for k in bad}, "model": {k: mc[k] for k in bad}},
                              kind="property" if real else "correspondence")
    k = len(cases) // 3
    ctx.sample({"ctx": cases[k][1], "parent": cases[k][2], "sub": cases[k][3], "brush": bouts[k][:300]})
    ctx.sample({"ctx": cases[-1][1], "parent": cases[-1][2], "sub": cases[-1][3], "brush": bouts[-1][:300]})


def make_root():
    base = tempfile.mkdtemp(prefix="c12-")
    root = os.path.join(base, "root")
    os.makedirs(os.path.join(root, "c12a", "c12b"))
    os.makedirs(os.path.join(root, "c12c"))
    return base, root


def run(ctx):
    ok, out = lib.cargo_build([BIN])
    if not ok:
        lib.log(out[-4000:])
        ctx.broken.append("harness c12 does not build against the current tree: " + lib._first_errors(out))
    ctx.proof_stage(gens=[gen_shell_fields])
    if not ok:
        return
    base, root = make_root()
    try:
        run_inproc(ctx, root)
        end_to_end(ctx, root)
    finally:
        shutil.rmtree(base, ignore_errors=True)
    ctx.cov["rule"] = ("in-process: every subshell context (%d) x every single mutator (%d) x %d parent presets, a slice of all "
                       "mutator pairs, seeded random sequences (parent 0-8, subshell 1-8 mutators); each case = serde snapshot "
                       "of the parent Shell before/after + process umask/RLIMIT_NOFILE/cwd + the subshell's own state dump, "
                       "compared with the Lean model; end-to-end: full textual dump of the parent before/after through the "
                       "brush binary (and bash), alone and with parent activity running concurrently"
                       % (len(CTXS), len(ALPHABET), len(PRESETS)))
    ctx.assumptions += ["the serde serialisation of Shell covers the state fields (jobs, builtins, key_bindings, parser_impl, "
                        "error_formatter are #[serde(skip)]; the textual dump covers what it can of these)",
                        "key_bindings (Arc<Mutex<…>>) is shared between parent and clones by design; `bind` in a subshell is not checked",
                        "file-system contents are not parent state"]


# ------------------------------------------------------------------------------------------------
# end to end: the brush binary (and bash as the oracle of the method), full textual dump of the parent

E2E_SETUP = r"""
e2ei=2; gs=scalar; export ge=exported; readonly gr=ro; declare -i gi=5; ga=(p q r); declare -A gh=([k]=v [k2]=v2)
F() { echo F; }; G() { local l=1; echo G; }
alias ll='ls -l' e2e=true
trap 'echo int' INT; trap '' TERM; trap ': usr1' USR1
set -o noglob; set -o nounset; shopt -s nullglob; shopt -u sourcepath
cd c12a; pushd ../c12c >/dev/null; umask 027; ulimit -S -n 900; ulimit -S -c 0
set -- one "two words" three
exec 7>/dev/null 8</dev/null
complete -W 'a b' e2ecmd
DUMP() {
  echo "== vars"; declare -p
  echo "== funcs"; declare -f
  echo "== seto"; set -o
  echo "== shopt"; shopt
  echo "== alias"; alias
  echo "== trap"; trap -p
  echo "== complete"; complete -p
  echo "== dirs"; pwd; dirs
  echo "== umask"; umask
  echo "== ulimit"; ulimit -a
  echo "== fds"; ls -l /proc/self/fd
  echo "== args"; echo "$#"; printf '<%s>' "$@"; echo
}
"""

E2E_MUTS = [
    "gs=changed", "gnew=1", "unset gs", "unset ge", "export gs", "export -n ge", "declare -r gnew2=x", "gi+=3", "ga[1]=Z",
    "unset 'ga[0]'", "ga+=(s t)", "gh[k]=other", "unset 'gh[k2]'", "declare -A nh=([a]=b)", "declare -g gg=1",
    "IFS=:", "PATH=/nonexistent", "HOME=/x", "OPTIND=5", "PS1=p", "read rv <<<hello", "printf -v pv hi", "let lv=5",
    "(( av = 7 ))", "getopts ab opt -a", "F() { echo other; }", "H() { :; }", "unset -f F", "unset -f G",
    "set +o noglob", "set -o noclobber", "set -e", "set -o pipefail", "set +u", "set -x 2>/dev/null", "set -f",
    "shopt -u nullglob", "shopt -s dotglob", "shopt -s extglob", "shopt -s lastpipe", "shopt -s sourcepath",
    "alias ll=changed", "alias na=new", "unalias e2e", "unalias -a",
    "trap - INT", "trap 'echo other' INT", "trap : EXIT", "trap 'echo t' TERM", "trap '' USR2", "trap : ERR",
    "cd /", "cd ..", "cd -", "pushd / >/dev/null", "popd >/dev/null", "dirs -c",
    "umask 077", "umask 000", "ulimit -S -n 300", "ulimit -S -c 100", "ulimit -S -s 4096",
    "set -- a b", "set --", "shift", "shift 2",
    "exec 7>&-", "exec 9>/dev/null", "exec 8<&-", "exec 6<&0", "exec 2>/dev/null", "exec >/dev/null", "exec </dev/null",
    "complete -r e2ecmd", "complete -W x newcmd", "hash -r", "enable -n test",
    "exit 3", "exit", "false", "return 2>/dev/null", "break 2>/dev/null", "echo out", "echo err >&2", ":",
    "continue 2>/dev/null", "return 4", "{ set -e; false; }",
    "exec /bin/true", "exec /bin/echo x", "exec nosuchcmd_c12", "command exec /bin/echo x",
]
E2E_WORLD = ("umask", "ulimit")
E2E_CTXS = {
    "paren": "( %s )",
    "cmdsub": ': "$( %s )"',
    "backq": ": ` %s `",
    "pipe": "{ %s; } | cat",
    "stage": "%s | cat",                 # only for a single mutator
    "stage_mid": "true | %s | cat",      # only for a single mutator
    "stage_last": "true | %s",           # only for a single mutator; the parent's own under lastpipe
    "bg": "{ %s; } & wait",
    "procsub": "cat <( %s )",
    "procsub_out": ": > >( %s ); sleep 0.2",
    "coproc": "coproc { %s; }; wait",
    "fn_paren": "W() { %s; }; ( W ); unset -f W",
    "paren_pipe": "( { %s; } | cat )",
    "cmdsub_paren": ': "$( ( %s ) )"',
    # a background job collected by a job-spec wait, the parent at top level / in a loop / in a function / under set -e
    # (e2ei is 2 and e2ef is unset before and after exactly when the loop / function ran to its end)
    "bg_spec": "{ %s; } & wait %%1",
    "bg_spec2": "{ %s; } & { exit 5; } & wait %%1 %%2",
    "bg_loop_spec": "for e2ei in 1 2; do { %s; } & wait %%%%; done",
    "bg_func_spec": 'W() { { %s; } & wait %%1; e2ef=done; }; e2ef=; W; [ "$e2ef" = done ] && unset e2ef; unset -f W',
    "bg_errexit_spec": "set -e; { %s; } & wait %%1; set +e",
}
E2E_NOBASH = ()
# `wait %N` returns the job's status and the parent's own `set -e` acts on it (bash and brush): in that context only
# jobs that end with status 0 leave the parent running
E2E_OWN_ERREXIT = ("bg_errexit_spec",)
E2E_CF_ZERO = ["exit 0", "break", "continue", "x=1; break 2", ":"]
E2E_CF = ["exit 3", "exit 0", "break", "continue", "return 4", "set -e; false", "false", "x=1; break 2", "exit"]
DROP_VARS = re.compile(r"^declare -[-\w]+ (_|PIPESTATUS|BASH_CMDS|BASH_COMMAND|LINENO|RANDOM|SRANDOM|SECONDS|EPOCHSECONDS|EPOCHREALTIME|"
                       r"BASHPID|BASH_LINENO|BASH_ARGC|BASH_ARGV|BASH_SOURCE|FUNCNAME|COPROC|COPROC_PID|BASH_SUBSHELL|PPID)\b")


E2E_FRAMES = {                 # where the parent is when it meets the subshell construct
    "top": "%s",
    "func": "WF() { %s; }; WF; unset -f WF",
    "brace": "{ %s; }",
    "loop": "for e2ei in 1 2; do %s; done",
    "eval": "eval %s",
    "sub": "( :; %s )",        # (not `( ( … ) )`: brush reads that as `(( … ))`, finding C02-5)
}
E2E_EXEC = ["exec /bin/true", "exec /bin/echo x", "exec /bin/false", "exec nosuchcmd_c12", "exec -a name /bin/true",
            "command exec /bin/echo x", "builtin exec /bin/echo x"]
E2E_EXEC_CTXS = ["stage", "stage_mid", "stage_last", "paren", "cmdsub", "backq", "pipe", "procsub", "bg", "bg_spec", "coproc",
                 "fn_paren"]


def e2e_script(tdir, ctxname, muts, conc=None):
    body = "; ".join(muts)
    setup = E2E_SETUP
    if ctxname.startswith("X/"):      # X/<frame>/<lp|nolp>/<context>
        _, frame, lp, base = ctxname.split("/")
        cmd = E2E_CTXS[base] % body
        if frame == "eval":
            cmd = "'" + cmd.replace("'", "'\\''") + "'"
        cmd = E2E_FRAMES[frame] % cmd
        if lp == "lp":
            setup += "shopt -s lastpipe\n"
    else:
        cmd = E2E_CTXS[ctxname] % body
    s = setup + 'DUMP "$@" >%s/before 2>&1\n' % tdir
    if conc is None:
        s += cmd + " >/dev/null 2>&1\n"
    elif conc == "solo":       # reference run: the parent's own activity only
        return E2E_SETUP + "\n".join(muts) + "\n" + 'DUMP "$@" >%s/after 2>&1\n' % tdir
    else:                      # the subshell runs in the background while the parent does `conc`
        s = E2E_SETUP + ("{ sleep 0.05; %s; } >/dev/null 2>&1 &\n" % body) + "\n".join(conc) + "\nwait\n"
        return s + 'DUMP "$@" >%s/after 2>&1\n' % tdir
    return s + 'DUMP "$@" >%s/after 2>&1\n' % tdir


def canon_dump(text, tdir):
    out = []
    sect = ""
    for l in text.replace(tdir, "T").split("\n"):
        l = re.sub(r"/tmp[\w]+\.sh", "/script.sh", l)     # the temporary script file's own name
        if l.startswith("== "):
            sect = l
        if sect == "== vars" and DROP_VARS.match(l):
            continue
        if sect == "== fds":
            m = re.search(r"(\d+) -> (.*)$", l)
            if not m:
                if l.startswith("total") or not l.strip():
                    continue
            else:
                tgt = re.sub(r"\[\d+\]", "[n]", m.group(2))
                if re.fullmatch(r"/proc/\d+/fd", tgt):
                    continue
                tgt = tgt.replace("T/before", "T/dump").replace("T/after", "T/dump")
                l = "%s -> %s" % (m.group(1), tgt)
        out.append(l)
    # hash-map iteration order (variables, traps, aliases) is not state: compare each section as a multiset
    res, cur = [], []
    for l in out:
        if l.startswith("== "):
            res += sorted(cur) + [l]
            cur = []
        else:
            cur.append(l)
    return res + sorted(cur)


# --- layouts and the context sweep (scripts built as text; @T@ stands for the scratch directory) ---------------

E2E_ELEMS = {     # a context as list elements: (template, runs in background)
    "bg": [("{ %s; }", True), ("wait", False)],
    "bg_spec": [("{ %s; }", True), ("wait %%1", False)],
    "bg2": [("{ %s; }", True), ("{ %s; }", True), ("wait", False)],
    "paren": [("( %s )", False)],
    "cmdsub": [(': "$( %s )"', False)],
    "pipe": [("{ %s; } | cat", False)],
    "procsub": [("cat <( %s )", False)],
}
E2E_LAY_WRAPPERS = {
    "top": "%s",
    "brace": "{\n%s\n}",
    "func": 'WL() {\n%s\n}\nWL "$@"\nunset -f WL',
    "ifthen": "if true; then\n%s\nfi",
    "elsebody": "if false; then :\nelse\n%s\nfi",
    "forbody": "for e2ei in 2; do\n%s\ndone",
    "whilebody": "while :; do\n%s\nbreak\ndone",
    "untilbody": "until false; do\n%s\nbreak\ndone",
    "caseitem": "case x in\nx)\n%s\n;;\nesac",
    "eval": None,
    "sub": "(\n%s\n)",
    "cmdsub": ': "$(\n%s\n)"',
}
DUMP_BEFORE = 'DUMP "$@" >@T@/before 2>&1'
DUMP_AFTER = 'DUMP "$@" >@T@/after 2>&1'


def e2e_lay_script(wrapper, layout, base, muts):
    body = "; ".join(muts)
    elems = [(":", False)] + [((t % body if "%s" in t else t.replace("%%", "%")) + " >/dev/null 2>&1", bg)
                              for t, bg in E2E_ELEMS[base]] + [(DUMP_AFTER, False)]
    text = lay_join(elems, layout).rstrip("\n")
    if wrapper == "func":       # the wrapper function itself is part of the parent before and after
        return E2E_SETUP + "WL() {\n%s\n}\n" % text + DUMP_BEFORE + '\nWL "$@"\n'
    w = E2E_LAY_WRAPPERS[wrapper]
    wrapped = ("eval " + lib_sq(text)) if wrapper == "eval" else (w % text)
    return E2E_SETUP + DUMP_BEFORE + "\n" + wrapped + "\n"


SW_WRAPPERS = {      # execution contexts for the parent itself: both dumps and the construct run inside
    "func": 'SW1() {\n%s\n}\nSW1 "$@"\nunset -f SW1',
    "func_local": 'SW1() {\nlocal gs=shadow ge gnew=loc\n%s\n}\nSW1 "$@"\nunset -f SW1',
    "func2": 'SW1() {\n%s\n}\nSW2() { SW1 "$@"; }\nSW2 "$@"\nunset -f SW1 SW2',
    "sub": "(\n%s\n)",
    "cmdsub": ': "$(\n%s\n)"',
    "eval": None,
    "brace_redir": "{\n%s\n} 3>/dev/null",
    "lastpipe_last": "shopt -s lastpipe\ntrue | {\n%s\n}",
    "while": "e2ew=1; while [ $e2ew = 1 ]; do e2ew=0\n%s\ndone",
    "for": "for e2ei in 2; do\n%s\ndone",
    "trap_exit": None,
    "source": None,
    "twice": None,
}
SW_OPTS = ["set -E", "set -T", "set +h", "set -C", "set +u", "set +f", "shopt -s extglob", "shopt -s dotglob",
           "shopt -s nocasematch", "shopt -s globstar", "shopt -s expand_aliases", "shopt -s lastpipe",
           "shopt -s inherit_errexit", "set -o pipefail", "set -e", "set -e; shopt -s inherit_errexit",
           "set -eo pipefail; shopt -s lastpipe", "set -m", "set -m; shopt -s lastpipe"]
SW_STATUS0 = ("cmdsub", "backq", "procsub", "bg", "pipe")     # contexts whose own status is 0 whatever the body does
NEST_OUTER = ["( :; %s )", ': "$( %s )"', "{ %s; } | cat", "{ %s; } & wait", "cat <( %s )", "coproc { :; %s; }; wait"]
NEST_INNER = ["( %s )", ': "$( %s )"', "{ %s; } | cat", "%s | cat", "{ %s; } & wait", "cat <( %s )"]


def e2e_sweep_script(wrapper, opt, cmd, second=None):
    """setup; [option]; wrapper( dump-before; construct; [construct again]; dump-after )"""
    inner = DUMP_BEFORE + "\n" + cmd + " >/dev/null 2>&1\n" + ((second + " >/dev/null 2>&1\n") if second else "") + DUMP_AFTER
    pre = E2E_SETUP + ((opt + "\n") if opt else "")
    if wrapper is None or wrapper == "twice":
        return pre + inner + "\n"
    if wrapper == "eval":
        return pre + "eval " + lib_sq(inner) + "\n"
    if wrapper == "trap_exit":
        return pre + "SWBODY=" + lib_sq(inner) + "\ntrap 'eval \"$SWBODY\"' EXIT\nexit 0\n"
    if wrapper == "source":
        return pre + "cat >@T@/src.sh <<'SWEOF'\n" + inner + "\nSWEOF\n. @T@/src.sh\n"
    return pre + (SW_WRAPPERS[wrapper] % inner) + "\n"


E2E_TIMEOUT = [30]


def e2e_run(which, root, script, tdir):
    return lib.run_shell(which, script, mode="file", cwd=root, timeout=E2E_TIMEOUT[0])


def e2e_one(job):
    root, which, ctxname, muts, mode = job
    tdir = tempfile.mkdtemp(prefix="c12e-")
    try:
        if mode in ("plain", "raw"):
            # raw: muts = (script text with @T@ for the scratch directory, the mutators it contains)
            script = muts[0].replace("@T@", tdir) if mode == "raw" else e2e_script(tdir, ctxname, muts)
            r = e2e_run(which, root, script, tdir)
            if r["timeout"]:
                return ("timeout", None, None)
            if not os.path.exists(os.path.join(tdir, "before")):
                return ("rejected", None, None)      # the script did not even start (syntax error): not about subshells
            try:
                b = canon_dump(open(os.path.join(tdir, "before"), errors="replace").read(), tdir)
                a = canon_dump(open(os.path.join(tdir, "after"), errors="replace").read(), tdir)
            except OSError:
                return ("nodump", None, None)
            return ("ok", b, a)
        if mode == "lp":
            # pipeline under lastpipe vs the last command alone: A = `s1 | … | sk`, B = `sk`
            stages = list(muts)
            pre = E2E_SETUP + "shopt -s lastpipe\n"
            post = 'DUMP "$@" >%s/after 2>&1\n' % tdir
            ra = e2e_run(which, root, pre + " | ".join(stages[:-1] + ["{ %s; } >/dev/null 2>&1" % stages[-1]]) + "\n" + post, tdir)
            if ra["timeout"]:
                return ("timeout", None, None)
            try:
                a = canon_dump(open(os.path.join(tdir, "after"), errors="replace").read(), tdir)
                os.unlink(os.path.join(tdir, "after"))
                e2e_run(which, root, pre + "{ %s; } >/dev/null 2>&1\n" % stages[-1] + post, tdir)
                b = canon_dump(open(os.path.join(tdir, "after"), errors="replace").read(), tdir)
            except OSError:
                return ("nodump", None, None)
            return ("ok", b, a)
        # concurrent: muts = (sub, parent)
        sub, par = muts
        r1 = e2e_run(which, root, e2e_script(tdir, "bg", sub, conc=par), tdir)
        if r1["timeout"]:
            return ("timeout", None, None)
        try:
            a = canon_dump(open(os.path.join(tdir, "after"), errors="replace").read(), tdir)
            os.unlink(os.path.join(tdir, "after"))
            r2 = e2e_run(which, root, e2e_script(tdir, "bg", par, conc="solo"), tdir)
            b = canon_dump(open(os.path.join(tdir, "after"), errors="replace").read(), tdir)
        except OSError:
            return ("nodump", None, None)
        return ("ok", b, a)
    finally:
        shutil.rmtree(tdir, ignore_errors=True)


def dump_delta(b, a):
    sb, sa = set(b), set(a)
    return sorted(("-" + l) for l in sb - sa)[:6] + sorted(("+" + l) for l in sa - sb)[:6]


def e2e_classify(delta, muts, ctxname=None, script=None):
    """clauses explaining a before/after difference, or None"""
    clauses = set()
    text = " ; ".join(muts)
    # `( (( … )) )` written out in the script: a subshell whose body starts with an arithmetic command
    pp = (ctxname or "").split("/")[-1] in ("paren", "cmdsub_paren") and muts and muts[0].startswith("((")
    if script is not None:
        pp = bool(re.search(r"\(\s+\(\( av = 7 \)\)", script))
    for l in delta:
        body = l[1:]
        if pp and re.match(r"declare -\S+ av=", body):
            # `( (( … )) )`: the two opening parentheses are taken for `((` and the body runs in the parent
            clauses.add("paren_paren_parsed_as_arith")
        elif re.fullmatch(r"0[0-7]{3}", body) and "umask" in text:
            clauses.add("umask_process_wide")
        elif re.search(r"\(.*-[a-zA-Z]\)|^(core file|open files|stack size|max |file size|pipe size|cpu time|virtual|data seg|"
                       r"scheduling|pending|POSIX|real-time|file locks)", body) and "ulimit" in text:
            clauses.add("ulimit_process_wide")
        else:
            return None
    return clauses


def end_to_end(ctx, root):
    rng = ctx.rng
    jobs = []
    # every mutator alone in the three most used contexts + as a pipeline stage of its own; rotating through the rest
    rest = [c for c in E2E_CTXS if c not in ("paren", "stage", "stage_mid", "stage_last") + E2E_OWN_ERREXIT]
    for i, m in enumerate(E2E_MUTS):
        jobs.append((root, "brush", "paren", [m], "plain"))
        jobs.append((root, "brush", "stage", [m], "plain"))
        jobs.append((root, "brush", rest[i % len(rest)], [m], "plain"))
        if not ctx.quick:
            for c in rest:
                jobs.append((root, "brush", c, [m], "plain"))
    # `exec <command>` in every subshell-like context, the parent at depth 0 or nested, lastpipe off and on:
    # the parent must reach the end of the script (under lastpipe the last stage is the parent itself: left out)
    k = 0
    for frame in E2E_FRAMES:
        for lp in ("nolp", "lp"):
            for base in E2E_EXEC_CTXS:
                if lp == "lp" and base == "stage_last":
                    continue
                for m in E2E_EXEC:
                    k += 1
                    if ctx.quick and k % 4 != ctx.seed % 4 and not (frame == "top" and m == "exec /bin/echo x"):
                        continue
                    jobs.append((root, "brush", "X/%s/%s/%s" % (frame, lp, base), [m], "plain"))
    # control flow in a background job x every job-spec synchronisation / frame
    for c in ("bg", "bg_spec", "bg_spec2", "bg_loop_spec", "bg_func_spec", "bg_errexit_spec"):
        for m in (E2E_CF_ZERO if c in E2E_OWN_ERREXIT else E2E_CF):
            jobs.append((root, "brush", c, [m], "plain"))
            jobs.append((root, "brush", c, ["gs=job", m, "gs=after"] if c not in E2E_OWN_ERREXIT else ["gs=job", m], "plain"))
    for _ in range(ctx.size(200, 2500)):
        c = rng.choice([k for k in E2E_CTXS if not k.startswith("stage") and k not in E2E_OWN_ERREXIT])
        ms = [rng.choice(E2E_MUTS) for _ in range(rng.randint(2, 7))]
        jobs.append((root, "brush", c, ms, "plain"))
    safe_par = [m for m in E2E_MUTS if not m.startswith(("exit", "exec >", "exec 2>", "exec <", "set -e", "{ set -e", "return", "break", "continue",
                                                          "exec /", "exec -a", "exec nosuch", "command exec", "builtin exec",
                                                          "set -x", "trap : ERR", "echo", "false", "PATH="))]
    for _ in range(ctx.size(60, 600)):
        sub = [rng.choice(E2E_MUTS) for _ in range(rng.randint(1, 5))]
        par = [rng.choice(safe_par) for _ in range(rng.randint(1, 4))]
        jobs.append((root, "brush", "bg", (sub, par), "conc"))
    # lastpipe: pipelines of 2-4 stages, a mutator in each position; the parent afterwards must be
    # "parent + the last command alone" (non-final stages isolated, last command's effects kept), as in bash
    lp_last = [m for m in safe_par if not m.startswith("exec")]
    k = 0
    for n in (2, 3, 4):
        for pos in range(n):
            for i, m in enumerate(E2E_MUTS):
                k += 1
                if ctx.quick and k % 3 != ctx.seed % 3:
                    continue
                if pos == n - 1:
                    if m not in lp_last:
                        continue
                    st = [":"] * (n - 1) + [m]
                else:
                    st = [":"] * pos + [m] + [":"] * (n - 2 - pos) + [lp_last[(i + pos) % len(lp_last)]]
                jobs.append((root, "brush", "lastpipe", st, "lp"))
    for _ in range(ctx.size(60, 600)):
        n = rng.randint(2, 4)
        st = [rng.choice(E2E_MUTS) for _ in range(n - 1)] + [rng.choice(lp_last)]
        jobs.append((root, "brush", "lastpipe", st, "lp"))
    # layouts: separators and compound kinds (the background job never first in its list)
    rich = ["gs=changed", "cd /", "F() { echo other; }", "set +o noglob", "alias na=new", "trap - INT", "set -- a b", "exec 9>/dev/null"]
    k = 0
    for base in E2E_ELEMS:
        for wrapper in E2E_LAY_WRAPPERS:
            for layout in LAYOUTS:
                k += 1
                if ctx.quick and k % 4 != ctx.seed % 4 and not (layout == "nl" and base == "bg"):
                    continue
                body = rich if k % 2 else [rng.choice(E2E_MUTS) for _ in range(3)]
                jobs.append((root, "brush", "lay/%s/%s/%s" % (wrapper, layout, base),
                             (e2e_lay_script(wrapper, layout, base, body), body), "raw"))
    # context sweep: a sample of the plain cases re-run with the parent itself inside another execution context,
    # under options that must not matter, nested two deep, and a second time in the same shell
    plain = [j for j in jobs if j[4] == "plain" and not j[2].startswith(("X/", "stage")) and j[2] in E2E_CTXS
             and j[2] not in E2E_OWN_ERREXIT]
    sample = [plain[i] for i in sorted(rng.sample(range(len(plain)), min(len(plain), ctx.size(10, 120))))]
    for (_, _, c, ms, _) in sample:
        cmd = E2E_CTXS[c] % "; ".join(ms)
        for w in SW_WRAPPERS:
            if w == "twice" and (c.startswith(("bg_", "coproc")) or "%" in cmd):
                continue
            if ctx.quick and rng.random() < 0.3:
                continue
            jobs.append((root, "brush", "sw/%s/%s" % (w, c),
                         (e2e_sweep_script(w, None, cmd, second=cmd if w == "twice" else None), ms), "raw"))
    for opt in SW_OPTS:
        pool = [j for j in plain if "set -e" not in opt or
                (j[2] in SW_STATUS0 and not (j[2] == "pipe" and "pipefail" in opt))]
        for (_, _, c, ms, _) in [pool[i] for i in sorted(rng.sample(range(len(pool)), min(len(pool), ctx.size(4, 40))))]:
            if "set -e" in opt and any(m.startswith(("exec 2>", "exec >", "exec <")) for m in ms):
                pass
            jobs.append((root, "brush", "opt/%s/%s" % (opt.replace(" ", "_").replace(";", ""), c),
                         (e2e_sweep_script(None, opt, E2E_CTXS[c] % "; ".join(ms)), ms), "raw"))
    for oi, o in enumerate(NEST_OUTER):
        for ii, i_ in enumerate(NEST_INNER):
            for rep in range(ctx.size(2, 8)):
                ms = rich if rep == 0 else [rng.choice(E2E_MUTS) for _ in range(rng.randint(1, 3))]
                if "%s | cat" == i_:
                    ms = ms[:1]
                jobs.append((root, "brush", "nest/%d/%d" % (oi, ii),
                             (e2e_sweep_script(None, None, o % (i_ % "; ".join(ms))), ms), "raw"))
    # the oracle of the method: bash must show no difference on the same scripts (sample)
    njobs = len(jobs)
    ojobs = [(r, "bash", c, m, md) for (r, _, c, m, md) in jobs[::ctx.size(4, 6)] if c not in E2E_NOBASH]
    res = lib.pmap(e2e_one, jobs + ojobs, workers=8)
    late = [i for i, r in enumerate(res) if r[0] == "timeout"]
    if late:        # a busy machine, or a real hang: ask again with a long limit, a few at a time
        ctx.notes.append("%d end-to-end scripts timed out at first; retried with a 150 s limit" % len(late))
        E2E_TIMEOUT[0] = 150
        try:
            for i, r in zip(late[:24], lib.pmap(e2e_one, [(jobs + ojobs)[i] for i in late[:24]], workers=4)):
                res[i] = r
        finally:
            E2E_TIMEOUT[0] = 30
    nviol = 0
    for job, (st, b, a) in zip(jobs + ojobs, res):
        _, which, c, muts, mode = job
        flat = list(muts[0]) if mode == "conc" else (list(muts[:-1]) if mode == "lp" else list(muts[1]) if mode == "raw" else list(muts))
        case = {"mode": "e2e-" + mode, "ctx": c,
                "muts": {"sub": muts[0], "parent": muts[1]} if mode == "conc" else
                        {"script": muts[0], "muts": list(muts[1])} if mode == "raw" else list(muts)}
        if which == "bash":
            if st == "ok":
                # bash keeps the descriptor of a process substitution open until the enclosing eval / sourced file ends
                a = [l for l in a if not (re.fullmatch(r"6[0-3] -> pipe:\[n\]", l) and l not in b)]
            if st != "ok" or b != a:
                ctx.oracle_mismatch += 1
                ctx.notes.append("bash shows a before/after difference (dump method): %s %s %s" %
                                 (dump_delta(b or [], a or [])[:4], c, str(case.get("muts"))[-300:]))
            continue
        ctx.count(("e2e", c, repr(muts), mode), bucket="e2e_" + mode)
        ctx.bucket("e2e_ctx_" + c)
        ctx.impl_validated += 1
        if st == "rejected":
            ctx.bucket("e2e_script_rejected_by_brush_parser")
            if len(ctx.notes) < 5:
                ctx.notes.append("brush rejects the script (syntax error), case skipped: %s" % (case,))
            continue
        if st != "ok":
            # the parent never reached its second dump: it left, hung or was aborted
            if nviol < 10:
                nviol += 1
                ctx.violation("the parent shell did not reach the end of the script after a subshell (%s)" % st, case)
            continue
        if c == "coproc" or c.endswith("/coproc") or (mode == "raw" and "coproc" in muts[0].replace(E2E_SETUP, "")):
            # the parent's own ends of the coprocess pipes (brush keeps them after the coprocess has ended)
            a = [l for l in a if not (re.fullmatch(r"\d+ -> pipe:\[n\]", l) and l not in b)]
        if b != a:
            delta = dump_delta(b, a)
            cl = e2e_classify(delta, flat, c, script=muts[0].replace(E2E_SETUP, "") if mode == "raw" else None)
            what = ("parent state differs after a subshell" if mode in ("plain", "raw") else
                    "under lastpipe the parent after `s1 | … | sk` differs from the parent after `sk` alone "
                    "(a non-final stage leaked, or the last command's effects were lost)" if mode == "lp" else
                    "parent state after concurrent background activity differs from the parent's own activity alone")
            if cl:
                for clause in sorted(cl):
                    ctx.known_or_violation(clause, what + ": " + "; ".join(delta), case)
            elif nviol < 10:
                nviol += 1
                ctx.violation(what + ": " + "; ".join(delta), case)
    if jobs:
        ctx.sample({"e2e": {"ctx": jobs[5][2], "muts": jobs[5][3]}, "result": res[5][0]})


def replay(ctx, rp):
    ok, out = lib.cargo_build([BIN])
    case = rp["case"]
    if not case:
        print(json.dumps(rp, indent=1))
        return 1
    base, root = make_root()
    try:
        if case.get("mode") == "inproc":
            c, par, sub = case["ctx"], case["parent"], case["sub"]
            print("parent setup:\n  " + "\n  ".join(render_mut(t, root) for t in par))
            print("context:\n  " + render_ctx(c, sub, root).strip())
            _, b, err = lib.run_vh(BIN, [vh_request(root, c, par, sub)])
            m = lib.run_drv([drv_request(root, c, par, sub)])
            bc, changes = canon_brush(b[0] if b and b[0].startswith(("st=", "TIMEOUT")) else "DIED", c)
            mc = canon_model(m[0], root)
            if bc is not None and mc is not None:
                changes, _ = own_filter(c, par, sub, changes, bc, mc)
            print("brush: ", json.dumps(bc, indent=1))
            print("model: ", json.dumps(mc, indent=1))
            print("parent changes observed on brush:", changes or "none")
            differs = bc is None or mc is None or any(bc[k] != mc[k] for k in ("st", "sub", "par", "cv", "w0", "w1", "diff"))
            print("brush == model:", not differs)
            return 1 if (changes or differs) else 0
        mode = {"e2e-plain": "plain", "e2e-lp": "lp", "e2e-raw": "raw"}.get(case.get("mode"), "conc")
        muts = case["muts"] if mode in ("plain", "lp") else (case["muts"]["script"], case["muts"]["muts"]) if mode == "raw" \
            else (case["muts"]["sub"], case["muts"]["parent"])
        rc = 0
        for which in ("brush", "bash"):
            tdir = "/tmp/T"
            print("---- script (%s):" % which)
            if mode == "plain":
                print(e2e_script("$T", case["ctx"], muts))
            elif mode == "raw":
                print(muts[0].replace("@T@", "$T").replace(E2E_SETUP, "<setup>\n"))
            elif mode == "lp":
                print("<setup>; shopt -s lastpipe\nA: %s\nB: %s\n(dump after A must equal dump after B)"
                      % (" | ".join(muts[:-1] + ["{ %s; }" % muts[-1]]), "{ %s; }" % muts[-1]))
            else:
                print(e2e_script("$T", "bg", muts[0], conc=muts[1]))
            st, b, a = e2e_one((root, which, case["ctx"], muts, mode))
            delta = dump_delta(b or [], a or [])
            print("%s: %s; dump before/after %s %s" % (which, st, "equal" if b == a else "DIFFER", delta))
            if which == "brush" and (st != "ok" or b != a):
                rc = 1
        return rc
    finally:
        shutil.rmtree(base, ignore_errors=True)
