#!/bin/bash
# tools/seedrun.sh <seed-id> <property> [more properties...] : fresh worktree of /repo HEAD + the stored patch, run the check(s),
# confirm the demo (passes unmodified, fails modified), clean everything up.  Prints one summary line per check.
id=$1; shift
wt=/tmp/sd-$id
git -C /repo worktree remove --force $wt 2>/dev/null
git -C /repo worktree add -q $wt HEAD || exit 2
( cd $wt && git apply --3way /verif/seeded/$id/patch.diff ) >/dev/null 2>&1 || { echo "$id: patch does not apply to HEAD"; git -C /repo worktree remove --force $wt; exit 3; }
cd /verif
for p in "$@"; do
  out=$(VERIF_REPO=$wt ./check $p 2>&1 | grep -v "^KNOWN")
  nv=$(echo "$out" | grep -c "^VIOLATION")
  echo "$id vs $p: $nv VIOLATION lines; $(echo "$out" | tail -1)"
  echo "$out" | grep "^VIOLATION" | head -2
done
tools/seedverify.sh $id $wt $1
tools/mutclean $wt; git -C /repo worktree remove --force $wt
