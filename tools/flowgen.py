"""Typed generator + renderer for control-flow programs (shared by C02, C03, C16, C18).

A command is a nested tuple:
  ("L", id, codes)  leaf: prints m<id>, k-th execution returns codes[min(k, len-1)]
  ("P",)            probe: prints ?<$?>
  ("S", [c...])     list `c; c; ...`
  ("A", first, [(isAnd, c)...])   and-or list
  ("N", c)          `! c`
  ("I", cond, thn)  ("J", cond, thn, els)
  ("W", cond, body) ("U", cond, body)
  ("F", n, body)    for i in 1..n      ("G", n, body)  for ((i=0;i<n;i++))
  ("C", [(matches, body, term)...])    term in x (;;)  f (;&)  c (;;&)
  ("Gr", c) ("Su", c)
  ("K", f)          call function f<f>
  ("B", n|None) ("Co", n|None) ("R", code|None) ("X", code|None)
  ("O", opt, on)    set -e / +e ...  (C03)
  ("Cs", c)         x=$(c) ; output discarded into a variable, status kept (C03)
  ("Ev", c)         eval '<c rendered>'
A program is (funcs, main): funcs[i] is the body of function f<i>; f<i> may only call f<j>, j>i.
"""

PRELUDE3 = r'''exec 3>&1
readonly RO=0
Q() { return $1; }
L() { local id=$1; shift; eval "local k=\${K$id:-0}"; eval "K$id=\$((k+1))"; echo "m$id" >&3; local n=$#; if ((k >= n)); then k=$((n-1)); fi; shift $k; return $1; }
'''
PRELUDE = r'''L() { local id=$1; shift; eval "local k=\${K$id:-0}"; eval "K$id=\$((k+1))"; echo "m$id"; local n=$#; if ((k >= n)); then k=$((n-1)); fi; shift $k; return $1; }
'''

LIST_LEVEL = ("S", "A", "N")


def is_cmd_level(c):
    return c[0] not in LIST_LEVEL


def r_list(c, ind):
    """render c where a list is expected; returns text without trailing newline/semicolon"""
    if c[0] == "S":
        if not c[1]:
            return ":"  # cannot render an empty list; generator never produces one
        parts = [r_andor(x, ind) for x in c[1]]
        out = parts[0]
        for x in parts[1:]:
            out += sep(ind) + x
        return out
    return r_andor(c, ind)


def r_andor(c, ind):
    if c[0] == "A":
        s = r_pipe(c[1], ind)
        for is_and, x in c[2]:
            s += (" && " if is_and else " || ") + r_pipe(x, ind)
        return s
    if c[0] == "S":
        return "{ " + r_list(c, ind) + "; }"
    return r_pipe(c, ind)


def r_pipe(c, ind):
    if c[0] == "N":
        inner = c[1]
        if inner[0] in LIST_LEVEL:
            return "! { " + r_list(inner, ind) + "; }"
        return "! " + r_cmd(inner, ind)
    if c[0] in ("S", "A"):
        return "{ " + r_list(c, ind) + "; }"
    return r_cmd(c, ind)


def opt(n):
    return "" if n is None else " %d" % n


NEUTRAL_MODES = ["set -u", "set -E", "set -T", "set -f", "set -C", "set -h", "set +h", "set +B", "set -o physical",
                 "shopt -s extglob", "shopt -s nullglob", "shopt -s nocasematch", "shopt -s expand_aliases", "shopt -s globstar",
                 "shopt -u sourcepath", "set -a", "set -o vi", "set -o emacs", "shopt -s checkwinsize"]
# `set -o posix` is NOT neutral: a `return` outside a function is then a fatal special-builtin error in bash (exit 2)
COMPOUND_KINDS = ("I", "J", "W", "U", "F", "G", "C", "Gr", "Su", "K")


def r_cmd(c, ind):
    """render one command; with `ind["deco"]` (a random.Random) a compound command or function call sometimes
    gets a redirect that changes nothing observable (the trace goes to stdout / fd 3): the same program through
    the code path "compound command with a redirect list" """
    s = _r_cmd0(c, ind)
    d = ind.get("deco")
    if d is not None and c[0] in COMPOUND_KINDS and d.random() < 0.22:
        s += d.choice([" 2>/dev/null", " 2>/dev/null", " </dev/null", " 2>&2", " 4>/dev/null"])
    return s


def sep(ind):
    d = ind.get("deco")
    if d is not None and ind.get("deco_nl") and d.random() < 0.2:
        return "\n"
    return "; "


def _r_cmd0(c, ind):
    k = c[0]
    if k == "L":
        return "L %d %s" % (c[1], " ".join(map(str, c[2])))
    if k == "P":
        return 'echo "?$?" >&3' if ind.get("fd3") else 'echo "?$?"'
    if k == "I":
        return "if %s; then %s; fi" % (r_list(c[1], ind), r_list(c[2], ind))
    if k == "J":
        els = c[3]
        if els[0] in ("I", "J") and ind.get("elif", True):
            # render the nested if as an elif chain
            inner = _r_cmd0(els, ind)
            assert inner.startswith("if ") and inner.endswith("fi")
            return "if %s; then %s; el%s" % (r_list(c[1], ind), r_list(c[2], ind), inner)
        return "if %s; then %s; else %s; fi" % (r_list(c[1], ind), r_list(c[2], ind), r_list(els, ind))
    if k == "W":
        return "while %s; do %s; done" % (r_list(c[1], ind), r_list(c[2], ind))
    if k == "U":
        return "until %s; do %s; done" % (r_list(c[1], ind), r_list(c[2], ind))
    if k == "F":
        return "for i in %s; do %s; done" % (" ".join(str(i + 1) for i in range(c[1])), r_list(c[2], ind))
    if k == "G":
        v = "i%d" % ind.setdefault("gvar", 0)
        ind["gvar"] += 1
        return "for ((%s=0; %s<%d; %s++)); do %s; done" % (v, v, c[1], v, r_list(c[2], ind))
    if k == "C":
        arms = []
        for m, body, t in c[1]:
            term = {"x": ";;", "f": ";&", "c": ";;&"}[t]
            # inside $( ) an unparenthesised pattern confuses brush's tokenizer (recorded finding): use (pat)
            arms.append("%s%s) %s %s" % ("(" if ind.get("in_cs") else "", "x" if m else "y", r_list(body, ind), term))
        return "case x in %s esac" % " ".join(arms)
    if k == "Gr":
        return "{ %s; }" % r_list(c[1], ind)
    if k == "Su":
        body = r_list(c[1], ind)
        return "( %s )" % body
    if k == "K":
        return "f%d" % c[1]
    if k == "B":
        return "break" + opt(c[1])
    if k == "Co":
        return "continue" + opt(c[1])
    if k == "R":
        return "return" + opt(c[1])
    if k == "X":
        return "exit" + opt(c[1])
    if k == "O":
        if c[1] == "e":
            return "set %se" % ("-" if c[2] else "+")
        if c[1] == "p":
            return "set %so pipefail" % ("-" if c[2] else "+")
        if c[1] == "i":
            return "shopt -%s inherit_errexit" % ("s" if c[2] else "u")
        if c[1] == "l":
            return "shopt -%s lastpipe" % ("s" if c[2] else "u")
        raise ValueError(c[1])
    if k == "Fx":
        # a fatal expansion error: the shell (or the subshell it happens in) is abandoned with status 1 — the
        # models see `exit 1` (that brush and bash treat it so is what the comparison checks)
        return {"q": ": ${UNSETZZ?gone} 2>/dev/null", "u": "set -u; : $UNSETZZ 2>/dev/null", "c": ": ${UNSETZZ:?} 2>/dev/null",
                "a": "set -u; : $((UNSETZZ + 1)) 2>/dev/null"}[c[1]]
    if k == "Fa":
        return {"r": "RO=1 true", "n": "nosuchcmd_zz 2>/dev/null", "d": "true < /nonexistent_zz/f 2>/dev/null",
                "b": "XT=1 true", "x": "XT=1 /bin/true"}[c[1]]
    if k == "KT":
        return "XT=1 f%d" % c[1]
    if k == "Pi":
        return " | ".join(["Q %d" % x for x in c[1]] + [r_cmd(c[2], ind) if c[2][0] not in LIST_LEVEL else "{ " + r_list(c[2], ind) + "; }"])
    if k == "Cs":
        ind["in_cs"] = ind.get("in_cs", 0) + 1
        body = r_list(c[1], ind)
        ind["in_cs"] -= 1
        if body.startswith("("):
            body = " " + body      # `$((` would start an arithmetic expansion
        return "v=$(%s)" % body
    if k == "Ev":
        return "eval %s" % sq(r_list(c[1], ind))
    raise ValueError(k)


def sq(s):
    return "'" + s.replace("'", "'\\''") + "'"


def render(prog, prelude=True, raw_esac=False, fd3=False, deco=None, deco_nl=True):
    """deco: None, or a seed: semantics-preserving decorations (harmless redirects on compound commands, newlines
    for `;`, `function f {` for `f() {`) chosen from it"""
    funcs, main = prog
    ind = {"raw_esac": raw_esac, "fd3": fd3}
    if deco is not None:
        import random as _random
        ind["deco"] = _random.Random(deco)
        ind["deco_nl"] = deco_nl
    out = (PRELUDE3 if fd3 else PRELUDE) if prelude else ""
    if deco is not None and ind["deco"].random() < 0.4:
        # a shell mode that must not matter to these programs (they use no unset parameter, no glob, no alias, no
        # trap of their own): same program, same models — other option-dependent paths through brush
        out += ind["deco"].choice(NEUTRAL_MODES) + "\n"
    for i, body in enumerate(funcs):
        if deco is not None and ind["deco"].random() < 0.3:
            out += "function f%d { %s; }\n" % (i, r_list(body, ind))
            continue
        out += "f%d() { %s; }\n" % (i, r_list(body, ind))
    out += r_list(main, ind) + "\n"
    return out


# ---------------------------------------------------------------------------------------------
# wire format for the Lean driver (prefix tokens)

def wire(c, out):
    k = c[0]
    if k == "L":
        out += ["L", str(c[1]), str(len(c[2]))] + [str(x) for x in c[2]]
    elif k == "P":
        out.append("P")
    elif k == "S":
        out += ["S", str(len(c[1]))]
        for x in c[1]:
            wire(x, out)
    elif k == "A":
        out.append("A")
        wire(c[1], out)
        out.append(str(len(c[2])))
        for is_and, x in c[2]:
            out.append("&" if is_and else "|")
            wire(x, out)
    elif k in ("N", "Gr", "Su", "Cs", "Ev"):
        out.append(k)
        wire(c[1], out)
    elif k in ("I", "W", "U"):
        out.append(k)
        wire(c[1], out)
        wire(c[2], out)
    elif k == "J":
        out.append("J")
        wire(c[1], out)
        wire(c[2], out)
        wire(c[3], out)
    elif k in ("F", "G"):
        out += [k, str(c[1])]
        wire(c[2], out)
    elif k == "C":
        out += ["C", str(len(c[1]))]
        for m, body, t in c[1]:
            out += ["1" if m else "0", t]
            wire(body, out)
    elif k == "K":
        out += ["K", str(c[1])]
    elif k in ("B", "Co", "R", "X"):
        out += [k, "-" if c[1] is None else str(c[1])]
    elif k == "O":
        out += ["O", c[1], "1" if c[2] else "0"]
    elif k == "Pi":
        out += ["Pi", str(len(c[1]))] + [str(x) for x in c[1]]
        wire(c[2], out)
    elif k == "Fx":
        out += ["X", "1"]
    elif k == "Fa":
        out += ["Fa", c[1]]
    elif k == "KT":
        out += ["KT", str(c[1])]
    else:
        raise ValueError(k)
    return out


def wire_prog(prog):
    funcs, main = prog
    out = [str(len(funcs))]
    for f in funcs:
        wire(f, out)
    wire(main, out)
    return " ".join(out)


# ---------------------------------------------------------------------------------------------
# generation

CODES = [0, 1, 2, 7, 255]


class Gen:
    def __init__(self, rng, feats=(), budget=14):
        self.rng = rng
        self.next_id = 0
        self.budget = budget      # soft bound on the number of constructs
        self.feats = set(feats)   # extra features: "opts", "cs", "ev", "badlevels", "wildbreak"
        self.in_bang = 0          # generating inside a `!` operand
        self.has_opts = False     # the construct being generated toggles options
        self.func_opts = {}       # function index -> toggles options (transitively)

    def leaf(self, codes=None):
        r = self.rng
        self.next_id += 1
        if codes is None and "fixed" in self.feats:
            codes = [r.choice(CODES if r.random() < 0.4 else [0, 0, 1])]
        if codes is None:
            n = r.choice([1, 1, 1, 2, 3])
            codes = [r.choice(CODES if r.random() < 0.5 else [0, 1]) for _ in range(n)]
        return ("L", self.next_id, codes)

    def cond_leaf(self, until):
        """a loop condition that eventually ends the loop (leaf counters are global, so a loop that is
        entered a second time ends at once)"""
        r = self.rng
        n = r.choice([0, 1, 2, 2, 3])
        self.next_id += 1
        if until:
            codes = [r.choice([1, 1, 2, 7]) for _ in range(n)] + [0]
        else:
            codes = [0] * n + [r.choice([1, 1, 2, 255])]
        return ("L", self.next_id, codes)

    def cmd(self, depth, loops, infunc, ncalls):
        """a command-level construct. loops = number of enclosing loops in this function/subshell."""
        r = self.rng
        self.budget -= 1
        if depth <= 0 or self.budget <= 0:
            return self.simple(loops, infunc, ncalls)
        k = r.random()
        if k < 0.22:
            return self.simple(loops, infunc, ncalls)
        if k < 0.34:
            if r.random() < 0.5:
                return ("I", self.lst(depth - 1, loops, infunc, ncalls, cond=True), self.lst(depth - 1, loops, infunc, ncalls))
            return ("J", self.lst(depth - 1, loops, infunc, ncalls, cond=True), self.lst(depth - 1, loops, infunc, ncalls),
                    self.lst(depth - 1, loops, infunc, ncalls) if r.random() < 0.6 else
                    self.cmd_of(["I", "J"], depth - 1, loops, infunc, ncalls))
        if k < 0.46:
            until = r.random() < 0.4
            cond = self.cond_leaf(until)
            if r.random() < 0.3:
                cond = ("S", [self.simple_nojump(), cond])
            return ("U" if until else "W", cond, self.lst(depth - 1, loops + 1, infunc, ncalls))
        if k < 0.58:
            return (r.choice(["F", "G"]), r.choice([0, 1, 2, 2, 3]), self.lst(depth - 1, loops + 1, infunc, ncalls))
        if k < 0.68:
            n = r.choice([1, 2, 3, 4])
            arms = [(r.random() < 0.5, self.lst(depth - 1, loops, infunc, ncalls), r.choice(["x", "x", "f", "c"])) for _ in range(n)]
            return ("C", arms)
        if k < 0.76:
            return ("Gr", self.lst(depth - 1, loops, infunc, ncalls))
        if k < 0.86:
            # (no `return` directly in a subshell of a function: bash's `( ! return n )` inverts the status the subshell
            #  leaves with, another face of the execute_in_subshell quirk described in DESIGN.md 13.2)
            body = self.lst(depth - 1, 0, False, ncalls)
            if "opts" in self.feats and (body[0] == "N" or (body[0] == "S" and len(body[1]) == 1 and body[1][0][0] == "N")):
                # bash's execute_in_subshell strips the `!` flag from a subshell whose whole body is one negated
                # command before running it, so under `set -e` failures inside `( ! cmd )` are not exempt (a bash
                # quirk contradicting the property's wording); keep such bodies out of the errexit runs
                body = ("S", [("P",), body])
            return ("Su", body)
        if k < 0.93 and ncalls:
            return self.call(ncalls)
        if "pipe" in self.feats and r.random() < 0.4:
            n = r.choice([1, 1, 2, 3])
            # (no option toggles in the last stage: under lastpipe it runs in the current shell and brush reads
            #  pipefail after the stages have run, bash before — a corner nobody relies on)
            self.in_bang += 1
            last = self.cmd(depth - 1, 0, False, [f for f in ncalls if not self.func_opts.get(f)])
            self.in_bang -= 1
            if last[0] == "Ev":
                last = ("Gr", last)   # bash: errexit inside `… | eval` leaves with status 1, not the failing status (quirk)
            return ("Pi", [r.choice([0, 0, 1, 3]) for _ in range(n)], last)
        if "cs" in self.feats and r.random() < 0.5:
            return ("Cs", self.lst(depth - 1, 0, False, ncalls))
        if "ev" in self.feats and r.random() < 0.5:
            # under errexit, bash checks the status `eval` returns even while a `break`/`continue` issued inside it is
            # pending (`eval '! continue'` → 1 → exit); brush checks only results with normal flow. Rare and arguably
            # either way: with option toggles in play no loop jump crosses an `eval` boundary in generated programs.
            # Nor does a `return`: bash's eval switches errexit off while it runs in an exempt context and restores it
            # when it ends — a `return` that jumps out of `if eval 'set -e; return 1'` skips the restore, and the shell goes
            # on with `-e` shown in `$-` but not acted on (seen once in ~8000 thorough-tier programs).
            opts = "opts" in self.feats
            return ("Ev", self.lst(depth - 1, 0 if opts else loops, infunc and not opts, ncalls))
        return self.simple(loops, infunc, ncalls)

    def cmd_of(self, kinds, depth, loops, infunc, ncalls):
        for _ in range(50):
            c = self.cmd(max(depth, 1), loops, infunc, ncalls)
            if c[0] in kinds:
                return c
        return ("I", self.leaf(), self.leaf())

    def simple_nojump(self):
        return self.leaf() if self.rng.random() < 0.8 else ("P",)

    def simple(self, loops, infunc, ncalls):
        r = self.rng
        # bash decides the errexit exemption of `! cmd` when cmd starts: `set -e` switched on *inside* a
        # negated command leaves its later failures non-exempt (a bash quirk that contradicts the property's
        # own wording), so option toggles are never generated under `!`
        if "opts" in self.feats and self.in_bang == 0 and r.random() < 0.12:
            self.has_opts = True
            o = "e" if "opts2" not in self.feats else r.choice(["e", "e", "p", "i", "l"])
            return ("O", o, r.random() < 0.7)
        if "faults" in self.feats and r.random() < 0.3:
            if ncalls and r.random() < 0.3:
                f = r.choice(ncalls)
                if self.func_opts.get(f):
                    self.has_opts = True
                return ("KT", f)
            return ("Fa", r.choice(["r", "n", "d", "b", "x"]))
        k = r.random()
        if k < 0.5:
            return self.leaf()
        if k < 0.62:
            return ("P",)
        if k < 0.74:
            kind = r.choice(["B", "Co"])
            if "badlevels" in self.feats and r.random() < 0.3:
                return (kind, r.choice([0, -1, loops + 1, loops + 3, 5]))
            if loops == 0 and "wildbreak" not in self.feats:
                return self.leaf()
            if loops == 0:
                return (kind, r.choice([None, 1, 2]))
            n = r.randint(1, loops)
            return (kind, None if n == 1 and r.random() < 0.6 else n)
        if k < 0.84:
            if infunc or "wildreturn" in self.feats:
                return ("R", r.choice([None, None, 0, 1, 3, 255, 256 + 4, -1, -300, 2147483648 + 3, 9223372036854775807]))
            return self.leaf()
        if k < 0.90:
            return ("X", r.choice([None, 0, 1, 5, 255, 300, -1, -257, 4294967296 + 9]))
        if ncalls:
            return self.call(ncalls)
        return self.leaf()

    def call(self, ncalls):
        f = self.rng.choice(ncalls)
        if self.func_opts.get(f):
            self.has_opts = True
        return ("K", f)

    def pipe(self, depth, loops, infunc, ncalls):
        r = self.rng
        if r.random() < 0.15 and "nobang" not in self.feats:
            self.in_bang += 1
            c = self.cmd(depth, loops, infunc, [f for f in ncalls if not self.func_opts.get(f)])
            self.in_bang -= 1
            return ("N", c)
        return self.cmd(depth, loops, infunc, ncalls)

    def andor(self, depth, loops, infunc, ncalls):
        r = self.rng
        first = self.pipe(depth, loops, infunc, ncalls)
        if r.random() < 0.3 and self.budget > 2:
            rest = [(r.random() < 0.5, self.pipe(depth - 1, loops, infunc, ncalls)) for _ in range(r.choice([1, 1, 2, 3]))]
            return ("A", first, rest)
        return first

    def lst(self, depth, loops, infunc, ncalls, cond=False):
        r = self.rng
        n = r.choice([1, 1, 1, 2, 2, 3]) if self.budget > 3 else 1
        items = [self.andor(depth, loops, infunc, ncalls) for _ in range(n)]
        if len(items) == 1 and r.random() < 0.7:
            return items[0]
        return ("S", items)

    def program(self, depth, nfuncs=None, prefix=None):
        r = self.rng
        if nfuncs is None:
            nfuncs = r.choice([0, 0, 1, 2, 3])
        funcs = [None] * nfuncs
        for i in reversed(range(nfuncs)):
            self.has_opts = False
            funcs[i] = self.lst(max(1, depth - 1), 0, True, list(range(i + 1, nfuncs)))
            self.func_opts[i] = self.has_opts
        main = self.lst(depth, 0, False, list(range(nfuncs)))
        pre = list(prefix or [])
        if main[0] != "S":
            main = ("S", pre + [main, ("P",)])
        else:
            main = ("S", pre + main[1] + [("P",)])
        return (funcs, main)


def size(c):
    if isinstance(c, tuple):
        return 1 + sum(size(x) for x in c[1:])
    if isinstance(c, list):
        return sum(size(x) for x in c)
    return 0


def kinds(c, acc=None):
    acc = set() if acc is None else acc
    if isinstance(c, tuple):
        if c and isinstance(c[0], str):
            acc.add(c[0])
        for x in c[1:]:
            kinds(x, acc)
    elif isinstance(c, list):
        for x in c:
            kinds(x, acc)
    return acc
