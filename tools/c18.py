"""C18 — long sessions do not leak descriptors, children or internal stacks."""
import random
import lib
import flowgen
from flowcheck import canon
from lib import esc

PROP = "C18"
BIN = "c18"
FEATS = ("faults", "fixed", "cs")   # no `set -e`: with errexit bash treats a readonly prefix assignment as fatal (C09 finding)
EXTRA = ["cat <(true) >/dev/null", "v=$(true; false)", "cat <<< x >/dev/null", "cat <<E >/dev/null\nhd\nE", "( exit 3 )",
         "true | false | true", "{ true; } > /dev/null 2>&1", "exec 5</dev/null; exec 5<&-", ": > /proc/version 2>/dev/null",
         "sleep 0 & wait", "f0 2>/dev/null | cat", "eval 'nosuchcmd_zz' 2>/dev/null", ": ${UNSETZZ-x}", "for i in 1 2; do true < /nonexistent_zz; done 2>/dev/null",
         "echo x > /nonexistent_zz/dir/f", "while read l; do :; done < /dev/null", "case x in x) RO=1 true ;; esac", "XT=1 nosuchcmd_zz",
         "a=(1 2); a[1/0]=3 true", "( x=${UNSETZZ?nope} true )", "f0 > /nonexistent_zz/f", "XT=1 f0 < /nonexistent_zz/f",
         # functions whose DEFINITION carries a redirection that fails at call time (found missing by seed C18-1)
         "fr 2>/dev/null", "XT=1 fr inner 2>/dev/null", "fw a b 2>/dev/null", "for i in 1 2; do XT=$i fr $i; done 2>/dev/null",
         "fr 2>/dev/null | cat", "v=$(fr 2>&1)", "fok >/dev/null", "XT=1 fok",
         # sourced files (push_script / pop, positional parameters) leaving by return, failing, not parsing, missing
         ". $SD/r", "source $SD/n 2>/dev/null", ". $SD/s 2>/dev/null", ". $SD/f 2>/dev/null", ". $SD/d 2>/dev/null",
         ". /nonexistent_zz/f 2>/dev/null", "XT=1 . $SD/r", ". $SD/r > /nonexistent_zz/f", "for i in 1 2; do . $SD/nest; done >/dev/null",
         "fs; fs | cat", "v=$(. $SD/r)", ". $SD/r arg1 arg2", "fs a b < /nonexistent_zz/f", "eval '. $SD/r'",
         # other dispatch paths with a failing redirect or temporary assignment
         "eval 'f0; return 3' 2>/dev/null", "builtin true < /nonexistent_zz/f", "command true < /nonexistent_zz/f", "f0 <<< x",
         "{ f0; } < /nonexistent_zz/f", "( f0 ) < /nonexistent_zz/f", "if f0 < /nonexistent_zz/f; then :; fi",
         "while f0 < /nonexistent_zz/f; do :; done", "read x <<< y", "mapfile -t A < /dev/null", "XT=1 eval 'XT=2 f0'",
         "case x in x) f0 < /nonexistent_zz/f ;; esac", "for ((i=0;i<2;i++)); do XT=$i f0; done", "[[ -n x ]] < /nonexistent_zz/f",
         "(( 1 )) < /nonexistent_zz/f", "f0() { return 3; }", "unset -f fq; fq() { :; }; fq",
         # process substitutions as targets of persistent (`exec`) and per-command redirections, opened and closed again
         # (found missing by seed C18-2)
         "exec 3< <(echo hi); read l <&3; exec 3<&-", "exec 4> >(cat >/dev/null); echo x >&4; exec 4>&-; wait",
         "read l < <(echo hi)", "cat <(echo a) <(echo b) >/dev/null",
         "while read l; do :; done < <(printf 'a\\nb\\n')", "echo x > >(cat >/dev/null); wait", "f0 < <(echo hi)",
         "{ read l; } < <(echo hi)", "exec 5< <(echo hi) 6< <(echo ho); exec 5<&- 6<&-", "exec 3< <(echo hi); exec 3< <(echo ho); exec 3<&-",
         "exec 3<&0; exec 3<&-", "exec 3>&1 4>&2; exec 3>&- 4>&-", "exec 3<> /dev/null; exec 3>&-", "exec 7</dev/null 7<&-",
         # rarely enabled modes: POSIX mode (temporary assignments before special builtins), in and outside functions
         # (found missing by seed C18-3); other option/mode switches around dispatch
         "fpx", "fpx; fpx | cat", "set -o posix; XT=1 :; XT=2 eval true; XT=3 export YP=1; set +o posix",
         "( set -o posix; XT=1 :; XT=2 f0 )", "set -o posix; fr 2>/dev/null; XT=1 f0; set +o posix", "fpy 2>/dev/null",
         "set -f; XT=1 f0; set +f", "set -u; f0 ${UNSETZZ-}; XT=1 f0; set +u", "shopt -s lastpipe; true | XT=1 f0; shopt -u lastpipe",
         "set -o pipefail; f0 | f0; set +o pipefail", "set -e; f0 || true; XT=1 f0 || true; set +e"]
DEFS = ('fr() { return 3; } < "/nonexistent_zz/$1"\nfw() { :; } > /nonexistent_zz/d/f\nfok() { :; } < /dev/null\n'
        'SD=${TMPDIR:-/tmp}/c18src.$$; mkdir -p $SD; echo "return 3" > $SD/r; echo nosuchcmd_zz > $SD/n; echo "if then" > $SD/s\n'
        'printf "f0\\nRO=1 true\\n" > $SD/f; printf "true < /nonexistent_zz/f\\nreturn 2\\n" > $SD/d; printf ". $SD/r\\necho no\\n" > $SD/nest\n'
        'fs() { . $SD/r; }\n'
        'fpx() { set -o posix; XT=1 :; XT=2 eval true; XT=3 . $SD/r; XT=4 export YP=1; XT=5 return 3; }\n'
        'fpy() { set -o posix; XT=1 . /nonexistent_zz/f; XT=2 readonly RO; set +o posix; }\n')


def _sweep_src_dirs():
    """DEFS creates /tmp/c18src.<pid of the harness process>; remove those whose process is gone"""
    import glob, os, shutil, tempfile
    for d in glob.glob(os.path.join(os.environ.get("TMPDIR", tempfile.gettempdir()), "c18src.*")):
        pid = d.rsplit(".", 1)[1]
        if pid.isdigit() and not os.path.exists("/proc/" + pid):
            shutil.rmtree(d, ignore_errors=True)


SPECIAL_RO = ["readonly _", "declare -r _", "readonly PIPESTATUS", "readonly OPTIND OPTARG REPLY", "readonly PWD OLDPWD",
              "readonly LINENO BASH_COMMAND", "readonly FUNCNAME BASH_SOURCE BASH_LINENO", "readonly IFS", "readonly RANDOM SECONDS",
              "readonly XT", "readonly MAPFILE COPROC", "readonly BASH_ARGV0 SHLVL BASH_SUBSHELL"]


def run_resilient(reqs, workers=8):
    """Like lib.run_vh_parallel, but a harness process that dies or answers HANG costs exactly one request (its answer
    becomes `HANG` / `DIED`, a violation for that case); the rest of its share goes to a fresh process."""
    def one(part):
        outs, pending, restarts = [], list(part), 0
        while pending and restarts < 12:
            try:
                rc, out, err = lib.run_vh(BIN, pending, timeout=1200)
            except Exception as ex:        # the whole process timed out: give up on this share
                out, rc = [], -9
            good = [o for o in out if o.startswith("scopes=") or o == "bad-request"]
            if len(good) == len(pending):
                outs += good
                return outs
            # the request after the last good answer is the culprit
            outs += good + ["HANG" if "HANG" in out else "DIED"]
            pending = pending[len(good) + 1:]
            restarts += 1
        return outs + ["SKIPPED"] * len(pending)
    parts = lib.chunked(reqs, workers)
    from concurrent.futures import ThreadPoolExecutor
    with ThreadPoolExecutor(max_workers=workers) as ex:
        rs = list(ex.map(one, parts))
    return [o for r in rs for o in r]


def body_program(rng):
    g = flowgen.Gen(random.Random(rng.getrandbits(48)), FEATS, budget=rng.choice([4, 6, 10, 14]))
    funcs, main = g.program(rng.choice([2, 3, 3]), nfuncs=rng.choice([1, 2, 3]))
    # no top-level exit: the session must go on (exits inside subshells / functions called in subshells are fine)
    return funcs, main


def has_toplevel_exit(c, in_sub=False):
    if isinstance(c, tuple):
        if c[0] == "X" and not in_sub:
            return True
        sub = in_sub or c[0] in ("Su", "Cs", "Pi")
        return any(has_toplevel_exit(x, sub) for x in c[1:])
    if isinstance(c, list):
        return any(has_toplevel_exit(x, in_sub) for x in c)
    return False


def run(ctx):
    ok, out = lib.cargo_build([BIN])
    if not ok:
        lib.log(out[-3000:])
        ctx.broken.append("harness c18 does not build against the current tree: " + lib._first_errors(out))
    ctx.proof_stage()
    if not ok:
        return
    rng = ctx.rng
    progs = []
    tries = 0
    while len(progs) < ctx.size(260, 4000) and tries < 100000:
        tries += 1
        funcs, main = body_program(rng)
        if has_toplevel_exit(main) or any(has_toplevel_exit(f) for f in funcs):
            continue
        progs.append((funcs, main))
    n1, n2 = 2, ctx.size(30, 500)

    # ---- part A: resources sampled inside one in-process shell after 1, n1, n2 iterations
    reqs = []
    for pi, (funcs, main) in enumerate(progs):
        # every other program with harmless redirects on its compound commands (same program, other dispatch path)
        txt = flowgen.render((funcs, main), fd3=True, deco=((ctx.seed << 16) + pi if pi % 2 else None), deco_nl=False)
        lines = txt.rstrip("\n").split("\n")
        prelude = DEFS + "\n".join(l for l in lines[1:-1])          # without `exec 3>&1`
        if pi % 5 == 3:
            # a variable the shell maintains by itself is read-only: its internal updates fail on every command, and
            # the failure must not skip any pop (found missing by seed C18-4)
            prelude += "\n" + SPECIAL_RO[(pi // 5) % len(SPECIAL_RO)]
        body = lines[-1]
        if rng.random() < 0.5:
            body += "; " + rng.choice(EXTRA)
        reqs.append("%d %d %s %s" % (n1, n2, esc(prelude), esc(body)))
    for x in EXTRA:
        reqs.append("%d %d %s %s" % (n1, n2, esc(DEFS + "readonly RO=0\nf0() { return 3; }"), esc(x)))
    for ro in SPECIAL_RO:
        for x in ("true; XT=1 true; f0; XT=2 f0; fs; /bin/true; nosuchcmd_zz 2>/dev/null; echo x | cat; v=$(f0)",
                  "cd /; cd - >/dev/null; read r <<< y; getopts a o -a; mapfile -t A < /dev/null; for i in 1 2; do f0; done"):
            reqs.append("%d %d %s %s" % (n1, n2, esc(DEFS + "f0() { return 3; }\n" + ro), esc(x)))
    outs = run_resilient(reqs, workers=8)
    _sweep_src_dirs()
    for req, o in zip(reqs, outs):
        ctx.count(req, nontrivial=True, bucket="resources")
        ctx.impl_validated += 1
        body = lib.unesc(req.split(" ")[3])
        if o == "SKIPPED":
            ctx.bucket("skipped_after_many_harness_restarts")
            continue
        if not o.startswith("scopes="):
            ctx.violation("no sample: the shell %s while repeating the sequence"
                          % ("did not come back within the time limit (each iteration slower than the last, or a loop)" if o == "HANG"
                             else "panicked or crashed"),
                          {"body": body, "prelude": lib.unesc(req.split(" ")[2]), "harness": o})
            continue
        kv = dict(p.split("=") for p in o.split(" "))
        case = {"body": body, "prelude": lib.unesc(req.split(" ")[2]), "iterations": [1, n1, n2], "sample": kv}
        for key, what in (("scopes", "variable-scope depth"), ("calls", "call-stack depth"), ("fds", "open descriptors")):
            v = kv[key].split(",")
            if len(set(v)) != 1:
                if key == "fds" and "exec 4> >(" in body and kv["scopes"].split(",")[0] == kv["scopes"].split(",")[-1]:
                    # the one recorded leak: each `exec N> >(cmd)` keeps the previous one's pipe (and child) alive
                    ctx.known_or_violation("exec_output_procsub_chain_holds_descriptors",
                                           "open descriptors grow with the number of iterations: " + kv[key], case)
                else:
                    ctx.violation("%s grows with the number of iterations: %s" % (what, kv[key]), case)
                break
        else:
            if kv["zombies"].split(",")[-1] != "0" and kv["zombies"].split(",")[-1] > kv["zombies"].split(",")[0]:
                ctx.violation("unreaped children accumulate: " + kv["zombies"], case)
    # ---- part B: the k-th iteration behaves like the first (binary, brush vs bash vs model)
    k = 3
    scripts, wires = [], []
    for funcs, main in progs[: ctx.size(200, 2500)]:
        rep = ("S", [main] * k)
        scripts.append(flowgen.render((funcs, rep), fd3=True))
        wires.append("C02 " + flowgen.wire_prog((funcs, rep)))
    res = lib.pmap(lambda s: lib.run_both(s, timeout=30), scripts)
    for i, (b, o) in enumerate(res):          # a timeout under load is not evidence: retry alone, generously
        if b["timeout"] or o["timeout"]:
            res[i] = lib.run_both(scripts[i], timeout=120)
    mouts = lib.run_drv_parallel(wires)
    for s, (b, o), m in zip(scripts, res, mouts):
        ctx.count("rep" + s, nontrivial=True, bucket="repeat-3")
        cb, co = canon(b), canon(o)
        impl = m.split(" | ")[0]
        if "( (" in s:
            continue
        case = {"script": s, "brush": cb, "bash": co, "model": impl}
        if cb != co:
            ctx.violation("repeating the sequence: brush and bash diverge (a later iteration behaves differently)", case)
        elif cb != impl:
            ctx.violation("control-flow model (with fault leaves) and brush disagree", case, kind="correspondence")
    ctx.sample({"request": reqs[0], "response": outs[0] if outs else None})
    ctx.cov["rule"] = ("command sequences from the control-flow grammar with fault leaves (readonly prefix assignment, unknown command, failing "
                       "redirection, temporary assignments on builtins/externals/functions, return/break out of nested constructs) plus a "
                       "fixed list of descriptor-heavy commands; each repeated 1, %d and %d times in ONE in-process shell with scope depth, "
                       "call-stack depth, open descriptors and zombie children sampled; and repeated 3 times in the binary vs bash vs the model" % (n1, n2))
    ctx.assumptions += ["descriptor and zombie counts are runtime facts observed in the harness process, not proved",
                        "the model's balance theorem covers scope and call-stack depth only"]


def replay(ctx, rp):
    lib.cargo_build([BIN])
    case = rp["case"]
    if "body" in case:
        req = "2 30 %s %s" % (esc(case.get("prelude", "")), esc(case["body"]))
        _, o, _ = lib.run_vh(BIN, [req])
        print(case["body"])
        print(o)
        kv = dict(p.split("=") for p in o[0].split(" ")) if o and o[0].startswith("scopes=") else {}
        return 0 if kv and all(len(set(kv[k].split(","))) == 1 for k in ("scopes", "calls", "fds")) else 1
    b, o = lib.run_both(case["script"], timeout=30)
    print(case["script"]); print("brush:", canon(b)); print("bash: ", canon(o))
    return 0 if canon(b) == canon(o) else 1
