"""C14 — printed function definitions re-parse to the same function.

Per generated function tree (tools/c14gen.py):
  * brush's printer (harness c14, in-process `Display`) vs the Lean model `printFn`        — the tie
  * the property itself on brush: the printed text runs again in brush (harness: AST with locations
    erased, second print; import path `define_func_from_str`), through the real binaries: `declare -f`,
    `type`, re-definition from the printed text in brush and in bash (bash's own print of both must
    agree), calls before/after with scripted leaves, `export -f` into a child brush and a child bash.
"""
import json
import os
import re
import shutil
import tempfile
import random
import lib
import c14gen as g
import c14ctx
from lib import esc, unesc

BIN = "c14"

PRELUDE = ('p() { echo "p:$*"; }\nn() { echo "n:$*"; return 1; }\n'
           'pc() { cat >/dev/null; echo "p:$*"; }\nnc() { cat > /dev/null; echo "n:$*"; return 1; }\nx=b; y=2\n')
CALL = '{ f A B; echo "rc=$?"; wait; }'

# which failure kinds a defect class can explain (None = any).  Repaired and no longer excused (a
# failure there is a VIOLATION again): compound_redirect_adjacent, procsub_word_double_parens,
# for_without_in_prints_empty_list, pipe_then_amp_redirect, export_body_not_brace_group.
CLAUSES = [
    ("heredoc_reprint", "heredoc", None),
    ("multiline_word_indented", "multiline_word_indented", {"ast", "print2", "import_ast", "import_print", "bash_print", "brush_behaviour", "bash_behaviour", "export_brush", "export_bash"}),
]
DEFECT_FEATURES = {c[1] for c in CLAUSES}


def feats(tree):
    fs = g.features(tree)
    out = set(fs)
    if "compound_redirect_fd" in fs or "compound_redirect_digits" in fs:
        out.add("compound_redirect_adjacent")
    return out


def canon_out(d):
    """all files of a run directory, time-keyword lines neutralised"""
    out = {}
    if not os.path.isdir(d):
        return None
    for f in sorted(os.listdir(d)):
        try:
            t = open(os.path.join(d, f), errors="replace").read()
        except OSError:
            t = "<unreadable>"
        t = re.sub(r"(?m)^(real|user|sys)[ \t].*$", r"\1 T", t)
        t = re.sub(r"(?m)^[^\n]*?: line \d+: ", "", t)      # shell error prefix (script path / `environment`)
        out[f] = t
    return out


def env_func(env0):
    """value of BASH_FUNC_f%% in a NUL-separated environment dump"""
    if env0 is None:
        return None
    for e in env0.split("\0"):
        if e.startswith("BASH_FUNC_f%%="):
            return e[len("BASH_FUNC_f%%="):]
    return None


def shell_case(args):
    src, p1, norun = args
    d = tempfile.mkdtemp(prefix="c14-")
    try:
        open(os.path.join(d, "HP1"), "w").write(p1 + "\n")
        run = lambda k: 'mkdir "$D/%s"; ( cd "$D/%s" && %s </dev/null >out 2>/dev/null )\n' % (k, k, CALL)
        # the child applies the redirections itself, in a subshell, exactly as the parent does for its own call
        # (brush sends an external command's `>&2` to stdout when fd 2 is the inherited process stderr — a
        # descriptor matter outside this property — so both calls must run under shell-made redirections)
        child = lambda k, sh: ('mkdir "$D/%s"; ( cd "$D/%s" && %s -c \'( %s </dev/null >out 2>/dev/null )\' )\n'
                               % (k, k, sh, CALL))
        bs = "D='%s'\n" % d
        brush_child = "'%s' --norc --noprofile --no-config" % lib.BRUSH
        bash_child = "%s --norc --noprofile" % lib.BASH
        script = (bs + PRELUDE + src + '\ndeclare -f f > "$D/P1"\ntype f > "$D/T1" 2>/dev/null\n'
                  + ("" if norun else run("r0"))
                  + 'export -f f p n pc nc; export x y\n/usr/bin/env -0 > "$D/ENV0" 2>/dev/null\n'
                  + ("" if norun else child("r2", brush_child) + child("r3", bash_child))
                  + "%s -c 'declare -f f' > \"$D/XB\" 2>/dev/null\n%s -c 'declare -f f' > \"$D/XP\" 2>/dev/null\n" % (bash_child, brush_child)
                  + 'unset -f f\n. "$D/P1" 2>/dev/null\ndeclare -f f > "$D/P2" 2>/dev/null\n'
                  + ("" if norun else run("r1")))
        rb = lib.run_shell("brush", script, mode="file", timeout=20, cwd=d)
        bscript = (bs + PRELUDE + src + '\ndeclare -f f > "$D/BP0"\n' + ("" if norun else run("b0"))
                   + 'unset -f f\n. "$D/HP1" 2>/dev/null\ndeclare -f f > "$D/BP1" 2>/dev/null\n'
                   + ("" if norun else run("b1")))
        ro = lib.run_shell("bash", bscript, mode="file", timeout=20, cwd=d)
        rd = lambda f: (open(os.path.join(d, f), errors="replace").read() if os.path.exists(os.path.join(d, f)) else None)
        return {"timeout": rb["timeout"] or ro["timeout"], "P1": rd("P1"), "T1": rd("T1"), "P2": rd("P2"),
                "BP0": rd("BP0"), "BP1": rd("BP1"), "XB": rd("XB"), "XP": rd("XP"), "XT": env_func(rd("ENV0")),
                "r0": canon_out(os.path.join(d, "r0")), "r1": canon_out(os.path.join(d, "r1")),
                "r2": canon_out(os.path.join(d, "r2")), "r3": canon_out(os.path.join(d, "r3")),
                "b0": canon_out(os.path.join(d, "b0")), "b1": canon_out(os.path.join(d, "b1"))}
    finally:
        shutil.rmtree(d, ignore_errors=True)


def parse_h(line):
    return dict(x.split("=", 1) for x in line.split(" ") if "=" in x)


def failures(h, sh, norun, brace=True, after_import=None):
    """the property evaluated on brush's real behaviour; returns {kind: detail}.
    `after_import`: what a shell that imported the exported text prints (the definition itself for a brace-group
    body; for any other body the brace group holding it, as in bash)."""
    f = {}
    p1 = unesc(h["P1"])
    if after_import is None:
        after_import = p1
    if h["R"] != "ok":
        f["reparse"] = "the printed text does not define the function again in brush (%s)" % h["R"]
    else:
        if h["A"] != "same":
            f["ast"] = "the printed text parses to a different definition (ASTs with locations erased differ)"
        if unesc(h["P2"]) != p1:
            f["print2"] = "printing is not a fixed point: second print differs from the first"
    if h.get("X", "-") == "-":
        f["import"] = "an exported function is missing from the environment brush composes for a child process"
    elif not unesc(h["X"]).startswith("() {"):
        f["export_bash"] = "the exported text does not start with `() {`: bash will not import it"
    if h["I"] != "ok":
        f.setdefault("import", "the exported text is rejected by define_func_from_str")
    else:
        if brace and h["IA"] != "same":
            f["import_ast"] = "the exported text imports as a different definition"
        if unesc(h["P3"]) != after_import:
            f["import_print"] = "the imported definition prints differently"
    if sh is None:
        return f
    if sh["timeout"]:
        return f
    if sh["P1"] is not None and sh["P1"] != p1 + "\n":
        f["declare_f_vs_display"] = "`declare -f` of the binary differs from the in-process Display text"
    if sh["T1"] is not None and sh["P1"] is not None and not sh["T1"].endswith(sh["P1"]):
        f["type_vs_declare"] = "`type f` does not show the `declare -f` text"
    if sh["P2"] is not None and "reparse" not in f and sh["P2"] != sh["P1"]:
        f.setdefault("print2", "after re-defining from the printed text `declare -f` prints differently")
    if not norun:
        if sh["r0"] is not None and sh["r1"] != sh["r0"]:
            f["brush_behaviour"] = "the function re-defined from its printed text behaves differently in brush"
        if sh["r0"] is not None and sh["r2"] != sh["r0"]:
            f["export_brush"] = "the function exported to a child brush behaves differently"
    if sh.get("XT") is not None and h.get("X", "-") != "-" and sh["XT"] != unesc(h["X"]):
        f["declare_f_vs_display"] = "the BASH_FUNC_f%% value a real child receives differs from the in-process export text"
    if sh["XP"] is not None and sh["P1"] is not None and sh["XP"] != after_import + "\n" and "import" not in f:
        f.setdefault("export_brush", "a child brush prints the exported function differently (or did not import it)")
    if sh["BP0"]:          # bash accepted the source: bash is an oracle for the printed text
        if not sh["BP1"]:
            f["bash_parse"] = "bash cannot define the function from brush's printed text"
        elif sh["BP1"] != sh["BP0"]:
            f["bash_print"] = "bash reads brush's printed text as a different function (its own declare -f differs)"
        if sh["XB"] != sh["BP0"]:
            f["export_bash"] = "a child bash does not import the exported function as bash's own definition (its declare -f differs or is empty)"
        elif not norun and sh["b0"] is not None and sh["r3"] != sh["b0"]:
            f["export_bash"] = "the function exported from brush to a child bash behaves differently from bash's own"
    return f


def explain(kind, fs):
    for clause, feat, kinds in CLAUSES:
        if feat in fs and (kinds is None or kind in kinds):
            return clause
    return None


def gen_cases(ctx):
    cases = []
    cdir = os.path.join(lib.ROOT, "corpus", "C14")
    if os.path.isdir(cdir):
        for fn in sorted(os.listdir(cdir)):
            if fn.endswith(".json"):
                for c in json.load(open(os.path.join(cdir, fn))):
                    cases.append(("corpus", dec(c["tree"]), c.get("style", 0), c.get("norun", False)))
    # seed-independent stream: small trees over every construct (fixed seed), then the seeded stream
    for (name, seed, n, lo, hi) in [("fixed_small", 12345, ctx.size(500, 4000), 1, 6),
                                    ("seeded", ctx.seed * 7919 + 17, ctx.size(700, 16000), 2, 16)]:
        rng = random.Random(seed)
        for i in range(n):
            G = g.Gen(rng, rng.randint(lo, hi))
            t = G.fdef()
            cases.append((name, t, i % 6, G.norun))
    return cases


def enc(t):
    if isinstance(t, tuple):
        return {"t": [enc(x) for x in t]}
    if isinstance(t, list):
        return [enc(x) for x in t]
    return t


def dec(t):
    if isinstance(t, dict):
        return tuple(dec(x) for x in t["t"])
    if isinstance(t, list):
        return [dec(x) for x in t]
    return t



def evaluate(ctx, cases, with_shell=True):
    srcs = [g.source(t, style) for _, t, style, _ in cases]
    okh, houts, errs = lib.run_vh_parallel(BIN, [esc(s) for s in srcs], workers=min(lib.NCPU, 8))
    if not okh:
        ctx.broken.append("harness c14 died: " + errs[:400])
    mouts = lib.run_drv_parallel(["C14 " + g.wire(t) for _, t, _, _ in cases], workers=min(lib.NCPU, 8))
    hs = [parse_h(o) for o in houts]
    jobs = [(i, (srcs[i], unesc(hs[i]["P1"]), cases[i][3])) for i in range(len(cases)) if hs[i].get("D") == "ok"]
    shres = {}
    if with_shell:
        res = lib.pmap(lambda j: shell_case(j[1]), jobs, workers=min(lib.NCPU, 8))
        shres = {j[0]: r for j, r in zip(jobs, res)}
    results = []
    for i, (kind, t, style, norun) in enumerate(cases):
        h, m = hs[i], mouts[i]
        fs = feats(t)
        results.append({"kind": kind, "tree": t, "style": style, "norun": norun, "src": srcs[i], "h": h, "m": m,
                        "fs": fs, "sh": shres.get(i)})
    return results


def judge(ctx, r, nviol):
    h, m, fs, t = r["h"], r["m"], r["fs"], r["tree"]
    case = {"tree": enc(t), "style": r["style"], "norun": r["norun"], "source": r["src"]}
    dfs = sorted(fs & DEFECT_FEATURES)
    ctx.count(r["src"], nontrivial=len(r["src"]) > 30, bucket=r["kind"])
    if h.get("D") != "ok":
        ctx.bucket("source_not_accepted_by_brush")
        if h.get("D") == "PANIC":
            ctx.violation("brush panics while defining/printing the function", case)
        return
    ctx.impl_validated += 1
    ctx.bucket("in_domain" if not dfs else "touches_known_defect")
    for k in sorted(fs):
        if k.startswith("k_") or k in ("time", "bang", "nested_function", "heredoc", "procsub_redirect", "rich_word"):
            ctx.bucket("has_" + k)
    md = dict(x.split("=", 1) for x in m.split(" ") if "=" in x)
    brace = t[2][0] == "brace"
    fl = failures(h, r["sh"], r["norun"], brace, unesc(md["W"]) if "W" in md else None)
    if "P" in md and md["P"] == h["P1"] and h.get("X", "-") != "-" and md.get("X") != h["X"] and nviol[0] < 10:
        nviol[0] += 1
        ctx.violation("export-text model and brush's compose_std_command disagree (correspondence broken)",
                      dict(case, brush=unesc(h["X"]), model=unesc(md.get("X", "%"))), kind="correspondence")
    if "P" not in md or md["P"] != h["P1"]:
        if nviol[0] < 10:
            nviol[0] += 1
            ctx.violation("printer model and brush's Display disagree (correspondence broken)" + (": " + "; ".join(fl.values()) if fl else ""),
                          dict(case, brush=unesc(h["P1"]), model=unesc(md.get("P", "%"))),
                          kind="property" if fl and any(explain(k, fs) is None for k in fl) else "correspondence")
        return
    ind = md.get("D") == "1"
    if "D" in md and ind != (not dfs and "rich_word" not in fs and "unmodelled" not in fs) and nviol[0] < 10:
        nviol[0] += 1
        ctx.violation("the Lean guard and the generator's feature detection disagree", dict(case, model=m[:200], features=sorted(fs)), kind="correspondence")
    if md.get("T") == "0" and ind and nviol[0] < 10:
        nviol[0] += 1
        ctx.violation("model: lex(print) differs from the intended tokens inside the proved domain", case, kind="correspondence")
    for kind, what in fl.items():
        clause = explain(kind, fs)
        detail = {"failure": kind, "printed": unesc(h["P1"]), "features": dfs}
        if r["sh"] and kind.startswith("bash"):
            detail.update(bash_print_of_source=r["sh"]["BP0"], bash_print_of_brush_text=r["sh"]["BP1"])
        if kind in ("brush_behaviour", "export_brush") and r["sh"]:
            detail.update(before=r["sh"]["r0"], after=r["sh"]["r1"] if kind == "brush_behaviour" else r["sh"]["r2"])
        if kind in ("bash_behaviour", "export_bash") and r["sh"]:
            detail.update(before=r["sh"]["b0"], after=r["sh"]["b1"] if kind == "bash_behaviour" else r["sh"]["r3"])
        if clause is None:
            if nviol[0] < 10:
                nviol[0] += 1
                ctx.violation(what, case, detail)
        else:
            ctx.known_or_violation(clause, what, case, detail)
    if dfs and not fl:
        ctx.bucket("defect_feature_but_property_holds")


def run(ctx):
    ok, out = lib.cargo_build([BIN])
    if not ok:
        lib.log(out[-4000:])
        ctx.broken.append("harness c14 does not build against the current tree: " + lib._first_errors(out))
    ctx.proof_stage()
    if not ok:
        return
    cases = gen_cases(ctx)
    # the shell-level part (binaries, bash, export) on a share of the cases; the in-process part on all
    nshell = ctx.size(450, 5000)
    rng = random.Random(ctx.seed + 99)
    idx = list(range(len(cases)))
    corpus_n = sum(1 for c in cases if c[0] == "corpus")
    chosen = set(idx[:corpus_n]) | set(rng.sample(idx[corpus_n:], min(nshell, len(idx) - corpus_n)))
    a = [cases[i] for i in idx if i in chosen]
    b = [cases[i] for i in idx if i not in chosen]
    nviol = [0]
    res = evaluate(ctx, a, True) + evaluate(ctx, b, False)
    for r in res:
        judge(ctx, r, nviol)
    context_sweep(ctx, nviol)
    for r in res[corpus_n:corpus_n + 2] + res[-2:]:
        ctx.sample({"source": r["src"], "printed": unesc(r["h"].get("P1", "%")), "features": sorted(r["fs"])})
    ctx.cov["rule"] = ("function bodies drawn from the program grammar (every compound command, redirect kinds and counts with "
                       "optional fd numbers, here-documents, process substitutions, case terminators, !/time pipelines, nested "
                       "definitions, arithmetic commands): a fixed-seed stream of small trees plus a seeded stream of larger ones, "
                       "rendered to source in six layouts; non-trivial = source longer than 30 characters; distinct by source text; "
                       "%d cases also go through the brush/bash binaries (declare -f, type, re-definition, calls, export -f)" % len(a))
    ctx.assumptions += ["words are opaque raw text in the model (as in the AST); the lexer theorem covers plain words only",
                        "the model's token-level parser is a parser for the printed layout, not a model of peg.rs; brush's real parser is exercised directly",
                        "behaviour is compared on scripted leaves (helper functions p/n, echo, redirections into a scratch directory)"]


# ------------------------------------------------------------------------------------------------
# context sweep: defined anywhere, printed by every printer in every context, re-read by every reader

# new defect classes met by the sweep: (clause, predicate on (failure kind, clause feature, option))
SWEEP_CLAUSES = [
    ("alias_in_body_expanded_at_call", lambda kind, feat, j: j[4] == "alias_in_body" and kind.startswith("reader:child_bash")),
    # repaired, now tripwires (compared with bash as positive cases; a return of the old behaviour is a VIOLATION):
    # command_V_ignores_functions, export_f_lists_variables, exported_function_attribute_not_shown
    # `$( … case x in pat) … esac … )`: the `)` of a pattern written without its `(` ends the substitution
    ("case_pattern_ends_command_substitution",
     lambda kind, feat, j: kind == "not_defined" and j[3] == "cmdsubst" and j[1] % 2 == 0 and "k_case" in g.features(j[0])),
]


def sweep_jobs(ctx):
    """(tree, style, hdr, define, option, has_self): every define context and every option; in-domain trees only"""
    rng = random.Random(ctx.seed * 104729 + 5)
    combos = []
    if ctx.quick:
        for i in range(ctx.size(100, 0)):
            combos.append((c14ctx.DEFINES[i % len(c14ctx.DEFINES)],
                           c14ctx.OPTIONS[(i * 7 + i // len(c14ctx.DEFINES)) % len(c14ctx.OPTIONS)][0]))
    else:
        for rep in range(6):
            for dname in c14ctx.DEFINES:
                for oname, _ in c14ctx.OPTIONS:
                    combos.append((dname, oname))
    jobs = []
    i = 0
    while len(jobs) < len(combos):
        G = g.Gen(rng, rng.randint(2, 10))
        t = G.fdef()
        if feats(t) & {"heredoc", "multiline_word"}:      # recorded clauses (a multi-line word gets indented as soon as an
            # import wraps the body in braces): covered by the top-level families only
            continue
        define, option = combos[len(jobs)]
        has_self = False
        st = c14ctx.self_tree(t)
        if st is not None and i % 2 == 0:
            t, has_self = st, True
        if option == "alias_in_body":
            at = c14ctx.alias_tree(t)
            if at is None:
                option = "expand_aliases"
            else:
                t = at
        jobs.append((t, i % 6, i % 3, define, option, has_self))
        i += 1
    return jobs


def sweep_case(j):
    return {"ctx": True, "tree": enc(j[0]), "style": j[1], "hdr": j[2], "define": j[3], "option": j[4], "has_self": j[5]}


def sweep_judge(ctx, j, src, res, m, nviol):
    md = dict(x.split("=", 1) for x in m.split(" ") if "=" in x)
    fails, notes = c14ctx.judge_one(res, unesc(md["P"]) if "P" in md else None, unesc(md["W"]) if "W" in md else None,
                                    j[3], j[4], j[5])
    ctx.count(("ctx", src, j[3], j[4]), nontrivial=True, bucket="ctx_sweep")
    ctx.bucket("ctx_define_" + j[3])
    ctx.bucket("ctx_option_" + j[4])
    for n_ in notes:
        ctx.bucket("ctx_note_" + n_.split("/")[0])
    if "bash_does_not_define_here" not in notes and "timeout" not in notes:
        ctx.impl_validated += 1
    case = dict(sweep_case(j), source=src)
    seen = set()
    for kind, feat, what, detail in fails:
        clause = next((c for c, pred in SWEEP_CLAUSES if pred(kind, feat, j)), None)
        d = {"failure": kind, "define_context": j[3], "option": j[4], "detail": detail}
        if clause is not None:
            ctx.known_or_violation(clause, what, case, d)
        elif (kind.split("/")[0]) not in seen and nviol[0] < 10:
            seen.add(kind.split("/")[0])
            nviol[0] += 1
            ctx.violation("[context sweep: defined %s, option %s] %s" % (j[3], j[4], what), case, d)
    return fails


def context_sweep(ctx, nviol):
    jobs = sweep_jobs(ctx)
    outs = lib.pmap(c14ctx.run_one, jobs, workers=min(lib.NCPU, 8))
    mouts = lib.run_drv_parallel(["C14 " + g.wire(j[0]) for j in jobs], workers=min(lib.NCPU, 8))
    for j, (src, res), m in zip(jobs, outs, mouts):
        sweep_judge(ctx, j, src, res, m, nviol)
    if jobs:
        ctx.sample({"context_sweep": {"define": jobs[0][3], "option": jobs[0][4], "source": outs[0][0]}})
    ctx.cov["context_sweep"] = ("%d sampled in-domain trees, each DEFINED in one of %d places (%s) under one of %d option settings (%s), "
                                "PRINTED by %d printers (%s; after export also %s) in %d contexts (%s, plus an EXIT trap and the function printing "
                                "itself) and RE-READ by eval, source, a function that sources, a command substitution, a child brush and a child "
                                "bash (and brush's text by bash; bash's export by a child brush); the same script text runs under bash"
                                % (len(jobs), len(c14ctx.DEFINES), ", ".join(c14ctx.DEFINES), len(c14ctx.OPTIONS),
                                   ", ".join(o for o, _ in c14ctx.OPTIONS), len(c14ctx.PRINTERS), ", ".join(c for _, c in c14ctx.PRINTERS),
                                   ", ".join(c for _, c in c14ctx.EXPORT_PRINTERS), len(c14ctx.CONTEXTS), ", ".join(c14ctx.CONTEXTS)))


def replay_sweep(ctx, case):
    j = (dec(case["tree"]), case["style"], case["hdr"], case["define"], case["option"], case["has_self"])
    src, res = c14ctx.run_one(j)
    m = lib.run_drv(["C14 " + g.wire(j[0])])[0]
    md = dict(x.split("=", 1) for x in m.split(" ") if "=" in x)
    fails, notes = c14ctx.judge_one(res, unesc(md["P"]), unesc(md["W"]), j[3], j[4], j[5])
    print("defined: %s   option: %s\nsource:\n%s" % (j[3], j[4], src))
    print("brush `declare -f f` there:\n%s\nbash:\n%s" % (res["brush"].get("o_declare_f_name_top"), res["bash"].get("o_declare_f_name_top")))
    for kind, feat, what, detail in fails:
        print("FAILS [%s]: %s\n   %s" % (kind, what, detail))
    print("notes:", notes)
    if not fails:
        print("property holds on this case")
    return 1 if fails else 0


def replay(ctx, rp):
    ok, out = lib.cargo_build([BIN])
    case = rp["case"]
    if case.get("ctx"):
        return replay_sweep(ctx, case)
    t = dec(case["tree"])
    c = [("replay", t, case.get("style", 0), case.get("norun", False))]
    r = evaluate(ctx, c, True)[0]
    print("source:\n" + r["src"])
    print("brush prints:\n" + unesc(r["h"].get("P1", "%")))
    md = dict(x.split("=", 1) for x in r["m"].split(" ") if "=" in x)
    print("model prints:\n" + unesc(md.get("P", "%")))
    print("harness:", {k: v for k, v in r["h"].items() if k not in ("P1", "P2", "P3")})
    if r["h"].get("D") != "ok":
        return 1
    fl = failures(r["h"], r["sh"], r["norun"], t[2][0] == "brace", unesc(md["W"]) if "W" in md else None)
    print("exported text:\n%s\nmodel:\n%s" % (unesc(r["h"].get("X", "%")), unesc(md.get("X", "%"))))
    if r["sh"]:
        print("bash prints the source as:\n%s\nbash prints brush's text as:\n%s" % (r["sh"]["BP0"], r["sh"]["BP1"]))
    for k, v in fl.items():
        print("property fails [%s]: %s (clause: %s)" % (k, v, explain(k, r["fs"])))
    if not fl:
        print("property holds on this case")
    return 1 if (fl or md.get("P") != r["h"]["P1"] or md.get("X") != r["h"].get("X")) else 0
