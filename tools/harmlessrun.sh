#!/bin/bash
# tools/harmlessrun.sh <group> <property>... : fresh worktree of /repo HEAD + the stored behaviour-preserving refactor
# (seeded/harmless/<group>/all.diff), run the check(s) against it; every check is expected to exit 0 with no VIOLATION.
g=$1; shift
wt=/tmp/hr-$g
git -C /repo worktree remove --force $wt 2>/dev/null
git -C /repo worktree add -q $wt HEAD || exit 2
( cd $wt && git apply --3way /verif/seeded/harmless/$g/all.diff ) >/dev/null 2>&1 || { echo "harmless $g: patch does not apply to HEAD"; git -C /repo worktree remove --force $wt; exit 3; }
cd /verif
for p in "$@"; do
  out=$(VERIF_REPO=$wt ./check $p 2>&1 | grep -v "^KNOWN")
  nv=$(echo "$out" | grep -c "^VIOLATION")
  echo "harmless $g vs $p: $nv VIOLATION lines; $(echo "$out" | tail -1)"
  echo "$out" | grep "^VIOLATION" | head -3
done
tools/mutclean $wt; git -C /repo worktree remove --force $wt
