"""C06 — parameter-expansion operators compute bash's result for every value and operand.

A case is a structured triple (parameter with its state, operator, operand).  It is rendered
 (a) to shell text  -> brush in-process (harness bin c06: Shell::full_expand_and_split_string),
                       bash (oracle; thousands of cases per bash process), and a sample through the brush binary;
 (b) to a wire line -> the Lean driver, which answers with the Impl model's outcome (mirror of brush's code),
                       the Spec outcome (bash reference semantics) and the domain guards the case falls outside of.
Pattern substitution (`/ // /# /%`), case modification (`^ ^^ , ,,`) and `@U @L @u` go through the same four-way
comparison (Model/ParamSubst.lean over C08's regex model, Spec/ParamSubst.lean over C08's bash matching relation).
Operators the Lean model does not cover (keys, prefix names, @Q @E @P @a @A @K) are run property-direct: brush against bash.
"""
import itertools
import json
import os
import re
import subprocess
import lib
from lib import esc, unesc

BIN = "c06"
PROP = "C06"

# ----------------------------------------------------------------------------------------------
# structured cases
#
# param: ("named", val|None, how)     how in {"unset","declared"} when val is None
#        ("elem", val|None, exists, assoc)
#        ("all", [vals], star, assoc)
#        ("posall", [vals], star)
#        ("pos", val|None)
# op:    ("plain",) ("len",) ("sub", off, len|None, offtxt, lentxt) ("test", k, colon, word) ("rm", k, pat|None)
# pat:   list of ("L", c, style) | ("Q",) | ("S",) | ("B", neg, chars)

ALPHA = ["a", "b", " ", "\n", "*", "é"]


def sq(s):
    return "'" + s.replace("'", "'\\''") + "'"


def render_param(p):
    """-> (setup text, name inside the braces, probe)"""
    k = p[0]
    if k == "named":
        _, v, how = p
        if v is not None:
            return "v=" + sq(v), "v", "v"
        return ("declare v" if how == "declared" else "unset v"), "v", "v"
    if k == "elem":
        _, v, exists, assoc = p
        if assoc:
            if v is not None:
                return "declare -A A=([x]=q [k]=%s)" % sq(v), "A[k]", "A[k]"
            return ("declare -A A=([x]=q)" if exists else "unset A"), "A[k]", "A[k]"
        if v is not None:
            return "a=(q %s r)" % sq(v), "a[1]", "a[1]"
        return ("a=(q)" if exists else "unset a"), "a[1]", "a[1]"
    if k == "all":
        _, vals, star, assoc = p
        if assoc:  # at most one key (bash orders by hash)
            return "declare -A A=(%s)" % " ".join("[k%d]=%s" % (i, sq(v)) for i, v in enumerate(vals)), "A[*]" if star else "A[@]", "-"
        return "a=(%s)" % " ".join(sq(v) for v in vals), "a[*]" if star else "a[@]", "-"
    if k == "posall":
        _, vals, star = p
        return "set -- " + " ".join(sq(v) for v in vals), "*" if star else "@", "-"
    if k == "pos":
        _, v = p
        return ("set -- " + sq(v)) if v is not None else "set --", "1", "-"
    raise ValueError(p)


def wire_param(p):
    k = p[0]
    if k == "named":
        return "N " + esc(p[1]) if p[1] is not None else "N!"
    if k == "elem":
        return "E " + esc(p[1]) if p[1] is not None else ("E!1" if p[2] else "E!0")
    if k == "pos":
        return "D " + esc(p[1]) if p[1] is not None else "D!"
    if k == "all":
        return "A%s %d %s" % ("*" if p[2] else "@", len(p[1]), " ".join(esc(v) for v in p[1]))
    if k == "posall":
        return "P%s %d %s" % ("*" if p[2] else "@", len(p[1]), " ".join(esc(v) for v in p[1]))
    raise ValueError(p)


def render_pat(pat):
    out = []
    for e in pat:
        if e[0] == "L":
            c, style = e[1], e[2]
            if c in "*?[]\\":
                out.append('"%s"' % c if style == "dq" else "\\" + c)
            else:
                out.append(c)
        elif e[0] == "Q":
            out.append("?")
        elif e[0] == "S":
            out.append("*")
        else:
            out.append("[" + ("!" if e[1] else "") + e[2] + "]")
    return "".join(out)


def wire_pat(pat):
    out = []
    for e in pat:
        if e[0] == "L":
            out.append("L" + e[1])
        elif e[0] == "Q":
            out.append("Q")
        elif e[0] == "S":
            out.append("S")
        else:
            out.append("B" + ("-" if e[1] else "+") + e[2] + ";")
    return esc("".join(out))


def render_op(name, op):
    k = op[0]
    if k == "plain":
        return '"${%s}"' % name
    if k == "len":
        return '"${#%s}"' % name
    if k == "sub":
        _, off, ln, offtxt, lentxt = op
        return '"${%s:%s%s}"' % (name, offtxt, "" if ln is None else ":" + lentxt)
    if k == "test":
        _, t, colon, word = op
        return '"${%s%s%s%s}"' % (name, ":" if colon else "", t, word)
    if k == "rm":
        _, t, pat = op
        return '"${%s%s%s}"' % (name, t, "" if pat is None else render_pat(pat))
    if k == "rmx":
        return '"${%s%s%s}"' % (name, op[1], op[2])
    if k == "rp":
        _, ext, kind, style, ptxt, atoms = op
        if style == "v":
            return '"${%s%s%s/$r}"' % (name, kind, ptxt)
        if style == "n":        # `${v/p}`: no replacement at all
            return '"${%s%s%s}"' % (name, kind, ptxt)
        return '"${%s%s%s/%s}"' % (name, kind, ptxt, render_atoms_inline(atoms))
    if k == "cm":
        return '"${%s%s%s}"' % (name, op[1], "" if op[2] is None else op[2])
    if k == "tr":
        return '"${%s@%s}"' % (name, op[1])
    raise ValueError(op)


# replacement atoms: ("L", c) a literal character, ("A",) an unquoted `&` (the matched text)
def render_atoms_inline(atoms):
    out = []
    for a in atoms:
        if a[0] == "A":
            out.append("&")
        elif a[1] in "&\\$":
            out.append("\\" + a[1])
        else:
            out.append(a[1])
    return "".join(out)


def bash_template(atoms):
    """the replacement as bash's pat_subst wants it after expansion: `\\&` a literal `&`, `\\\\` a backslash"""
    out = []
    for a in atoms:
        if a[0] == "A":
            out.append("&")
        elif a[1] in "&\\":
            out.append("\\" + a[1])
        else:
            out.append(a[1])
    return "".join(out)


def wire_atoms(atoms):
    return esc("".join("A" if a[0] == "A" else "L" + a[1] for a in atoms))


def wire_op(op):
    k = op[0]
    if k in ("plain", "len"):
        return k
    if k == "sub":
        return "sub %d %s" % (op[1], "-" if op[2] is None else str(op[2]))
    if k == "test":
        return "t %s %d %s" % (op[1], 1 if op[2] else 0, esc(op[3]))
    if k == "rm":
        return "rm %s %s" % (op[1], "!" if op[2] is None else wire_pat(op[2]))
    if k == "rmx":
        return "rmx %s %s" % (op[1], esc(op[2]))
    if k == "rp":
        _, ext, kind, style, ptxt, atoms = op
        return "rp %d %s %s %s %s" % (1 if ext else 0, kind, "v" if style == "v" else "i", esc(ptxt), wire_atoms(atoms))
    if k == "cm":
        return "cm %s %s" % (op[1], "!" if op[2] is None else esc(op[2]))
    if k == "tr":
        return "tr " + op[1]
    raise ValueError(op)


class Case:
    __slots__ = ("tag", "param", "op", "nounset", "setup", "word", "probe", "wire", "feat", "no_oracle", "ref", "parts")

    def __init__(self, tag, param, op, nounset=False):
        self.tag, self.param, self.op, self.nounset = tag, param, op, nounset
        setup, name, probe = render_param(param)
        ext = op[0] == "rmx" or (op[0] == "rp" and op[1])
        if op[0] == "rp" and op[3] == "v":
            setup += "\nr=" + sq(bash_template(op[5]))
        self.parts = ("shopt -s extglob\n" if ext else "", setup, "\nset -u" if nounset else "")
        if ext:
            setup = "shopt -s extglob\n" + setup
        if nounset:
            setup += "\nset -u"
        self.setup, self.word, self.probe = setup, render_op(name, op), probe
        self.wire = "C06 %d %s %s" % (1 if nounset else 0, wire_param(param), wire_op(op))
        self.feat = op[0]
        self.no_oracle = False

    def key(self):
        return (self.setup, self.word)

    def as_json(self):
        return {"setup": self.setup, "word": self.word, "probe": self.probe, "wire": self.wire}


REF_SETUP = {"ok": None, "unset": "unset r", "empty": "r=", "bad": "r='1x'"}


class IndCase(Case):
    """the operator through a reference: `${!r<op>}` where r holds the text of the target parameter
    (ok), or is unset / empty / holds text that is no parameter.  The probe reports the target."""

    def __init__(self, tag, target, op, nounset=False, ref="ok"):
        self.tag, self.param, self.op, self.nounset = tag, target, op, nounset
        setup, name, probe = render_param(target)
        self.parts = ("", setup, "\n" + (REF_SETUP[ref] or "r=" + sq(name)) + ("\nset -u" if nounset else ""))
        setup += "\n" + (REF_SETUP[ref] or "r=" + sq(name))
        if nounset:
            setup += "\nset -u"
        self.setup, self.word, self.probe = setup, render_op("!r", op), probe
        self.wire = "C06 %d IND %s %s %s" % (1 if nounset else 0, ref, wire_param(target), wire_op(op))
        self.feat = "ind-" + op[0]
        self.ref = ref
        # bash's own `${!r…}` with r naming a[@] / a[*] / @ / * is not `${a[@]…}` (empty lists under nounset, a single
        # null element, $0 in slices, the $* join): list references are tied to the model only
        self.no_oracle = ref == "ok" and target[0] in ("all", "posall")


class Direct:
    """a case outside the Lean model's coverage: brush against bash only"""
    __slots__ = ("tag", "setup", "word", "probe", "wire", "feat")

    def __init__(self, feat, setup, word, probe="-"):
        self.tag, self.feat, self.setup, self.word, self.probe, self.wire = "direct", feat, setup, word, probe, None

    def key(self):
        return (self.setup, self.word)

    def as_json(self):
        return {"setup": self.setup, "word": self.word, "probe": self.probe, "wire": None, "feature": self.feat}


# ----------------------------------------------------------------------------------------------
# running

BASH_PRELUDE = r"""pf() { printf '%d\0' $#; [ $# -gt 0 ] && printf '%s\0' "$@"; }
"""


def probe_text(probe):
    if probe == "-":
        return "printf N"
    return 'if [ "${%s+x}" ]; then printf \'S%%s\' "${%s}"; else printf U; fi' % (probe, probe)


def batch_script(cases):
    parts = [BASH_PRELUDE]
    for c in cases:
        parts.append("(%s\nprintf '\\1F'; pf %s; printf '\\1P'; set +u; %s) 2>/dev/null\nprintf '\\1X%%d\\1\\n' $?\n"
                     % (c.setup, c.word, probe_text(c.probe)))
    return "".join(parts)


CASE_RE = re.compile(r"(?:\x01F(.*?))?(?:\x01P(.*?))?\x01X(\d+)\x01\n", re.S)


def parse_batch(out, n):
    res = []
    for m in CASE_RE.finditer(out):
        f, p, _rc = m.group(1), m.group(2), m.group(3)
        if p is None:
            # the expansion failed: the subshell was abandoned before the probe
            res.append("ERR")
            continue
        parts = f.split("\0")
        try:
            cnt = int(parts[0])
            fields = parts[1:1 + cnt]
        except ValueError:
            res.append("GARBLED")
            continue
        head = " ".join(["OK"] + [esc(x) for x in fields])
        if p == "N":
            tail = ";N"
        elif p == "U":
            tail = ";U"
        else:
            tail = ";S " + esc(p[1:])
        res.append(head + " " + tail)
    if len(res) != n:
        res = (res + ["<shell-died>"] * n)[:n]
    return res


def run_shell_batch(which, cases, timeout=600):
    if not cases:
        return []
    script = batch_script(cases)
    base = [lib.BRUSH, "--norc", "--noprofile", "--no-config"] if which == "brush" else [lib.BASH, "--norc", "--noprofile"]
    try:
        p = lib.sp_run(base + ["-c", script, "sh0"], stdin=subprocess.DEVNULL, stdout=subprocess.PIPE,
                           stderr=subprocess.DEVNULL, env=dict(lib.BASE_ENV), timeout=timeout)
        out = p.stdout.decode("utf-8", "replace")
    except subprocess.TimeoutExpired:
        out = ""
    return parse_batch(out, len(cases))


def run_shell_parallel(which, cases, per=400):
    chunks = [cases[i:i + per] for i in range(0, len(cases), per)]
    rs = lib.pmap(lambda ch: run_shell_batch(which, ch), chunks)
    return [x for r in rs for x in r]


def run_inproc(cases):
    lines = ["%s %s %s" % (esc(c.setup), esc(c.word), esc(c.probe)) for c in cases]
    return lib.run_vh_parallel(BIN, lines)


def head(r):
    return r.split(" ;")[0]


def same(a, b):
    """outcomes equal; a failed expansion's probe is not compared (the shell is gone)"""
    if head(a) in ("ERR", "PANIC") or head(b) in ("ERR", "PANIC"):
        return head(a) == head(b)
    return a == b


# ----------------------------------------------------------------------------------------------
# generators

def strings(alpha, maxlen):
    for n in range(maxlen + 1):
        for t in itertools.product(alpha, repeat=n):
            yield "".join(t)


INT_EXTREMES = [9223372036854775807, -9223372036854775807, 4294967296, -4294967296]


def int_text(rng, n, first):
    """an arithmetic expression whose value is n (C07 owns arithmetic; these are plain forms)"""
    forms = ["%d", "(%d)", "%d+0", "1*%d"]
    t = (rng.choice(forms) if rng else forms[0]) % n
    if first and t.startswith("-"):
        t = " " + t
    return t


def sub_op(off, ln, rng=None):
    return ("sub", off, ln, int_text(rng, off, True), None if ln is None else int_text(rng, ln, False))


PAT_ELEMS = [("L", "a", ""), ("L", "b", ""), ("Q",), ("S",), ("B", False, "ab"), ("B", True, "a"),
             ("L", "*", "bs"), ("L", "*", "dq"), ("L", " ", ""), ("L", "\n", ""), ("L", "é", "")]
RM_KINDS = ["#", "##", "%", "%%"]
TEST_KINDS = ["-", "=", "?", "+"]


def scalar_params(v):
    """every way the model's `named/elem/pos` parameter can hold v (None = unset)"""
    if v is None:
        return [("named", None, "unset"), ("named", None, "declared"), ("elem", None, True, False),
                ("elem", None, False, False), ("elem", None, True, True), ("pos", None)]
    return [("named", v, ""), ("elem", v, True, False), ("elem", v, True, True), ("pos", v)]


def exhaustive(ctx):
    out = []
    thorough = not ctx.quick
    # ${#v}
    for v in strings(ALPHA, 3):
        out.append(Case("exh", ("named", v, ""), ("len",)))
    for v in [None, "", "é", "a é"]:
        for p in scalar_params(v):
            for nu in (False, True):
                out.append(Case("exh", p, ("len",), nu))
                out.append(Case("exh", p, ("plain",), nu))
    lists = [[], [""], ["", ""], ["a"], ["", "a"], ["a b", "é", "*"], ["x", "y", "z", "w"]]
    for vals in lists:
        for star in (False, True):
            for nu in (False, True):
                ps = [("all", vals, star, False), ("posall", vals, star)] + ([("all", vals, star, True)] if len(vals) <= 1 else [])
                for p in ps:
                    out.append(Case("exh", p, ("len",), nu))
                    out.append(Case("exh", p, ("plain",), nu))
    # ${v:o:l}
    rng_o = range(-5, 6)
    lens = [None] + list(range(-5, 6))
    for v in strings(["a", "é", "\n"], 3 if ctx.quick else 4):
        for off in rng_o:
            for ln in lens:
                out.append(Case("exh", ("named", v, ""), sub_op(off, ln)))
    for v in ["abcdef", "aé b*"]:
        for off in list(range(-8, 9)) + INT_EXTREMES:
            for ln in [None] + list(range(-8, 9)) + INT_EXTREMES:
                out.append(Case("exh", ("named", v, ""), sub_op(off, ln)))
    for v in [None, "ab"]:
        for p in scalar_params(v):
            for nu in (False, True):
                for off, ln in [(0, None), (1, 1), (-1, None), (1, -1), (0, -3)]:
                    out.append(Case("exh", p, sub_op(off, ln), nu))
    for vals in [[], ["p"], ["p", "q r"], ["p", "", "é"], ["x", "y", "z", "w"]]:
        for star in (False, True):
            for off in rng_o:
                for ln in lens:
                    out.append(Case("exh", ("all", vals, star, False), sub_op(off, ln)))
                    out.append(Case("exh", ("posall", vals, star), sub_op(off, ln)))
    # - = ? +
    words = ["", "w", "a b", "*", "é\n"]
    for t in TEST_KINDS:
        for colon in (False, True):
            for w in words:
                for nu in (False, True):
                    for v in [None, "", "a", " ", "\n", "é*"]:
                        for p in scalar_params(v):
                            out.append(Case("exh", p, ("test", t, colon, w), nu))
                    for vals in lists:
                        for star in (False, True):
                            out.append(Case("exh", ("all", vals, star, False), ("test", t, colon, w), nu))
                            out.append(Case("exh", ("posall", vals, star), ("test", t, colon, w), nu))
                            if len(vals) <= 1 and t != "=":   # bash assigns A[@] as the key "@" (not modelled)
                                out.append(Case("exh", ("all", vals, star, True), ("test", t, colon, w), nu))
    # # ## % %%
    pats = [[]] + [[e] for e in PAT_ELEMS] + [[e, f] for e in PAT_ELEMS for f in PAT_ELEMS]
    if thorough:
        core = [("L", "a", ""), ("Q",), ("S",), ("B", True, "a"), ("L", "*", "bs"), ("L", "\n", "")]
        pats += [[e, f, g] for e in core for f in core for g in core]
    vals_rm = list(strings(["a", "b", "*"], 3)) + ["a\nb", "\na", "a\n", "é", "aé", "a b", "ab\n\nab", "abab"]
    if thorough:
        vals_rm += list(strings(["a", "\n", "é"], 4))
    for pat in pats:
        for k in RM_KINDS:
            for v in vals_rm:
                out.append(Case("exh", ("named", v, ""), ("rm", k, pat)))
    for k in RM_KINDS:
        for pat in [None, [("S",)], [("L", "a", ""), ("S",)], [("Q",)]]:
            for nu in (False, True):
                for v in [None, ""]:
                    for p in scalar_params(v):
                        out.append(Case("exh", p, ("rm", k, pat), nu))
                for vals in [[], ["ab", "ba", ""], ["a*", "é a"]]:
                    for star in (False, True):
                        out.append(Case("exh", ("all", vals, star, False), ("rm", k, pat), nu))
                        out.append(Case("exh", ("posall", vals, star), ("rm", k, pat), nu))
    return out


# -- extglob groups whose alternatives are prefixes / suffixes of one another ---------------------

XKINDS = ["@", "+", "*", "?", "!"]
XALTS = [["a", "ab"], ["ab", "a"], ["a", "aa"], ["aa", "a"], ["b", "ab"], ["ab", "b"], ["a", "ba"], ["a", "b"],
         ["a"], ["ab"], ["a", "ab", "abb"], ["b", "bab", "ba"]]
XWRAP = [("", ""), ("b", ""), ("", "b"), ("*", ""), ("", "*")]
XWRAP_MORE = [("a", ""), ("", "a"), ("?", ""), ("", "?"), ("a", "b"), ("b", "a"), ("*", "b"), ("a", "*")]


def xpat(kind, alts, pre="", post=""):
    return "%s%s(%s)%s" % (pre, kind, "|".join(alts), post)


def extglob_exhaustive(ctx):
    out = []
    wraps = XWRAP + ([] if ctx.quick else XWRAP_MORE)
    vals = list(strings(["a", "b"], 4)) + ["aabab", "ababa", "abbab", "babab"]
    if not ctx.quick:
        vals = list(strings(["a", "b"], 5)) + ["ababab", "aabbab"]
    for kind in XKINDS:
        for alts in XALTS:
            for pre, post in wraps:
                if kind == "!" and ("*" in pre + post or "?" in pre + post):
                    continue    # bash's own `*!(…)` / `!(…)*` is not the complement either; keep the oracle clean
                pt = xpat(kind, alts, pre, post)
                for k in RM_KINDS:
                    for v in vals:
                        out.append(Case("xexh", ("named", v, ""), ("rmx", k, pt)))
    # the seeded-regression witnesses and list parameters
    for v, pt in [("abc", "@(a|ab)"), ("aab", "+(a|ab)"), ("foobar", "!(foo)"), ("abcabc", "+(a|ab|abc)"),
                  ("/usr/local/bin/x", "+(/|/usr)"), ("abc", "?(a|ab)"), ("abab", "*(a|ab)b")]:
        for k in RM_KINDS:
            out.append(Case("xexh", ("named", v, ""), ("rmx", k, pt)))
            out.append(Case("xexh", ("all", [v, "ab", ""], False, False), ("rmx", k, pt)))
            out.append(Case("xexh", ("posall", [v, "ba"], True), ("rmx", k, pt)))
    return out


def rand_xpat(rng, depth=0):
    words = ["a", "b", "ab", "ba", "aa", "abb", "aab", "?", "a*", "[ab]", "é"]   # no empty alternative (bash quirks)
    n = rng.randint(1, 3)
    alts = []
    for _ in range(n):
        if depth == 0 and rng.random() < 0.15:
            alts.append(rng.choice(["a", "b"]) + rand_xpat(rng, 1))
        else:
            alts.append(rng.choice(words))
    if rng.random() < 0.5 and len(alts) >= 2:      # force a prefix/suffix relation
        alts[1] = alts[0] + rng.choice(["a", "b"]) if rng.random() < 0.5 else rng.choice(["a", "b"]) + alts[0]
    kind = rng.choice(XKINDS)
    outer = ["", "", "a", "b"] + ([] if (kind == "!" or "!(" in "".join(alts)) else ["*", "?"])
    pre, post = rng.choice(outer), rng.choice(outer)
    return xpat(kind, alts, pre if depth == 0 else "", post if depth == 0 else "")


# -- adjacent extglob groups without `|`: greedy is not longest when the first group can swallow the start of what the
#    next one needs (`?(a)?(ab)` on `ab`), so a single greedy search is not the candidate scan --------------------------

ADJ_KINDS = ["?", "*", "+", "@"]
ADJ_BODIES = ["a", "b", "ab", "ba", "aé"]
ADJ_TRIPLES = ["@(a)?(b)?(bc)", "?(a)?(ab)?(abb)", "*(a)*(ab)+(abb)", "?(a)*(ab)?(abab)", "?(abb)?(bb)?(b)", "*(bab)*(ab)*(b)",
               "+(a)?(ab)*(b)", "?(a)?(aé)?(aéa)", "?(x)?(x.tar)", "*(/usr)*(/usr/lib)", "?(é)?(éa)", "?(aé)?(é)"]
ADJ_VALUES = ["", "a", "b", "ab", "ba", "aab", "abb", "aba", "bab", "abab", "abba", "aé", "aaé", "aéa", "aéb", "éa", "abc", "abbc",
              "ababab", "x.tar.gz", "/usr/lib/x", "aé日"]


def adjacent_related_pairs():
    out = []
    for x in ADJ_BODIES:
        for y in ADJ_BODIES:
            if x != y and (y.startswith(x) or x.startswith(y) or y.endswith(x) or x.endswith(y)):
                out.append((x, y))
    return out


def adjacent_exhaustive(ctx):
    out = []
    wraps = [("", ""), ("", "b")] + ([] if ctx.quick else [("a", ""), ("", "*"), ("*", ""), ("b", ""), ("", "a"), ("?", ""), ("", "?")])
    values = [v for v in ADJ_VALUES if v not in ("a", "b", "abba", "aéb", "éa", "ababab")] if ctx.quick else ADJ_VALUES
    pats = []
    for x, y in adjacent_related_pairs():
        for k1 in ADJ_KINDS:
            for k2 in ADJ_KINDS:
                for pre, post in wraps:
                    pats.append("%s%s(%s)%s(%s)%s" % (pre, k1, x, k2, y, post))
    pats += ADJ_TRIPLES
    for pt in ADJ_TRIPLES[:7]:
        pats += [pt + "*", "*" + pt, pt + "b", "a" + pt]
    for pt in pats:
        for k in RM_KINDS:
            for v in values:
                out.append(Case("xadj", ("named", v, ""), ("rmx", k, pt)))
    for pt in ["?(a)?(ab)", "*(a)*(ab)", "?(ab)?(b)", "?(a)+(ab)"]:
        for k in RM_KINDS:
            out.append(Case("xadj", ("all", ["ab", "aab", "", "aé"], False, False), ("rmx", k, pt)))
            out.append(Case("xadj", ("posall", ["abab", "ab"], True), ("rmx", k, pt)))
    return out


def rand_adjacent(rng):
    """2-3 adjacent single-alternative groups whose bodies grow at the end (prefix chains) or at the front (suffix chains)"""
    base = rng.choice(["a", "b", "ab", "é", "aé", "ba"])
    bodies = [base]
    grow_end = rng.random() < 0.5
    for _ in range(rng.randint(1, 2)):
        ext = rng.choice(["a", "b", "é", "ab"])
        bodies.append(bodies[-1] + ext if grow_end else ext + bodies[-1])
    if rng.random() < 0.3:
        bodies.reverse()
    pt = "".join("%s(%s)" % (rng.choice(ADJ_KINDS), b) for b in bodies)
    r = rng.random()
    if r < 0.15:
        pt += rng.choice(["a", "b", "*", "?"])
    elif r < 0.3:
        pt = rng.choice(["a", "b", "*", "?"]) + pt
    parts = bodies + ["a", "b", "é"]
    v = "".join(rng.choice(parts) for _ in range(rng.randint(0, 4)))
    return v, pt


def extglob_random(ctx, n):
    rng = ctx.rng
    out = []
    for _ in range(n):
        v = "".join(rng.choice("aabbé") for _ in range(rng.randint(0, 6)))
        out.append(Case("xrand", ("named", v, ""), ("rmx", rng.choice(RM_KINDS), rand_xpat(rng))))
    # adjacent groups without `|` (own generator object: the families above keep their seeds' cases)
    import random as _random
    rng2 = _random.Random("adjacent-%s" % getattr(ctx, "seed", 0))
    for _ in range(n // 3):
        v, pt = rand_adjacent(rng2)
        out.append(Case("xrand", ("named", v, ""), ("rmx", rng2.choice(RM_KINDS), pt)))
    return out


def extglob_direct(ctx):
    """replacement with extglob groups: brush against bash"""
    out = []
    vals = list(strings(["a", "b"], 3 if ctx.quick else 4)) + ["abab", "aabab"]
    for kind in XKINDS:
        for alts in XALTS[:8]:
            pt = xpat(kind, alts)
            for v in vals:
                for form in ("/", "//", "/#", "/%"):
                    out.append(Direct("replace-extglob", "shopt -s extglob\nv=" + sq(v), '"${v%s%s/X}"' % (form, pt)))
    return out


# -- pattern substitution, case modification, value transforms: through the model --------------------

RP_KINDS = ["/", "//", "/#", "/%"]
RP_PATS = ["a", "b", "ab", "ba", "?", "*", "a*", "*b", "a?", "[ab]", "[!a]", "\\*", "\\/", "\\\\", "é", "", "a*b", "??", "*a*", "\\&"]
RP_XPATS = ["@(a|ab)", "@(ab|a)", "+(a|ab)", "?(a)", "*(a|ab)", "!(a)", "+(a)b", "@(a|b)", "a@(b|bb)", "+(ab|a)"]
RP_VALS = ["*a", "a*b", "a/b", "a&b", "a\\b", "éa", "aé", "a b", "abab", "aabab", "a\nb", "abba"]
X, AMP = ("L", "X"), ("A",)
RP_REPS_CORE = [[], [X], [X, AMP], [("L", "$"), ("L", "0")]]
RP_REPS = RP_REPS_CORE + [[AMP], [AMP, AMP], [("L", "&")], [("L", "\\")], [("L", "\\"), AMP], [("L", "/")], [("L", "$"), ("L", "$")],
                          [("L", "$"), ("L", "x")], [("L", "é")], [("L", "$")], [("L", "a"), ("L", "$"), ("L", "0"), ("L", "0"), ("L", "b")],
                          [("L", " "), AMP, ("L", " ")]]


def rp_op(ext, kind, style, ptxt, atoms):
    if kind == "/" and ptxt == "":
        return None              # `${v//r}` is `//` with the pattern r
    if ptxt.startswith("*") and ptxt.endswith("\\*"):
        return None              # bash's quick pre-check reads the final `\*` of `*…\*` as an unquoted star and matches the whole value
    if style == "n" and atoms:
        style = "i"
    return ("rp", ext, kind, style, ptxt, atoms)


CM_FORMS = ["^", "^^", ",", ",,"]
CM_PATS = [None, "", "a", "A", "[ab]", "[!a]", "?", "*", "ab", "a*", "??", "é", "[aB]", "\\*"]
CM_VALS = ["éa", "Éa", "ßa", "aß", "a b", "ab ab", "aB cD", "ÿ", "µ", "a*", " a", "a\nb", "AB AB", "\ta b", "a  b"]


def subst_exhaustive(ctx):
    out = []

    def add(param, op, nu=False):
        if op is not None:
            out.append(Case("sexh", param, op, nu))

    vals = list(strings(["a", "b"], 3)) + RP_VALS
    for v in vals:
        for kind in RP_KINDS:
            for pt in RP_PATS:
                for r in RP_REPS_CORE:
                    add(("named", v, ""), rp_op(False, kind, "i", pt, r))
            for pt in RP_XPATS:
                for r in RP_REPS_CORE[:3]:
                    add(("named", v, ""), rp_op(True, kind, "i", pt, r))
    for v in ["", "ab", "aab", "a&b", "a\\b", "éa", "a/b", "abab"]:
        for kind in RP_KINDS:
            for pt in ["a", "?", "*", "a*", "[ab]", "", "\\\\", "é"]:
                for r in RP_REPS:
                    for style in ("i", "v", "n"):
                        add(("named", v, ""), rp_op(False, kind, style, pt, r))
    # every parameter state x nounset
    states = []
    for v in [None, "", "ab"]:
        states += scalar_params(v)
    for vals_ in [[], [""], ["ab", "", "ba"], ["a b", "éa"]]:
        for star in (False, True):
            states += [("all", vals_, star, False), ("posall", vals_, star)]
    for prm in states:
        for nu in (False, True):
            for kind in RP_KINDS:
                for pt, r in [("a", [X]), ("*", [X]), ("?", [AMP, AMP]), ("b", [])]:
                    add(prm, rp_op(False, kind, "i", pt, r), nu)
            for form in CM_FORMS:
                for pt in (None, "a", "[ab]"):
                    add(prm, ("cm", form, pt), nu)
            for t in "ULu":
                add(prm, ("tr", t), nu)
    cvals = list(strings(["a", "b", "A"], 3)) + CM_VALS
    for v in cvals:
        for form in CM_FORMS:
            for pt in CM_PATS:
                add(("named", v, ""), ("cm", form, pt))
        for t in "ULu":
            add(("named", v, ""), ("tr", t))
    return out


def subst_random(ctx, n):
    rng = ctx.rng
    out = []
    valpha = ["a", "a", "b", "b", "A", "*", "/", "&", "\\", "é", " ", "\n", "?"]
    pieces = ["a", "b", "ab", "?", "*", "[ab]", "[!a]", "[!b]", "\\*", "\\/", "\\\\", "é", " ", "\\?", "\\&"]
    xpieces = ["@(a|ab)", "@(ab|a)", "+(a|ab)", "+(ab|b)", "?(a)", "?(ab)", "*(a|ab)", "*(b)", "!(a)", "!(ab)", "@(a|b|ab)", "+(a)", "@(b|ba)"]
    ratoms = [X, X, AMP, ("L", "a"), ("L", "&"), ("L", "\\"), ("L", "/"), ("L", "$"), ("L", "0"), ("L", "x"), ("L", "é"), ("L", " ")]
    for _ in range(n):
        r = rng.random()
        prm = ("named", "".join(rng.choice(valpha) for _ in range(rng.randint(0, 8))), "") if rng.random() < 0.85 else rand_param(rng)
        nu = rng.random() < 0.1
        if r < 0.7:
            ext = rng.random() < 0.35
            pt = "".join(rng.choice(pieces + (xpieces * 2 if ext else [])) for _ in range(rng.randint(1, 3)))
            atoms = [rng.choice(ratoms) for _ in range(rng.randint(0, 3))]
            if any(a == ("L", "$") for a in atoms):
                atoms = [a for a in atoms if a != ("L", "é")]        # the template reader's identifier rule is modelled for ASCII
            style = rng.choice(["i", "i", "v", "n"])
            op = rp_op(ext, rng.choice(RP_KINDS), style, pt, atoms)
            if op is None:
                continue
        elif r < 0.9:
            if prm[0] == "named":
                prm = ("named", "".join(rng.choice(["a", "b", "A", "B", " ", "é", "É", "ß", "*", "\n"]) for _ in range(rng.randint(0, 7))), "")
            pt = rng.choice(CM_PATS + ["[AB]", "b", "B", "a?", "*b", "[!A]"])
            op = ("cm", rng.choice(CM_FORMS), pt)
        else:
            if prm[0] == "named":
                prm = ("named", "".join(rng.choice(["a", "b", "A", " ", "é", "ß", "\t", "\n"]) for _ in range(rng.randint(0, 7))), "")
            op = ("tr", rng.choice("ULu"))
        out.append(Case("srand", prm, op, nu))
    return out


# -- state x operator x nounset x indirection ------------------------------------------------------

def ind_targets():
    ts = []
    for v in [None, "", "ab", "a b", "é*"]:
        ts += scalar_params(v)
    for vals in [[], [""], ["", ""], ["p"], ["p", "q r", ""]]:
        for star in (False, True):
            ts.append(("all", vals, star, False))
            ts.append(("posall", vals, star))
    ts.append(("all", ["x"], False, True))
    return ts


def ind_ops():
    ops = [("plain",)]
    for t in TEST_KINDS:
        for colon in (False, True):
            for w in ("", "w", "a b"):
                ops.append(("test", t, colon, w))
    for k in RM_KINDS:
        for pat in (None, [("S",)], [("L", "a", ""), ("S",)], [("Q",)]):
            ops.append(("rm", k, pat))
    for off, ln in [(0, None), (1, None), (1, 1), (-1, None), (0, 0), (1, -1), (0, -3), (5, None), (-7, 2)]:
        ops.append(sub_op(off, ln))
    return ops


def indirect_exhaustive(ctx):
    out = []
    for t in ind_targets():
        if t[0] == "all" and t[3] and False:
            continue
        for op in ind_ops():
            if op[0] == "test" and op[1] == "=" and t[0] == "all" and t[3]:
                continue        # bash assigns A[@] as the key "@"
            for nu in (False, True):
                out.append(IndCase("iexh", t, op, nu))
    # a reference that cannot be followed: every operator fails, with and without nounset
    for ref in ("unset", "empty", "bad"):
        for t in [("named", "ab", ""), ("named", None, "unset")]:
            for op in ind_ops():
                for nu in (False, True):
                    out.append(IndCase("iexh", t, op, nu, ref))
    return out


def indirect_random(ctx, n):
    rng = ctx.rng
    out = []
    for _ in range(n):
        t = rand_param(rng)
        if t[0] in ("all", "posall") and rng.random() < 0.6:      # list references are tied to the model only: favour scalars
            t = rng.choice(scalar_params(None if rng.random() < 0.3 else rand_value(rng)))
        r = rng.random()
        if r < 0.1:
            op = ("plain",)
        elif r < 0.5:
            op = ("test", rng.choice(TEST_KINDS), rng.random() < 0.5, rand_value(rng, 3))
        elif r < 0.75:
            op = ("rm", rng.choice(RM_KINDS), rand_pat(rng))
        else:
            ln = None if rng.random() < 0.3 else rng.randint(-9, 9)
            op = sub_op(rng.randint(-9, 9), ln, rng)
        if op[0] == "test" and op[1] == "=" and t[0] == "all" and len(t) > 3 and t[3]:
            continue
        ref = "ok" if rng.random() < 0.9 else rng.choice(["unset", "empty", "bad"])
        out.append(IndCase("irand", t, op, rng.random() < 0.5, ref))
    return out


SET_SCALARS = {("v=", "v"), ("v='ab'", "v"), ("a=(q 'ab')", "a[1]"), ("set -- ab", "1"), ("declare -A A=([k]=ab)", "A[k]")}


def unmodelled_state_table(ctx):
    """replacement, case modification and @-transformations over state x nounset x indirection: brush against bash"""
    out = []
    ops = ["/a/X", "//a/X", "/#a/X", "/%b/X", "/a", "^", "^^", ",", ",,", "^^[ab]", "@Q", "@U", "@L", "@E", "@a", "@A"]
    states = [("unset v", "v"), ("v=", "v"), ("v='ab'", "v"), ("declare v", "v"), ("a=(q)", "a[1]"), ("a=(q 'ab')", "a[1]"),
              ("a=()", "a[@]"), ("a=(ab 'b a')", "a[@]"), ("a=(ab 'b a')", "a[*]"), ("set --", "1"), ("set -- ab", "1"),
              ("set -- ab ba", "@"), ("set --", "@"), ("declare -A A=([k]=ab)", "A[k]"), ("declare -A A=([x]=q)", "A[k]")]
    for setup, name in states:
        for op in ops:
            for nu in (False, True):
                tail = "\nset -u" if nu else ""
                attr = op in ("@a", "@A") and (setup, name) not in SET_SCALARS
                out.append(Direct("attr-unset-or-list" if attr else "state-unmodelled", setup + tail, '"${%s%s}"' % (name, op)))
                out.append(Direct("attr-unset-or-list" if attr else "ind-unmodelled", setup + "\nr=" + sq(name) + tail,
                                  '"${!r%s}"' % op))
    for op in ops:
        for nu in (False, True):
            for rs in ("unset r", "r=", "r='1x'"):
                out.append(Direct("ind-unmodelled", rs + ("\nset -u" if nu else ""), '"${!r%s}"' % op))
    return out


def rand_value(rng, maxlen=6):
    return "".join(rng.choice(ALPHA) for _ in range(rng.randint(0, maxlen)))


def rand_param(rng):
    r = rng.random()
    if r < 0.45:
        v = None if rng.random() < 0.1 else rand_value(rng)
        return rng.choice(scalar_params(v))
    vals = [rand_value(rng, 3) for _ in range(rng.randint(0, 5))]
    star = rng.random() < 0.4
    if r < 0.75:
        return ("all", vals, star, False)
    return ("posall", vals, star)


def rand_int(rng):
    r = rng.random()
    if r < 0.8:
        return rng.randint(-9, 9)
    if r < 0.9:
        return rng.choice(INT_EXTREMES)
    return rng.randint(-300, 300)


def rand_pat(rng):
    return [rng.choice(PAT_ELEMS) for _ in range(rng.randint(0, 5))]


def random_cases(ctx, n):
    rng = ctx.rng
    out = []
    for _ in range(n):
        p = rand_param(rng)
        nu = rng.random() < 0.2
        r = rng.random()
        if r < 0.1:
            op = rng.choice([("len",), ("plain",)])
        elif r < 0.4:
            ln = None if rng.random() < 0.3 else rand_int(rng)
            if ln is not None and abs(ln) > 2 ** 40 and p[0] in ("all", "posall"):
                ln = ln // 2 ** 31      # bash's own offset+length overflows on lists; keep it in range
            op = sub_op(rand_int(rng), ln, rng)
        elif r < 0.6:
            op = ("test", rng.choice(TEST_KINDS), rng.random() < 0.5, rand_value(rng, 3))
        else:
            op = ("rm", rng.choice(RM_KINDS), rand_pat(rng))
        out.append(Case("rand", p, op, nu))
    return out


# -- operators outside the Lean model: brush against bash --------------------------------------

def direct_cases(ctx, n):
    rng = ctx.rng
    out = []
    vals = ["", "a", "ab", "abab", "a b", "aXbXa", "éa", "a*b", "Ab cD", "a\nb", "x'y", "a\\tb"]
    pats = ["a", "b", "?", "*", "a*", "*b", "[ab]", "ab", "X", "é", "\\*", " "]
    reps = ["", "Z", "yy", "é", "&"]
    for v in vals:
        s = "v=" + sq(v)
        for p in pats:
            for r in reps[:3]:
                for form in ("/", "//", "/#", "/%"):
                    out.append(Direct("replace", s, '"${v%s%s/%s}"' % (form, p, r)))
            out.append(Direct("replace", s, '"${v/%s}"' % p))
        for form in ("^", "^^", ",", ",,"):
            out.append(Direct("casemod", s, '"${v%s}"' % form))
            for p in ("a", "[ab]", "?", "A"):
                out.append(Direct("casemod-pat", s, '"${v%s%s}"' % (form, p)))
        for t in "QULuEa":
            out.append(Direct("transform-" + t, s, '"${v@%s}"' % t))
        out.append(Direct("transform-A", s, '"${v@A}"'))
        out.append(Direct("indirect", s + "\nr=v", '"${!r}"'))
        out.append(Direct("indirect", s + "\nr=v", '"${!r:-d}"'))
        out.append(Direct("indirect", s + "\nr=v", '"${#r}"'))
    for arr in (["p", "q r", ""], [], ["x"]):
        s = "a=(%s)" % " ".join(sq(x) for x in arr)
        out.append(Direct("keys", s, '"${!a[@]}"'))
        out.append(Direct("keys", s, '"${!a[*]}"'))
        out.append(Direct("indirect", s + "\nr='a[@]'", '"${!r}"'))
        for t in "QULu":
            out.append(Direct("transform-arr-" + t, s, '"${a[@]@%s}"' % t))
        out.append(Direct("replace", s, '"${a[@]/q/Z}"'))
        out.append(Direct("casemod", s, '"${a[@]^^}"'))
    out.append(Direct("keys", "a=([3]=x [7]=y)", '"${!a[@]}"'))
    out.append(Direct("sparse-slice", "a=([3]=x [7]=y [9]=z)", '"${a[@]:4:2}"'))
    # sparse indexed arrays: the offset names an index (negative: from the highest index + 1), the length counts elements
    for setup in ("a=([3]=x [7]=y [9]=z)", "a=([0]=p [5]=q)", "a=(p q r); unset 'a[1]'"):
        for off in range(-12, 13):
            for ln in (None, 0, 1, 2, 5, -1):
                for at in ("@", "*"):
                    out.append(Direct("sparse-slice", setup, '"${a[%s]:%s%s}"' % (at, (" %d" % off) if off < 0 else off,
                                                                                   "" if ln is None else ":%d" % ln)))
    for _ in range(ctx.size(300, 3000)):
        v = "".join(rng.choice(["a", "b", " ", "\n", "é", "A", "\t"]) for _ in range(rng.randint(0, 6)))
        out.append(Direct("transform-u", "v=" + sq(v), '"${v@u}"'))
    # the @-transformations and case modification over adversarial VALUES: every string up to length 2 (3 for @E in
    # thorough) over escape syntax next to multi-byte characters (found missing by seed C06-4: `\` + non-ASCII under @E)
    tv_alpha = ["\\", "n", "x", "4", "1", "u", "c", "e", "0", "'", '"', " ", "a", "B", "\u00e9", "\u65e5", "\U0001f600", "\u0301", "\t"]
    import itertools as _it
    tvals = [""] + ["".join(t) for k in (1, 2) for t in _it.product(tv_alpha, repeat=k)]
    if not ctx.quick:
        tvals += ["".join(t) for t in _it.product(tv_alpha, repeat=3)]
    else:
        tvals += ["".join(rng.choice(tv_alpha) for _ in range(rng.randint(3, 6))) for _ in range(600)]
    for i, v in enumerate(tvals):
        # (@Q / @K / @k print a quoted FORM, which may legitimately differ from bash's as long as it reads back: C13's subject)
        ops = ["@E"] if len(v) > 2 and not ctx.quick else ["@E", "@U", "@L", "@u", "^", "^^", ",", ",,", "@P"]
        for op in (ops if (ctx.quick is False or len(v) <= 1) else ["@E"] + [ops[1 + i % (len(ops) - 1)]]):
            if op == "@P" and ("\\" in v or "'" in v or '"' in v):
                continue        # prompt decoding of arbitrary backslash sequences is C01/C13 ground (and partly time-dependent)
            if op == "@E" and NUL_OR_OVERFLOW_ESCAPE.search(v):
                continue        # domain guard: NUL is outside every generator's domain (bash truncates the value at it), and an
                                # octal escape above \\377 wraps to a byte in bash (`\\400` is NUL)
            out.append(Direct("transform-values", "v=" + sq(v), '"${v%s}"' % op))
    out.append(Direct("keys", "declare -A A=([k]=v)", '"${!A[@]}"'))
    out.append(Direct("prefix-names", "zzq1=1; zzq2=2", '"${!zzq@}"'))
    out.append(Direct("prefix-names", "zzq1=1; zzq2=2", '"${!zzq*}"'))
    out.append(Direct("attrs", "declare -i v=3", '"${v@a}"'))
    out.append(Direct("attrs", "declare -r v=3", '"${v@a}"'))
    out.append(Direct("attrs", "a=(1)", '"${a@a}"'))
    out.append(Direct("attrs", "declare -A A=([k]=v)", '"${A@a}"'))
    return out


# ----------------------------------------------------------------------------------------------
# known divergences of the unmodelled operators (clauses are identified by the triggering feature)

def direct_clause(c, b, o):
    """name of the recorded defect class a brush/bash difference on a direct case belongs to (or None)"""
    if (c.feat in ("transform-u", "transform-arr-u") or (c.feat == "transform-values" and c.word.endswith('@u}"'))) \
            and re.search(r"\s\S", c.setup.split("=", 1)[1]):
        return "at_u_capitalizes_every_word"
    if c.feat == "replace" and "\n" in c.setup and re.search(r"/[#%]", c.word):
        return "pattern_anchors_at_newlines"
    if c.feat == "sparse-slice":
        return "sparse_array_slice_by_position"
    if c.feat == "attr-unset-or-list":
        return "transform_attr_on_unset_or_list"
    mt = re.search(r"([@+*?!])\(([^()]*)\)", c.word)
    if c.feat == "replace-extglob" and mt:
        kind, alts = mt.group(1), mt.group(2).split("|")
        if kind == "!":
            return "extglob_negation_not_complement"
        if kind in "*?":
            return "replace_empty_match_differs"
        if any(alts[j].startswith(alts[i]) and alts[i] != alts[j] for i in range(len(alts)) for j in range(i + 1, len(alts))):
            return "replace_alternation_leftmost_first"
    if c.feat == "rmx" and "!(" in c.word:
        return "extglob_negation_not_complement"
    return None


# ----------------------------------------------------------------------------------------------

# ----------------------------------------------------------------------------------------------
# context sweep: sampled cases re-run (brush binary against bash, identical script text) in other execution
# contexts and under options that should not matter (or that bash is given too)

SWEEP_PRELUDE = r"""pf() { printf '<%d>' $#; local _x; for _x; do printf '[%s]' "$_x"; done; }
"""

# options: the oracle is bash under the same option, so each may be applied to any case
SWEEP_OPTIONS = ["set -u", "set -f", "set -e", "set -E", "set -T", "set +h", "set -C", "shopt -s extglob", "shopt -s nullglob",
                 "shopt -s dotglob", "shopt -s nocasematch", "shopt -s globstar", "shopt -s expand_aliases", "shopt -s lastpipe",
                 "shopt -s inherit_errexit", "shopt -s extglob nocasematch", "set -euf"]
SWEEP_IFS = ["IFS=:", "IFS=", "IFS=' a'", "IFS=$'\\n'", "unset IFS", "IFS=b:"]


def _core(c, word=None):
    return "pf %s; printf '\\2'; set +u; %s" % (word or c.word, probe_text(c.probe))


def sweep_contexts(c, tmpdir, idx):
    """-> list of (context name, script body) for one case; each body runs inside `( … )`"""
    S, W = c.setup, c.word
    core = _core(c)
    body = S + "\n" + core
    out = [("base", body)]
    out.append(("function", "f() {\n%s\n}\nf" % body))
    out.append(("function2", "g() {\n%s\n}\nf() { local zz=1; g \"$@\"; }\nf" % body))
    out.append(("cmdsubst", "o=$(%s\n)\nprintf '%%s' \"$o\"" % body))
    out.append(("eval", "eval " + sq(body)))
    out.append(("eval-word", S + "\neval " + sq(core)))
    out.append(("brace-redirect", "{\n%s\n} 2>/dev/null 3>&1" % body))
    out.append(("lastpipe", "shopt -s lastpipe\n: | {\n%s\n}" % body))
    out.append(("for-body", "for _i in 1 2; do\n%s\ndone" % body))
    out.append(("while-body", "_n=0\nwhile [ $_n -lt 2 ]; do _n=$((_n+1))\n%s\ndone" % body))
    out.append(("!trap-exit", "trap %s EXIT\n%s\nexit 0" % (sq(core), S)))     # `!`: own process (C16-3: no EXIT trap in a subshell)
    out.append(("twice", "%s\n%s\nprintf '\\3'\n%s" % (S, core, body)))
    out.append(("twice-word", "%s\npf %s %s; printf '\\2'; set +u; %s" % (S, W, W, probe_text(c.probe))))
    path = os.path.join(tmpdir, "c%d.sh" % idx)
    with open(path, "w", encoding="utf-8", errors="surrogateescape") as f:
        f.write(body + "\n")
    out.append(("sourced", ". " + sq(path)))
    out.append(("sourced-in-function", "f() { . %s; }\nf" % sq(path)))
    inner = W[1:-1]
    op = getattr(c, "op", None)
    assigns = bool(op and op[0] == "test" and op[1] == "=")
    # lists stay quoted: unquoted $@ / ${a[@]} under a changed IFS is C05's ground (and bash leaks \x01 there with IFS=)
    listy = bool(re.search(r"\[[@*]\]|\{!?[@*]|[@*]\}", W + " " + S))
    if '"' not in inner and "\\" not in inner:
        # (bash expands a here-document body after forking for an external command: an assignment made there is lost)
        if not assigns:
            out.append(("heredoc", "%s\ncat <<EOF_\n[%s]\nEOF_\nprintf '\\2'; set +u; %s" % (S, inner, probe_text(c.probe))))
        # (the assignment word is kept for scalars: bash's null-ness of a one-null-element list differs between `[[ ]]` and `x=`)
        out.append(("cond-case-word", "%s\n[[ -z %s ]]; printf '%%d' $?\n[[ %s == *a* ]]; printf '%%d' $?\n"
                    "case %s in '') printf E;; *' '*) printf S;; *) printf O;; esac\n%sprintf '\\2'; set +u; %s"
                    % (S, inner, inner, inner, "" if listy else "x=%s; printf '[%%s]' \"$x\"\n" % inner, probe_text(c.probe))))
        if not listy:
            out.append(("unquoted-set-f", "%s\nset -f\n%s" % (S, _core(c, inner))))
            for ifs in ("IFS=:", "IFS=", "IFS=' a'"):
                out.append(("unquoted " + ifs, "%s\nset -f; %s\n%s" % (S, ifs, _core(c, inner))))
    for opt in SWEEP_OPTIONS:
        out.append(("opt " + opt, opt + "\n" + body))
    for ifs in SWEEP_IFS:
        out.append((ifs, S + "\n" + ifs + "\n" + core))
        out.append((ifs + " in function", "f() {\nlocal IFS\n%s\n%s\n%s\n}\nf" % (S, ifs, core)))
    # binding-specific contexts
    prm = getattr(c, "param", None)
    ind = isinstance(c, IndCase)
    parts = getattr(c, "parts", None)
    rest = ((parts[0] + parts[2].lstrip("\n")).strip("\n") + "\n") if parts and (parts[0] or parts[2]) else ""
    if prm is not None and parts is not None:
        k = prm[0]
        # (a reference that cannot be followed is kept out: bash treats `local r; unset r; ${!r-w}` as a declared name)
        if k in ("named", "elem", "all") and not (ind and c.ref != "ok"):
            # locals hiding globals of another value
            out.append(("local-hides-global", "v=GG; a=(G1 G2 G3 G4); declare -A A=([k]=GK [x]=GX); r=GR\n"
                        "f() {\nlocal v a r; local -A A\nunset v a A r\n%s\n}\nf\nprintf '\\4%%s' \"${v-}\" \"${a[*]-}\" \"${r-}\"" % body
                        if False else
                        "v=GG; a=(G1 G2 G3 G4); r=GR\nf() {\nlocal v a r\n%s\n}\nf\nprintf '\\4%%s.' \"${v-}\" \"${a[*]-}\" \"${r-}\"" % body))
            out.append(("local-hides-global-2deep", "v=GG; a=(G1 G2 G3 G4); r=GR\ng() {\n%s\n}\nf() {\nlocal v=FF a=(F1) r=FR\ng\n}\nf" % body))
        if k == "named" and prm[1] is not None and not ind:
            out.append(("temporary-binding", "f() {\n%s%s\n}\nv=OTHER\nv=%s f\nprintf '\\4%%s' \"$v\""
                        % (rest, core, sq(prm[1]))))
        if k in ("pos", "posall") and not ind:
            args = [prm[1]] if k == "pos" and prm[1] is not None else ([] if k == "pos" else prm[1])
            out.append(("function-args", "set -- X1 'Y 2' Z3 W4\nf() {\n%s%s\n}\nf %s\nprintf '\\4%%s' \"$*\""
                        % (rest, core, " ".join(sq(a) for a in args))))
        if k == "all" and not prm[3] and not ind:
            out.append(("local-a-copy", "src=(%s)\na=(G1 G2 G3 G4 G5)\nf() {\nlocal -a a=(\"${src[@]}\")\n%s%s\n}\nf\nprintf '\\4%%s' \"${a[*]}\""
                        % (" ".join(sq(v) for v in prm[1]), rest, core)))
    return out


def run_sweep_batch(which, bodies, timeout=900):
    parts = [SWEEP_PRELUDE]
    for b in bodies:
        # bash parses the whole `( … )` before running it: extglob must be on when an unquoted extglob pattern is read
        ext = "shopt -s extglob" in b
        parts.append("%s(\n%s\n) 2>/dev/null\nprintf '\\1X%%d\\1\\n' $?\n%s"
                     % ("shopt -s extglob\n" if ext else "", b, "shopt -u extglob\n" if ext else ""))
    base = [lib.BRUSH, "--norc", "--noprofile", "--no-config"] if which == "brush" else [lib.BASH, "--norc", "--noprofile"]
    try:
        p = lib.sp_run(base + ["-c", "".join(parts), "sh0"], stdin=subprocess.DEVNULL, stdout=subprocess.PIPE,
                           stderr=subprocess.DEVNULL, env=dict(lib.BASE_ENV), timeout=timeout, cwd=lib.BUILD if False else None)
        out = p.stdout.decode("utf-8", "replace")
    except subprocess.TimeoutExpired:
        out = ""
    res = []
    for m in re.finditer(r"(.*?)\x01X(\d+)\x01\n", out, re.S):
        res.append(m.group(1) + ("" if m.group(2) == "0" else "\x05FAIL"))
    if len(res) != len(bodies):
        res = (res + ["<shell-died>"] * len(bodies))[:len(bodies)]
    return res


def run_sweep_parallel(which, bodies, per=120):
    chunks = [bodies[i:i + per] for i in range(0, len(bodies), per)]
    rs = lib.pmap(lambda ch: run_sweep_batch(which, ch), chunks)
    return [x for r in rs for x in r]


def _flat(t, drop_empty=False):
    if drop_empty:
        t = t.replace("[]", "")
    return re.sub(r"<\d+>|[\[\] ]", "", t)


def sweep_clause(c, name, b, o):
    """recorded defect class a context-only difference belongs to (or None)"""
    w = c.word
    if re.search(r"@[aA]\}", w):
        return "transform_attr_on_unset_or_list"          # nounset / lists, now reached through `set -u` or splitting
    if o.endswith("\x05FAIL") and "\x04" in b and not b.startswith("<") and "\x04" not in o:
        # the expansion fails inside a function: bash abandons the whole enclosing command, brush resumes after the call
        return "expansion_error_in_function_resumes_caller"
    op = getattr(c, "op", None)
    if op and op[0] == "rp" and "nocasematch" in name:
        # case-insensitive matching makes the pattern match where it did not at top level: the recorded defects of the
        # replacement path show up through the option
        atoms, style, ptxt = op[5], op[3], op[4]
        if any(a[0] == "A" for a in atoms) or (style == "v" and any(a[0] == "L" and a[1] in "&\\" for a in atoms)):
            return "replace_ampersand_not_matched_text"
        if REPEATED_PLUS_GROUP.search(ptxt):
            return "regex_repeated_plus_group_false_match"
        for mt in re.finditer(r"([@+*?!])\(([^()]*)\)", ptxt):
            kind, alts = mt.group(1), mt.group(2).split("|")
            if kind == "!":
                return "extglob_negation_not_complement"
            if kind in "*?":
                return "replace_empty_match_differs"
            if any(alts[j].lower().startswith(alts[i].lower()) and alts[i] != alts[j] for i in range(len(alts)) for j in range(i + 1, len(alts))):
                return "replace_alternation_leftmost_first"
    starry = "*" in w or "[*]'" in c.setup or "r='*'" in c.setup
    if name in ("IFS=", "IFS= in function", "unquoted IFS=") and starry:
        return "star_join_ignores_empty_ifs"              # C05-2 seen through the operators
    if name in ("unquoted IFS=' a'", "unquoted IFS=:") and _flat(b, True) == _flat(o, True):
        return "unquoted_split_drops_empty_fields_of_nonwhitespace_ifs"
    return None


def context_sweep(ctx, cases, bouts, oouts, n):
    """re-run a seeded sample of the cases on which brush and bash agree at top level in every context / option"""
    import tempfile
    import shutil
    rng = ctx.rng
    # (references to lists are out: bash's `${!r…}` with r naming @ * a[@] a[*] is not `${@…}`, least of all under a changed IFS)
    pool = [i for i, c in enumerate(cases) if same(bouts[i], oouts[i]) and head(bouts[i]) != "PANIC"
            and not getattr(c, "no_oracle", False) and not re.search(r"r='(@|\*|[aA]\[[@*]\])'", c.setup)]
    # stratify by feature so that every operator family is present
    by = {}
    for i in pool:
        by.setdefault(cases[i].feat, []).append(i)
    picked = []
    feats = sorted(by)
    while len(picked) < n and feats:
        for f in list(feats):
            if not by[f]:
                feats.remove(f)
                continue
            picked.append(by[f].pop(rng.randrange(len(by[f]))))
            if len(picked) >= n:
                break
    tmpdir = tempfile.mkdtemp(prefix="c06sweep-")
    try:
        items = []
        for j, i in enumerate(picked):
            for name, body in sweep_contexts(cases[i], tmpdir, j):
                items.append((i, name, body))
        own = [k for k, it in enumerate(items) if it[1].startswith("!")]
        shared = [k for k, it in enumerate(items) if not it[1].startswith("!")]
        allb = [b for _, _, b in items]
        bodies = [allb[k] for k in shared]
        br = run_sweep_parallel("brush", bodies)
        # a panic takes the rest of a brush batch down: re-run what was lost one by one
        lost = [k for k, r in enumerate(br) if r == "<shell-died>"]
        if lost:
            rr = lib.pmap(lambda k: run_sweep_batch("brush", [bodies[k]])[0], lost[:ctx.size(400, 4000)])
            for k, r in zip(lost, rr):
                br[k] = r
        ba = run_sweep_parallel("bash", bodies)
        # contexts that need a process of their own (an EXIT trap of the main shell)
        def solo(which, k):
            base = [lib.BRUSH, "--norc", "--noprofile", "--no-config"] if which == "brush" else [lib.BASH, "--norc", "--noprofile"]
            try:
                p = lib.sp_run(base + ["-c", SWEEP_PRELUDE + allb[k], "sh0"], stdin=subprocess.DEVNULL, stdout=subprocess.PIPE,
                                   stderr=subprocess.DEVNULL, env=dict(lib.BASE_ENV), timeout=60)
                return p.stdout.decode("utf-8", "replace") + ("" if p.returncode == 0 else "\x05FAIL")
            except subprocess.TimeoutExpired:
                return "<timeout>"
        obr = lib.pmap(lambda k: solo("brush", k), own)
        oba = lib.pmap(lambda k: solo("bash", k), own)
        fbr, fba = [None] * len(items), [None] * len(items)
        for k, r in zip(shared, br):
            fbr[k] = r
        for k, r in zip(shared, ba):
            fba[k] = r
        for k, r in zip(own, obr):
            fbr[k] = r
        for k, r in zip(own, oba):
            fba[k] = r
        br, ba = fbr, fba
    finally:
        shutil.rmtree(tmpdir, ignore_errors=True)
    nviol = 0
    for (i, name, body), b, o in zip(items, br, ba):
        ctx.count(("sweep", cases[i].key(), name), nontrivial=False, bucket="sweep:" + name.split(" ")[0])
        ctx.impl_validated += 1
        if b == o:
            continue
        case = {"context": name, "script": body, "brush": b, "bash": o, "setup": cases[i].setup, "word": cases[i].word}
        cl = sweep_clause(cases[i], name, b, o)
        if cl:
            ctx.known_or_violation(cl, "brush and bash differ in context '%s' (they agree at top level)" % name, case)
        elif nviol < 15:
            nviol += 1
            ctx.violation("brush and bash differ in context '%s' although they agree on the same case at top level" % name, case)
    return items, br, ba


def load_corpus():
    out = []
    cdir = os.path.join(lib.ROOT, "corpus", PROP)
    if os.path.isdir(cdir):
        for f in sorted(os.listdir(cdir)):
            if f.endswith(".json"):
                for rec in json.load(open(os.path.join(cdir, f))):
                    if rec.get("wire"):
                        c = Case.__new__(Case)
                        c.tag, c.param, c.op, c.nounset = "corpus", None, None, False
                        c.setup, c.word, c.probe, c.wire = rec["setup"], rec["word"], rec["probe"], rec["wire"]
                        c.no_oracle = bool(re.search(r" IND ok [AP][@*] ", rec["wire"]))
                        c.feat = rec["wire"].split(" ")
                        c.feat = next((t for t in ("plain", "len", "sub", "rmx", "rm") if t in c.feat), "test")
                    else:
                        c = Direct(rec.get("feature", "corpus"), rec["setup"], rec["word"], rec.get("probe", "-"))
                        c.tag = "corpus"
                    out.append(c)
    return out


# escapes that decode to NUL (`\\0`, `\\00`, `\\000`, `\\x0`, `\\x00`, `\\u0…`) or to an octal value above \\377
NUL_OR_OVERFLOW_ESCAPE = re.compile(r"\\[4-7][0-7]{2}|\\000|\\0{1,2}(?![0-7])|\\x00|\\x0(?![0-9a-fA-F])|\\u0000|\\u0{1,3}(?![0-9a-fA-F])")

# the same `+(x|y)` group twice around an optional group: fancy_regex / regex answer wrongly (`[[ b == +(ab|b)?(a)+(ab|b) ]]`)
# the same +(a|b) group twice around something that can match the empty string: an optional group ?( ) / *( ) or the
# bare `*` wildcard (`+(a)*+(a)` is the shape of C08-9)
REPEATED_PLUS_GROUP = re.compile(r"\+\(([^()]*\|[^()]*)\)(?:\*|[?*]\([^()]*\))\+\(\1\)")

CLAUSE_PRIORITY = ["replace_ampersand_not_matched_text", "replace_dollar_read_by_regex_crate", "casemod_pattern_matches_substrings",
                   "casemod_multichar_case_mapping", "at_u_capitalizes_every_word",
                   "replace_alternation_leftmost_first", "replace_empty_match_differs",
                   "indirect_assign_element_target_accepted", "indirect_positional_slice_without_argv0",
                   "extglob_negation_not_complement", "substring_negative_length", "length_counts_bytes", "shortest_match_skips_empty",
                   "pattern_anchors_at_newlines", "all_null_elements_count_as_null",
                   "at_alternative_on_empty_list_keeps_field"]


def evaluate(ctx, cases, bouts, oouts, mouts, limit=25):
    nviol = 0
    for c, b, o, m in zip(cases, bouts, oouts, mouts):
        ctx.impl_validated += 1
        if m is None:      # direct
            ctx.count(c.key(), bucket="direct:" + c.feat)
            if not same(b, o):
                cl = direct_clause(c, b, o)
                case = dict(c.as_json(), brush=b, bash=o)
                if cl:
                    ctx.known_or_violation(cl, "brush and bash differ on an operator outside the model", case)
                elif nviol < limit:
                    nviol += 1
                    ctx.violation("brush and bash differ (operator outside the Lean model; found by exploration)", case)
            continue
        if m == "uncovered":     # pattern outside the fragment the pattern models speak about: brush against bash
            ctx.count(c.key(), bucket="uncovered:" + c.feat)
            if not same(b, o):
                cl = direct_clause(c, b, o)
                case = dict(c.as_json(), brush=b, bash=o)
                if cl:
                    ctx.known_or_violation(cl, "brush and bash differ on a pattern outside the model", case)
                elif nviol < limit:
                    nviol += 1
                    ctx.violation("brush and bash differ (pattern outside the Lean model; found by exploration)", case)
            continue
        parts = m.split(" | ")
        if len(parts) < 3:
            ctx.violation("Lean driver rejected the case: " + m, c.as_json(), kind="correspondence")
            continue
        impl, spec, cls = parts[:3]
        variants = parts[3:]          # the model with recorded defects repaired (see Drv/C06.lean)
        clauses = [] if cls == "-" else cls.split(",")
        ctx.count(c.key(), nontrivial=True, bucket=c.tag + ":" + c.feat)
        ctx.bucket("in_domain" if not clauses else "outside_domain")
        case = dict(c.as_json(), brush=b, bash=o, model=impl, spec=spec, outside_guard=clauses)
        if getattr(c, "no_oracle", False):
            ctx.bucket("model_only")
            if not same(b, impl) and nviol < limit:
                nviol += 1
                ctx.violation("the Lean model and brush disagree (correspondence broken) on a reference to a list",
                              case, kind="correspondence")
            continue
        if not same(o, spec):
            ctx.oracle_mismatch += 1
            if len(ctx.notes) < 10:
                ctx.notes.append("spec differs from bash: %s %s spec=%s bash=%s" % (c.setup, c.word, spec, o))
        tied = same(b, impl)
        if not tied and clauses and any(same(b, v) for v in variants):
            # brush follows the model with one of the recorded defects repaired
            tied = True
            ctx.bucket("finding_not_reproduced")
        if tied:
            if same(b, o):
                continue
            if clauses:
                order = [x for x in CLAUSE_PRIORITY if x in clauses] + [x for x in clauses if x not in CLAUSE_PRIORITY]
                cl = next((x for x in order if x in ctx.known), order[0])
                ctx.known_or_violation(cl, "brush's result differs from bash's", case)
            elif nviol < limit:
                nviol += 1
                ctx.violation("brush's result differs from bash's inside the proved domain", case)
        else:
            if clauses and same(b, o) and same(b, spec):
                ctx.bucket("finding_not_reproduced")     # a recorded defect no longer shows here
                continue
            op = getattr(c, "op", None)
            if op and op[0] == "rp" and REPEATED_PLUS_GROUP.search(op[4]) and not same(b, o):
                # the regex engine (not brush's translation, which the model follows) answers wrongly here
                ctx.known_or_violation("regex_repeated_plus_group_false_match",
                                       "brush's result differs from bash's and from the model of the regex it builds", case)
                continue
            if nviol < limit:
                nviol += 1
                if same(b, o):
                    ctx.violation("the Lean model and brush disagree (correspondence broken); brush agrees with bash here",
                                  case, kind="correspondence")
                else:
                    ctx.violation("brush's result differs from bash's, and from the model of its code", case, kind="property")


MY_LEAN = ["Model/ParamOps.lean", "Spec/ParamOps.lean", "Proofs/ParamOps.lean", "Props/C06.lean", "Drv/C06.lean",
           "Model/ParamSubst.lean", "Spec/ParamSubst.lean", "Proofs/ParamSubst.lean",
           "Model/Pattern.lean", "Spec/Glob.lean"]     # the last two are C08's, imported by the driver


def _sync_private_lean():
    """VERIF_REPO runs use a private copy of the lake project made once; bring this property's sources up to date."""
    src = getattr(lib, "LEAN_SRC", None)
    if not src or os.environ.get("VERIF_LEAN") or os.path.abspath(lib.LEAN) == os.path.abspath(src):
        return
    for rel in MY_LEAN:
        a, b = os.path.join(src, "BrushVerif", rel), os.path.join(lib.LEAN, "BrushVerif", rel)
        if os.path.exists(a) and (not os.path.exists(b) or open(a, "rb").read() != open(b, "rb").read()):
            os.makedirs(os.path.dirname(b), exist_ok=True)
            with open(b, "wb") as f:
                f.write(open(a, "rb").read())


def run(ctx):
    ok, out = lib.cargo_build([BIN])
    if not ok:
        lib.log(out[-4000:])
        ctx.broken.append("harness c06 does not build against the current tree: " + lib._first_errors(out))
    _sync_private_lean()
    ctx.proof_stage()
    if not ok:
        return
    cases = load_corpus()
    cases += exhaustive(ctx)
    cases += random_cases(ctx, ctx.size(6000, 120000))
    cases += extglob_exhaustive(ctx)
    cases += extglob_random(ctx, ctx.size(3000, 40000))
    cases += indirect_exhaustive(ctx)
    cases += indirect_random(ctx, ctx.size(3000, 40000))
    cases += direct_cases(ctx, 0)
    cases += extglob_direct(ctx)
    cases += unmodelled_state_table(ctx)
    cases += adjacent_exhaustive(ctx)
    cases += subst_exhaustive(ctx)
    cases += subst_random(ctx, ctx.size(4000, 60000))     # (drawn last: the earlier families keep their seeds' cases)
    # de-duplicate (the exhaustive families overlap)
    seen, uniq = set(), []
    for c in cases:
        k = (c.key(), c.wire)
        if k not in seen:
            seen.add(k)
            uniq.append(c)
    cases = uniq
    okh, bouts, errs = run_inproc(cases)
    if not okh:
        ctx.broken.append("harness c06 died: " + errs[:500])
    oouts = run_shell_parallel("bash", cases)
    modelled = [c for c in cases if c.wire]
    mo = iter(lib.run_drv_parallel([c.wire for c in modelled]))
    mouts = [next(mo) if c.wire else None for c in cases]
    evaluate(ctx, cases, bouts, oouts, mouts)
    context_sweep(ctx, cases, bouts, oouts, ctx.size(400, 8000))
    # the brush binary on a sample (same batch script as bash): in-process and binary must agree
    step = max(1, len(cases) // ctx.size(1500, 12000))
    sample = [i for i in range(0, len(cases), step)]
    # a panic takes the whole binary down (subshells are in-process): those cases run one per process
    calm = [i for i in sample if head(bouts[i]) != "PANIC"]
    wild = [i for i in sample if head(bouts[i]) == "PANIC"][:ctx.size(30, 200)]
    e2e = run_shell_parallel("brush", [cases[i] for i in calm], per=150)
    e2e += lib.pmap(lambda i: run_shell_batch("brush", [cases[i]])[0], wild)
    nbin = 0
    for i, r in zip(calm + wild, e2e):
        ctx.bucket("binary_sample")
        b = bouts[i]
        if head(b) == "PANIC":
            okb = head(r) in ("ERR", "<shell-died>")
        else:
            okb = same(r, b)
        if okb:
            continue
        case = dict(cases[i].as_json(), binary=r, inproc=b, bash=oouts[i])
        if re.search(r"\s[ ]|[ ]\s", cases[i].word) and same(b, oouts[i]) and not same(r, oouts[i]):
            # the command-line tokenizer re-tokenises the inside of ${…}: runs of blanks in the operand collapse
            ctx.known_or_violation("braced_operand_blank_runs_collapsed",
                                   "the brush binary differs from bash (and from its own expander given the same word)", case)
        elif nbin < 5:
            nbin += 1
            ctx.violation("brush binary and in-process expansion disagree", case,
                          kind="property" if not same(r, oouts[i]) else "correspondence")
    for i in (0, len(cases) // 3, len(cases) // 2, len(cases) - 1):
        ctx.sample(dict(cases[i].as_json(), brush=bouts[i], bash=oouts[i], model=mouts[i]))
    ctx.cov["rule"] = ("(parameter, operator, operand) triples: parameters = scalar / array element / assoc element / "
                       "positional / a[@] a[*] $@ $* in states set, null, unset, declared-unset, with and without nounset; "
                       "values over {a,b,space,newline,*,é}; exhaustive over short values x offsets/lengths -5..5 and i64 extremes x "
                       "all patterns of <=2 elements from an 11-element glob grammar x the 4x2 test operators; pattern substitution: short "
                       "values x 30 patterns (glob, extglob alternations, quoted * / \\ &, empty) x replacements with &, \\&, \\\\, $0, /, "
                       "empty, inline and through $r x / // /# /%; case modification x 14 patterns x ASCII and Latin-1 values; plus seeded random "
                       "longer ones; every case goes to brush in-process, bash, and (modelled operators) the Lean model+spec; "
                       "non-trivial = every modelled case (distinct by setup+word)")
    ctx.assumptions += ["dense indexed arrays and single-key associative arrays only (bash orders hash keys differently)",
                        "offset/length expressions are integer literals in four plain spellings (arithmetic is C07's)",
                        "patterns from an 11-element glob grammar (C08 owns the pattern language)",
                        "expansions are taken inside double quotes (splitting/globbing of results is C05's)"]


def replay(ctx, rp):
    lib.cargo_build([BIN])
    case = rp["case"]
    c = Direct(case.get("feature", "replay"), case["setup"], case["word"], case.get("probe", "-"))
    c.wire = case.get("wire")
    _, b, _ = run_inproc([c])
    o = run_shell_batch("bash", [c])
    r = run_shell_batch("brush", [c])
    print("setup: ", repr(c.setup))
    print("word:  ", c.word)
    print("brush (in-process):", b[0] if b else "<none>")
    print("brush (binary):    ", r[0])
    print("bash:              ", o[0])
    bad = not b or not same(b[0], o[0])
    if c.wire:
        m = lib.run_drv([c.wire])[0]
        print("model | spec | outside guards:", m)
        parts = m.split(" | ")
        if len(parts) >= 3 and b and not same(b[0], parts[0]) and not any(same(b[0], v) for v in parts[3:]):
            bad = True
    print("property on brush:", "FAILS (differs from bash)" if (not b or not same(b[0], o[0])) else "holds")
    return 1 if bad else 0
