"""C10 — redirections give each command bash's descriptors and are undone afterwards; here-documents arrive byte-exact."""
import itertools
import json
import os
import random
import re
import lib
import c10gen
from lib import esc, unesc

BIN = "c10"
W = min(lib.NCPU, 8)          # processes per parallel stage
PROP = "C10"

# ------------------------------------------------------------------------------------------------
# syntax: redirections and commands (mirrors Model/Fd.lean `Redir`, `Cmd`)

PATHS = ["a", "b", "c", "ex", "ex2", "d", "/dev/null", "nd/x"]     # index = Path of the Lean model
OPS = {"r": "<", "w": ">", "a": ">>", "x": "<>", "c": ">|"}


def r_file(n, k, p):
    return ("f", n, k, p)


def r_dup(n, inp, src, dash):
    """src: None | ('n', fd) | ('p', path)"""
    return ("d", n, inp, src, dash)


def r_outerr(p, app):
    return ("e", p, app)


def r_here(n, text, style):
    """style 's' here-string (text is the word), 'd' here-document (text is the single body line)"""
    return ("h", n, text, style)


def redir_text(r, docs):
    t = r[0]
    ns = lambda n: "" if n is None else str(n)
    if t == "f":
        return "%s%s%s" % (ns(r[1]), OPS[r[2]], PATHS[r[3]])
    if t == "d":
        op = "<&" if r[2] else ">&"
        src = "" if r[3] is None else (str(r[3][1]) if r[3][0] == "n" else PATHS[r[3][1]])
        return "%s%s%s%s" % (ns(r[1]), op, src, "-" if r[4] else "")
    if t == "e":
        return "%s%s" % ("&>>" if r[2] else "&>", PATHS[r[1]])
    if t == "h":
        if r[3] == "s":
            return "%s<<<%s" % (ns(r[1]), r[2])
        tag = "E%d" % len(docs)
        docs.append((tag, r[2]))
        return "%s<<%s" % (ns(r[1]), tag)
    raise ValueError(r)


def redir_tok(r):
    t = r[0]
    ns = lambda n: "-" if n is None else str(n)
    if t == "f":
        return "f%s,%s,%d" % (ns(r[1]), r[2], r[3])
    if t == "d":
        src = "-" if r[3] is None else "%s%d" % (r[3][0], r[3][1])
        return "d%s,%s,%s,%d" % (ns(r[1]), "i" if r[2] else "o", src, 1 if r[4] else 0)
    if t == "e":
        return "e%d,%d" % (r[1], 1 if r[2] else 0)
    if t == "h":
        return "h%s,%s" % (ns(r[1]), esc(r[2] + "\n"))
    raise ValueError(r)


def rs_text(rs, docs):
    return " ".join(redir_text(r, docs) for r in rs)


class Render:
    """cmd tuples: ('P', tag, rs, split) ('B', tag, rs, split) ('X', rs) ('G', style, body, rs) ('U', body, rs)
    ('C', id, body, defrs, rs)"""

    def __init__(self):
        self.defs = []          # function definition lines (with their here-document bodies)
        self.nvar = 0

    def simple(self, words, rs, split, docs):
        pre = rs_text(rs[:split], docs)
        post = rs_text(rs[split:], docs)
        return " ".join(x for x in (pre, words, post) if x)

    def cmd(self, c, docs):
        k = c[0]
        if k == "P":
            return self.simple("$P p%d" % c[1], c[2], c[3], docs)
        if k == "B":
            return self.simple("echo B%d" % c[1], c[2], c[3], docs)
        if k == "X":
            return ("exec " + rs_text(c[1], docs)).strip()
        if k == "G":
            body = "; ".join(self.cmd(x, docs) for x in c[2]) or ":"
            style = c[1]
            if style == 0:
                t = "{ %s; }" % body
            elif style == 1:
                t = "for i in 1; do %s; done" % body
            elif style == 2:
                t = "if :; then %s; fi" % body
            else:
                self.nvar += 1
                v = "k%d" % self.nvar
                t = "while [ -z \"$%s\" ]; do %s=1; %s; done" % (v, v, body)
            return (t + " " + rs_text(c[3], docs)).strip()
        if k == "U":
            body = "; ".join(self.cmd(x, docs) for x in c[1]) or ":"
            if body.startswith("("):
                body = ":; " + body         # `( (` would be read as an arithmetic command (finding C02-5)
            return ("( %s ) %s" % (body, rs_text(c[2], docs))).strip()
        if k == "C":
            ddocs = []
            body = "; ".join(self.cmd(x, ddocs) for x in c[2]) or ":"
            line = ("f%d() { %s; } %s" % (c[1], body, rs_text(c[3], ddocs))).strip()
            self.defs.append(with_docs(line, ddocs))
            return ("f%d %s" % (c[1], rs_text(c[4], docs))).strip()
        raise ValueError(c)


def with_docs(line, docs):
    out = line + "\n"
    for tag, text in docs:
        out += text + "\n" + tag + "\n"
    return out


def script_of(nc, cmds):
    r = Render()
    lines = []
    for c in cmds:
        docs = []
        t = r.cmd(c, docs)
        lines.append(with_docs(t, docs) + 'echo "S$?" >>"$C10_OUT"\n')
    # the loop guards are set (empty) from the start so that the scripts also run under `set -u`
    guards = "".join("k%d= " % i for i in range(1, r.nvar + 1))
    return ("set -C\n" if nc else "") + (guards.rstrip() + "\n" if guards else "") + "".join(r.defs) + "".join(lines)


def cmd_toks(c):
    k = c[0]
    rl = lambda rs: [str(len(rs))] + [redir_tok(r) for r in rs]
    bl = lambda b: [str(len(b))] + [t for x in b for t in cmd_toks(x)]
    if k in "PB":
        return [k, str(c[1])] + rl(c[2])
    if k == "X":
        return ["X"] + rl(c[1])
    if k == "G":
        return ["G"] + rl(c[3]) + bl(c[2])
    if k == "U":
        return ["U"] + rl(c[2]) + bl(c[1])
    if k == "C":
        return ["C"] + rl(c[3]) + rl(c[4]) + bl(c[2])
    raise ValueError(c)


def request_of(nc, cmds):
    return "C10 R %d %s" % (1 if nc else 0, " ".join(t for c in cmds for t in cmd_toks(c)))


# ------------------------------------------------------------------------------------------------
# generators

def all_single_redirs():
    """every redirection form over a reduced descriptor set and the whole file set (exhaustive part)"""
    out = []
    fds = [None, 0, 1, 2, 3, 7]
    for n in fds:
        for k in "rwaxc":
            for p in (range(len(PATHS)) if n in (None, 1, 2) else (0, 3, 5, 7)):
                out.append(r_file(n, k, p))
        for inp in (False, True):
            out.append(r_dup(n, inp, None, True))
            for m in (0, 1, 2, 3, 9):
                if m != (n if n is not None else (0 if inp else 1)):      # `N>&N` is not one of the property's forms
                    out.append(r_dup(n, inp, ("n", m), False))
        out.append(r_here(n, "Hs", "s"))
        out.append(r_here(n, "Hd", "d"))
    for p in range(len(PATHS)):
        out.append(r_outerr(p, False))
        out.append(r_outerr(p, True))
        out.append(r_dup(None, False, ("p", p), False))
        out.append(r_dup(1, False, ("p", p), False))
    return out


def rand_redir(rng, move=False):
    x = rng.random()
    n = rng.choice([None, None, 0, 1, 2, 2, 3, 4, rng.randint(0, 9)])
    if x < 0.42:
        return r_file(n, rng.choice("rwwaxc"), rng.choice([0, 0, 1, 2, 3, 3, 4, 5, 6, 7]))
    if x < 0.72:
        if rng.random() < 0.25:
            return r_dup(n, rng.random() < 0.4, None, True)
        m = rng.choice([0, 1, 1, 2, 2, 3, 4, rng.randint(0, 9)])
        inp = rng.random() < 0.4
        if m == (n if n is not None else (0 if inp else 1)):
            m = (m + 1) % 10             # `N>&N` is outside the property's forms (bash: no-op even when N is closed)
        return r_dup(n, inp, ("n", m), move and m >= 3 and rng.random() < 0.5)
    if x < 0.82:
        if rng.random() < 0.6:
            return r_outerr(rng.choice([0, 1, 3, 3, 5, 6, 7]), rng.random() < 0.4)
        return r_dup(rng.choice([None, 1]), False, ("p", rng.choice([0, 1, 3, 5])), False)
    return r_here(n if rng.random() < 0.6 else None, "H%d" % rng.randint(0, 9), rng.choice("sd"))


def rand_rs(rng, maxlen=4, move=False):
    k = rng.choice([0, 1, 1, 2, 2, 3, 4][:maxlen + 3])
    return [rand_redir(rng, move) for _ in range(min(k, maxlen))]


def closes_std(r):
    """`N>&-` / `N<&-` with N in 0..2"""
    return r[0] == "d" and r[4] and (r[1] if r[1] is not None else (0 if r[2] else 1)) < 3 and r[3] is None


def exec_ok(rs):
    """`exec` redirections of the generated scripts never close descriptor 0, 1 or 2 for good (with one of them
    closed, open() hands out that number and bash's own bookkeeping gets in the way of the comparison)"""
    return [r for r in rs if (r[0] != "h" or r[3] == "s") and not closes_std(r)]


class Gen:
    def __init__(self, rng, move=False):
        self.rng, self.tag, self.fn, self.move = rng, 0, 0, move

    def leaf(self):
        rng = self.rng
        self.tag += 1
        x = rng.random()
        # the move forms `N>&M-` only on external commands: bash leaves M closed *in the shell* after a builtin or
        # compound command that moved it (its undo list does not cover M), which is not what the property asks for
        rs = rand_rs(rng, move=self.move and x < 0.55)
        if x < 0.55:
            return ("P", self.tag, rs, rng.randint(0, len(rs)))
        if x < 0.8:
            return ("B", self.tag, rs, rng.randint(0, len(rs)))
        return ("X", exec_ok(rs)[:3])

    def cmd(self, depth):
        rng = self.rng
        if depth == 0 or rng.random() < 0.3:
            return self.leaf()
        body = [self.cmd(depth - 1) for _ in range(rng.choice([1, 1, 2, 3]))]
        x = rng.random()
        # random compound commands never close descriptor 0, 1 or 2 around a body that opens files: with one of them
        # closed, open() hands out that number inside bash and its save/restore bookkeeping shows through (the
        # exhaustive part does cover `{ …; } N>&-` with bodies that open nothing)
        rand_rs = lambda *a, **k: [r for r in globals()["rand_rs"](*a, **k) if not closes_std(r)]
        if x < 0.45:
            return ("G", rng.randint(0, 3), body, rand_rs(rng))
        if x < 0.7:
            return ("U", body, rand_rs(rng))
        self.fn += 1
        return ("C", self.fn, body, rand_rs(rng, 2) if rng.random() < 0.5 else [], rand_rs(rng, 3))

    def script(self):
        rng = self.rng
        cmds = []
        if rng.random() < 0.3:
            cmds.append(("X", exec_ok(rand_rs(rng, 3))))
        for _ in range(rng.choice([1, 1, 2])):
            cmds.append(self.cmd(rng.choice([0, 1, 1, 2, 2])))
        self.tag += 1
        cmds.append(("P", self.tag, [], 0))
        return cmds


def exhaustive_cases():
    cases = []
    singles = all_single_redirs()
    tag = [0]

    def t():
        tag[0] += 1
        return tag[0] % 90 + 1

    hosts = [
        lambda rs: [("P", 1, rs, len(rs)), ("P", 2, [], 0)],
        lambda rs: [("B", 1, rs, 0), ("P", 2, [], 0)],
        lambda rs: [("G", 0, [("P", 1, [], 0), ("B", 3, [], 0)], rs), ("P", 2, [], 0)],
        lambda rs: [("U", [("P", 1, [], 0)], rs), ("P", 2, [], 0)],
        lambda rs: [("C", 1, [("P", 1, [], 0)], [], rs), ("P", 2, [], 0)],
        lambda rs: [("C", 1, [("P", 1, [], 0)], rs, []), ("P", 2, [], 0)],
        lambda rs: [("G", 1, [("P", 1, [], 0)], rs), ("P", 2, [], 0)],
        lambda rs: [("G", 3, [("P", 1, [], 0)], rs), ("P", 2, [], 0)],
        lambda rs: [("X", rs), ("P", 1, [], 0), ("B", 3, [], 0)],
    ]
    for nc in (False, True):
        for r in singles:
            if nc and not (r[0] in "ed" or (r[0] == "f" and r[2] in "wc")):
                continue
            for hi, h in enumerate(hosts):
                if hi == 8 and r[0] == "h" and r[3] == "d":
                    continue
                if nc and hi in (4, 5, 6, 7):
                    continue
                cases.append((nc, h([r]), "exh1"))
    # ordered pairs over a reduced alphabet (left-to-right evaluation)
    small = [r_file(None, "w", 0), r_file(2, "w", 0), r_file(None, "a", 3), r_file(2, "w", 1), r_dup(2, False, ("n", 1), False),
             r_dup(1, False, ("n", 2), False), r_dup(3, False, ("n", 1), False), r_dup(1, False, ("n", 3), False),
             r_dup(1, False, None, True), r_dup(2, False, None, True), r_file(3, "w", 1), r_outerr(0, False), r_file(None, "r", 3),
             r_dup(0, True, ("n", 3), False), r_file(3, "r", 4), r_file(None, "w", 7), r_here(None, "Hs", "s"), r_file(2, "x", 3)]
    for r1, r2 in itertools.product(small, small):
        cases.append((False, [("P", 1, [r1, r2], 2), ("P", 2, [], 0)], "exh2"))
        cases.append((False, [("G", 0, [("P", 1, [], 0)], [r1, r2]), ("P", 2, [], 0)], "exh2"))
    for r1, r2 in itertools.product(small[:12], small[:12]):
        cases.append((False, [("X", [r1]), ("P", 1, [r2], 1), ("P", 2, [], 0)], "exh2x"))
    return cases


# ------------------------------------------------------------------------------------------------
# here-documents

TAGWORDS = ["EOF", "'EOF'", "\\EOF", "E\"O\"F", "E\\OF", "EOF2", "E.F", "$x"]
LINE_ATOMS = ["EOF", "EOF ", " EOF", "EOFx", "xEOF", "\tEOF", "\t\tEOF", "\t EOF", "EO", "E", "", "\t", " ", "$x", "\\$x", "\\\\", "\\q",
              "'q'", "\"q\"", "$x$y", "${x}", "a\tb", "\\", "x\\", "$", "$ x", "`", "\\`", "EOF2", "E.F", "EXF", "-", "$x.EOF", "#EOF",
              "EOF\\", "'EOF'", "\\EOF", "é日", "%41"]


def end_tag(tagword):
    if not any(c in tagword for c in "\\'\""):
        return tagword
    out, esc_ = [], False
    for c in tagword:
        if esc_:
            out.append(c)
            esc_ = False
        elif c == "\\":
            esc_ = True
        elif c in "'\"":
            pass
        else:
            out.append(c)
    return "".join(out)


def heredoc_cases(ctx):
    """(dash, tagword, body_lines, layout) — body_lines never hold a terminating line by construction of
    the *intended* document; whether they do is decided by the model / the shells"""
    rng = ctx.rng
    cases = []
    # exhaustive: every single line atom and every ordered pair of a reduced set, both operators, three delimiters
    for dash in (False, True):
        for tw in ("EOF", "'EOF'", "E\\OF"):
            for a in LINE_ATOMS:
                cases.append((dash, tw, [a], "plain"))
            for a, b in itertools.product(LINE_ATOMS[:15], repeat=2):
                cases.append((dash, tw, [a, b], "plain"))
    for _ in range(ctx.size(500, 12000)):
        dash = rng.random() < 0.4
        tw = rng.choice(TAGWORDS)
        n = rng.choice([0, 1, 2, 2, 3, 4, 6])
        lines = []
        for _ in range(n):
            if rng.random() < 0.7:
                lines.append(rng.choice(LINE_ATOMS))
            else:
                lines.append("".join(rng.choice(["E", "O", "F", "\t", " ", "$", "x", "\\", "'", "\"", "q", end_tag(tw)])
                                     for _ in range(rng.randint(1, 5))))
        cases.append((dash, tw, lines, rng.choice(["plain", "plain", "two", "subst", "func", "noeol"])))
    return cases


def term_line(dash, tagword, rng_tabs=0):
    return ("\t" * rng_tabs if dash else "") + end_tag(tagword)


def continued(tagword, lines):
    """unquoted delimiter and some body line ends in an unescaped backslash: the next line is joined to it"""
    if any(c in tagword for c in "\\'\""):
        return False
    return any((len(l) - len(l.rstrip("\\"))) % 2 == 1 for l in lines)


def bash_heredoc_ok(tagword, lines, dash=False):
    """bash removes backslash-newline while *reading* the document — before it strips the tabs of `<<-` and before
    it looks for `$name` — brush when expanding it.  Two visible consequences: a continuation right after `$` or
    inside a `$name` splits the name in brush (`$x\<newline>y` is `$xy` for bash), and under `<<-` the tabs that
    follow a line holding nothing but the continuation backslash are kept by brush."""
    if continued(tagword, lines):
        if any(re.search(r"\$[A-Za-z_0-9]*\\$", l) for l in lines):
            return False, HD_CLAUSES[0]
        if dash and any(l.lstrip("\t") == "\\" for l in lines):
            return False, HD_CLAUSES[0]
    return True, None


def expansion_in_model_domain(lines):
    txt = "\n".join(lines)
    return not re.search(r"\$[$?#!*@\-0-9({\[]|`|\$$", txt, re.M) and "${" not in txt


# ------------------------------------------------------------------------------------------------
# running

_MARK = re.compile(r"^(old|two|[WBSH][A-Za-z0-9=.\-]+)$")


def canon_err(text):
    """same canonicalisation as the harness: marker lines stay, every maximal run of other lines (error
    messages, remains of partly overwritten lines) becomes one <ERR> line"""
    out, prev = [], False
    lines = text.split("\n")
    last = lines.pop() if lines else ""
    for l in lines:
        if _MARK.match(l):
            out.append(l)
            prev = False
        elif not prev:
            out.append("<ERR>")
            prev = True
    if last != "" and not prev:
        out.append("<ERR>")
    return "".join(x + "\n" for x in out)


def parse_resp(r):
    d = {}
    for f in r.split(" "):
        k, _, v = f.partition("=")
        d[k] = v
    return d


def canon_resp(r, model=False):
    """-> comparable tuple (rc, out, err, rep, files) or None for HAZARD / malformed"""
    if r.startswith("HAZARD"):
        return None
    d = parse_resp(r)
    try:
        files = []
        for f in (d.get("files") or "").split(","):
            if not f:
                continue
            n, _, c = f.partition("=")
            files.append((n, c if c.startswith("DIR") or c == "OTHER" else canon_err(unesc(c))))
        return (d["rc"], canon_err(unesc(d["out"])), canon_err(unesc(d["err"])), unesc(d["rep"]), tuple(files))
    except (KeyError, ValueError, IndexError):
        return ("malformed", r)


def run_shell_cases(scripts, which):
    ok, outs, errs = lib.run_vh_parallel(BIN, ["R %s %s" % (which, esc(s)) for s in scripts], args=[lib.BRUSH, lib.BASH],
                                         workers=W)
    return ok, outs, errs


def features(nc, cmds):
    """syntactic features used only to name the defect class of a divergence the model reproduces"""
    fs = set()

    def redirs(rs):
        for r in rs:
            if r[0] == "d" and r[3] is not None and r[3][0] == "n" and r[4]:
                fs.add("move")
            if nc and (r[0] == "e" and not r[2] or (r[0] == "d" and r[3] is not None and r[3][0] == "p")):
                fs.add("nc_outerr")

    def walk(c):
        k = c[0]
        if k in "PB":
            redirs(c[2])
        elif k == "X":
            redirs(c[1])
        elif k == "G":
            redirs(c[3])
            for x in c[2]:
                walk(x)
        elif k == "U":
            redirs(c[2])
            for x in c[1]:
                walk(x)
        elif k == "C":
            redirs(c[3])
            redirs(c[4])
            for x in c[2]:
                walk(x)
    for c in cmds:
        walk(c)
    return fs


CLAUSES = ["exec_redirection_shadowed_by_enclosing_redirection", "closed_std_fd_inherited_by_external"]


def clause_for(nc, cmds, notes):
    """labels emitted by the model say which modelled departure from the reference semantics occurred"""
    if "3" in notes:
        return CLAUSES[0]
    if "1" in notes:
        return CLAUSES[1]
    return None


def in_guard(nc, cmds, notes):
    return clause_for(nc, cmds, notes) is None


def decide_fd(ctx, cases):
    scripts = [script_of(nc, cmds) for nc, cmds, _ in cases]
    reqs = [request_of(nc, cmds) for nc, cmds, _ in cases]
    okb, bouts, eb = run_shell_cases(scripts, "brush")
    oko, oouts, eo = run_shell_cases(scripts, "bash")
    if not (okb and oko):
        ctx.broken.append("harness c10 died: " + (eb + eo)[:400])
    mouts = lib.run_drv_parallel(reqs, workers=W)
    nviol = 0
    infos = []          # per case: (nc, cmds, kind, labels of the model, comparable?) for the context sweep
    for (nc, cmds, kind), script, b, o, m in zip(cases, scripts, bouts, oouts, mouts):
        if " | S " not in m:
            ctx.violation("driver could not handle the case: " + m[:80], {"nc": nc, "cmds": cmds, "script": script}, kind="correspondence")
            continue
        mm, ms = m[2:].split(" | S ")
        M, S = canon_resp(mm, True), canon_resp(ms, True)
        B, O = canon_resp(b), canon_resp(o)
        notes = parse_resp(mm).get("notes", "-").split(",")
        nred = script.count("<") + script.count(">") - 2 * script.count('>>"$C10_OUT"')
        ctx.count(script, nontrivial=nred >= 1, bucket=kind)
        infos.append((nc, cmds, kind, notes, not (M is None or S is None)))
        if M is None or S is None:
            ctx.bucket("skipped_error_text_overlap")
            continue
        ctx.impl_validated += 1
        clause = clause_for(nc, cmds, notes)
        ctx.bucket("in_guard" if clause is None else "out_" + clause)
        case = {"nc": nc, "cmds": cmds, "script": script}
        if S != O:
            ctx.oracle_mismatch += 1
            if len(ctx.notes) < 5:
                ctx.notes.append({"oracle_mismatch": script, "bash": o, "spec": ms})
        prop_fails = B != O
        if B != M:
            if nviol < 25:
                nviol += 1
                ctx.violation("descriptor model and brush disagree" + (" and brush differs from bash" if prop_fails else ""),
                              dict(case, brush=b, model=mm, bash=o), kind="property" if prop_fails else "correspondence")
        elif prop_fails:
            if clause is not None:
                ctx.known_or_violation(clause, "brush gives the command other descriptors / file contents than bash", dict(case, brush=b, bash=o))
            elif nviol < 25:
                nviol += 1
                ctx.violation("brush differs from bash inside the proved domain", dict(case, brush=b, bash=o, model=mm))
    return scripts, bouts, infos


# ------------------------------------------------------------------------------------------------
# context sweep: the same cases in other execution contexts and under options that must not matter

def own_fds(r):
    """mirror of Model/Fd.lean `ownFds`"""
    t = r[0]
    if t == "f":
        return [r[1] if r[1] is not None else {"r": 0, "w": 1, "a": 1, "x": 0, "c": 1}[r[2]]]
    if t == "d":
        fd = r[1] if r[1] is not None else (0 if r[2] else 1)
        if r[3] is None:
            return [fd] if r[4] else []
        if r[3][0] == "n":
            return [fd, r[3][1]] if (r[4] and r[3][1] != fd) else [fd]
        return [1, 2]
    if t == "e":
        return [1, 2]
    return [r[1] if r[1] is not None else 0]


def exec_own_fds(cmds):
    out = set()

    def walk(c):
        k = c[0]
        if k == "X":
            for r in c[1]:
                out.update(own_fds(r))
        elif k == "G":
            for x in c[2]:
                walk(x)
        elif k == "U":
            for x in c[1]:
                walk(x)
        elif k == "C":
            for x in c[2]:
                walk(x)
    for c in cmds:
        walk(c)
    return out


def renumber(cmds, delta):
    """the same commands with other function names (a function of the generated scripts is defined and called once: its
    loops run once, which is what the model assumes)"""
    def walk(c):
        k = c[0]
        if k == "G":
            return ("G", c[1], [walk(x) for x in c[2]], c[3])
        if k == "U":
            return ("U", [walk(x) for x in c[1]], c[2])
        if k == "C":
            return ("C", c[1] + delta, [walk(x) for x in c[2]], c[3], c[4])
        return c
    return [walk(c) for c in cmds]


DEVNULL8 = ("f", 8, "r", 6)          # `8</dev/null`: a harmless redirection on the wrapper

# contexts the model can express: every top-level command of the case is wrapped (the `$?` reports stay at top level),
# or the whole command list is changed; these go through the full brush / model / bash comparison
MODEL_CONTEXTS = {
    "in_function": lambda nc, cmds: (nc, [("C", 90 + i, [c], [], []) for i, c in enumerate(cmds)]),
    "two_functions_deep": lambda nc, cmds: (nc, [("C", 80 + i, [("C", 70 + i, [c], [], [])], [], []) for i, c in enumerate(cmds)]),
    "in_function_with_definition_redirect": lambda nc, cmds: (nc, [("C", 60 + i, [c], [DEVNULL8], []) for i, c in enumerate(cmds)]),
    "in_subshell": lambda nc, cmds: (nc, [("U", [c], []) for c in cmds]),
    "in_group_with_redirect": lambda nc, cmds: (nc, [("G", 0, [c], [DEVNULL8]) for c in cmds]),
    "in_for_body": lambda nc, cmds: (nc, [("G", 1, [c], []) for c in cmds]),
    "in_loop_fed_by_done_redirect": lambda nc, cmds: (nc, [("G", 3, [c], [("f", None, "r", 3)]) for c in cmds]),
    "run_twice": lambda nc, cmds: (nc, list(cmds) + renumber(cmds, 30)),
    "after_exec_made_descriptors_persistent": lambda nc, cmds: (nc, [("X", [("f", 5, "w", 1), ("f", 6, "r", 3), ("f", 7, "a", 2)])] + list(cmds)),
    "noclobber_flipped": lambda nc, cmds: (not nc, list(cmds)),
}

# contexts only the shells can express: brush against bash on identical text.  value: (wrapper, descriptors the wrapper itself
# holds redirected around the case — an `exec` on one of those inside the case is finding C10-12)
TEXT_CONTEXTS = {
    "whole_script_in_function": (lambda pre, b: pre + "ctxf() {\n" + b + "}\nctxf\n", set()),
    "command_substitution": (lambda pre, b: pre + "ctxv=$(\n" + b + ")\nprintf '%s\\n' \"$ctxv\"\n", {1}),
    "eval": (lambda pre, b: pre + "eval '" + b + "'\n", set()),
    "pipeline_first_stage": (lambda pre, b: pre + "{\n" + b + "} | cat\n", {1}),
    "pipeline_middle_stage": (lambda pre, b: pre + ": | {\n" + b + "} | cat\n", {0, 1}),
    "pipeline_last_stage": (lambda pre, b: pre + ": | {\n" + b + "}\n", {0}),
    "pipeline_last_stage_lastpipe": (lambda pre, b: pre + "shopt -s lastpipe\n: | {\n" + b + "}\n", {0}),
    "exit_trap": (lambda pre, b: pre + "trap '" + b + "' EXIT\n", set()),
    "sourced_file": (lambda pre, b: pre + "cat > \"$C10_BASE/src.sh\" <<'SRCEOF'\n" + b + "SRCEOF\n. \"$C10_BASE/src.sh\"\n", set()),
    "while_read_fed_by_done_redirect": (lambda pre, b: pre + "echo Hfeed >|feed\nwhile read ctxl; do\n" + b + "done <feed\n", {0}),
}
# options that must not change what a redirection does (`set -o posix` is left out: bash's POSIX mode makes a failing
# redirection on the special builtin `exec` fatal, which the property does not speak about; `set -e` is left out because the
# cases contain failing commands on purpose)
OPTIONS = ["set -u", "set -f", "set -E", "set -T", "set +h", "shopt -s extglob", "shopt -s nullglob", "shopt -s dotglob",
           "shopt -s nocasematch", "shopt -s globstar", "shopt -s expand_aliases", "shopt -s lastpipe", "shopt -s inherit_errexit"]

SWEEP_CLAUSES = ["heredoc_operator_line_scrambled_by_nested_construct"]

# fixed scripts for forms and situations the generators above do not produce
FAMILY = [
    # `&>` / `&>>` / `>&word`: a number is a descriptor after `>&` and a file name after `&>`
    "echo B1 >&2; echo B2 &>2; echo B3 >&nm; echo B4 &>>2; z=2; echo B5 >&$z; z=nm2; echo B6 >&$z; echo B7 1>&nm3\n$P p1\n",
    "echo B8 2>&nm4; echo \"S$?\"; $P p2 >&7; echo \"S$?\"; $P p3 7>&1 >&7; $P p4\n",
    # a here-document inside a function is expanded at each call
    "f() { $P p1 <<EOF\nH$x\nEOF\n}\nx=1; f; x=2; f; f <<<H3\n",
    "f() { $P p1 <<EOF\nH$x\nEOF\n} 3<<EOF\nD$x\nEOF\nx=1; f; x=2; f\n",
    "f() { $P p1 3<<'EOF' 4<<-EOF\nH$x\nEOF\n\tH$x\n\tEOF\n}\nx=1; f; x=2; (f)\n",
    # process substitutions as redirection targets
    "$P p1 < <(echo Hps)\n$P p2 3< <(echo Hps3) 0<&3\n$P p3\n",
    "exec 4< <(echo Hps4)\n$P p1\nexec 4<&-\n$P p2\n",
    "echo B1 > >(cat >fc); sleep 0.3; $P p1 <fc\n",
    "f() { $P p1; } < <(echo Hpsf)\nf; f 0<&-; f <<<Hs\n$P p2\n",
    # the same redirected commands over and over in one shell: the table is back where it was each time
    "for i in 1 2 3 4 5 6; do $P p$i 3>a 4<ex 2>&1 >b <<<H$i; { echo B$i; } 5>>c >&5; done\n$P p9\n",
    "exec 3>a 4<ex\nfor i in 1 2 3; do echo B$i >&3; f() { $P p$i 3>&- 5<&4; }; f; ( exec 4<&- 3>b; $P q$i ); done\n$P p9\nexec 3>&- 4<&-\n$P p0\n",
    "exec 3>a\n$P p1 3>&-\necho B1 3>&- >&3\necho \"S$?\" >&2\nf() { $P p2; }; f 3>&-\n$P p3 4>&3- \n$P p4\n",
    # repaired by ac59621 (was finding C10-13): a word holding `${…}`, `$(…)`, `$((…))` after a here-document operator on the same
    # line is scanned on its own — positive cases, brush must equal bash
    "f=a\n$P p1 <<E1 >\"${f}\"\nH6\nE1\n$P p2\n",
    "$P p1 <<E1 3>$(echo b)\nH6\nE1\n$P p2\n",
    "x=B\necho ${x}1 <<E1 $((1+1)) \"$(echo B3)\" ${x:-$(echo B4)} >a `echo B5`\nH6\nE1\n$P p1 <a\n",
    "$P p1 <<E1 | $P \"$(echo p2)\" 3<<E2 4<<<$(echo H4)\nH1\nE1\nH2\nE2\n",
    "$P p1 <<E4 3< <(echo H3) 4>\"${undefined:-b}\"\nH4\nE4\n$P p2\n",
    # what is left of C10-13: inside `$( )`, a here-document operator followed on the same line by a closing parenthesis
    ("v=$( ( $P p1 <<E0; echo B2 ) >a\nH3\nE0\n)\necho \"S$v\"\n$P p2\n", "heredoc_operator_line_scrambled_by_nested_construct"),
    ("v=$( (echo B1 <<E5) >a\nH5\nE5\n)\necho \"S$v\"\n$P p2\n", "heredoc_operator_line_scrambled_by_nested_construct"),
    # … and a process substitution holding a here-document of its own after a here-document operator on the same line
    ("$P p1 <<E4 3< <(cat <<E5\nH5\nE5\n)\nH4\nE4\n$P p2\n", "heredoc_operator_line_scrambled_by_nested_construct"),
]


_HD_OP = re.compile(r"(?<!<)<<-?(?!<)")


def heredoc_before_paren(script):
    """what is left of finding C10-13 after ac59621: inside `$( )`, a line holding a here-document operator and, later on the
    same line, a closing parenthesis — the `)` of the nested level is appended to the text of the substitution at once while the
    tokens before it are still queued behind the here-document, so they end up after it.  Nothing else on such a line is excused:
    words with `${…}`, `$(…)`, `$((…))` after the operator, `;`, `}`, `fi`, further redirections must all agree with bash."""
    return any(")" in l[m.end():] for l in script.split("\n") for m in _HD_OP.finditer(l))


def sweep(ctx, infos):
    rng = random.Random(ctx.rng.getrandbits(48))
    base = [x for x in infos if x[4]]
    if not base:
        return
    # (A) contexts expressed in the model
    na = ctx.size(40, 1200)
    cases = []
    for nc, cmds, kind, notes, _ in (rng.sample(base, min(na, len(base)))):
        for name, f in MODEL_CONTEXTS.items():
            nc2, cmds2 = f(nc, cmds)
            cases.append((nc2, cmds2, "ctx:" + name))
    decide_fd(ctx, cases)
    # (B) contexts and options only the shells express
    nb = ctx.size(70, 1500)
    jobs = []
    for nc, cmds, kind, notes, _ in (rng.sample(base, min(nb, len(base)))):
        pre = "set -C\n" if nc else ""
        body = script_of(False, cmds)
        if "'" in body:
            continue
        for name, (wrap, shadow) in TEXT_CONTEXTS.items():
            if name == "command_substitution" and "1<>" in body:
                # bash 5.2 re-creates the text of `$( )` from its parse tree and prints `1<>file` as `<>file` (descriptor 0)
                continue
            jobs.append(("ctx:" + name, shadow, nc, cmds, notes, wrap(pre, body)))
        for o in (OPTIONS if not ctx.quick else rng.sample(OPTIONS, 2)):
            jobs.append(("opt:" + o, set(), nc, cmds, notes, o + "\n" + pre + body))
    for fs in FAMILY:
        fs, fclause = fs if isinstance(fs, tuple) else (fs, None)
        jobs.append(("family", fclause, False, [], ["-"], fs))
        jobs.append(("family", fclause, False, [], ["-"], "f9() {\n" + fs + "}\nf9\n"))
    scripts = [j[5] for j in jobs]
    okb, bouts, eb = run_shell_cases(scripts, "brush")
    oko, oouts, eo = run_shell_cases(scripts, "bash")
    if not (okb and oko):
        ctx.broken.append("harness c10 died in the context sweep: " + (eb + eo)[:300])
    nviol = 0
    for (name, shadow, nc, cmds, notes, script), b, o in zip(jobs, bouts, oouts):
        ctx.count(("sweep", script), bucket=name)
        ctx.impl_validated += 1
        B, O = canon_resp(b), canon_resp(o)
        if B == O:
            continue
        case = {"context": name, "script": script, "brush": b, "bash": o}
        clause = clause_for(nc, cmds, notes)
        if name == "family":
            clause = shadow                      # the clause the family script is a witness of, if any
        elif shadow & exec_own_fds(cmds):
            clause = CLAUSES[0]
        if name == "ctx:command_substitution" and heredoc_before_paren(script):
            clause = SWEEP_CLAUSES[0]
        if clause is not None:
            ctx.known_or_violation(clause, "brush differs from bash in context %s" % name, case)
        elif nviol < 15:
            nviol += 1
            ctx.violation("brush differs from bash in context %s (the case agrees at top level)" % name, case)


# -- here-documents -------------------------------------------------------------------------------

HD_CLAUSES = ["heredoc_continuation_joined_at_expansion_time", "heredoc_body_quote_inside_command_substitution"]
XVAL = "V a"


def heredoc_script(dash, tw, lines, layout, tabs):
    op = "<<-" if dash else "<<"
    body = "".join(l + "\n" for l in lines)
    term = term_line(dash, tw, tabs)
    if layout == "plain":
        return "x='%s'\ncat %s%s\n%s%s\necho Hend\n" % (XVAL, op, tw, body, term)
    if layout == "noeol":
        return "x='%s'\ncat %s%s\n%s%s" % (XVAL, op, tw, body, term)
    if layout == "two":
        return "x='%s'\ncat %s%s; cat <<'Z'\n%s%s\nsecond $x\nZ\necho Hend\n" % (XVAL, op, tw, body, term)
    if layout == "subst":
        return "x='%s'\nv=$(cat %s%s; cat <<Z2\n%s%s\ntwo\nZ2\n)\nprintf '%%s\\n' \"$v\"\necho Hend\n" % (XVAL, op, tw, body, term)
    if layout == "func":
        return "x='%s'\nf() { cat %s%s\n%s%s\n}\nf\necho Hend\n" % (XVAL, op, tw, body, term)
    raise ValueError(layout)


def decide_heredoc(ctx, cases):
    rng = ctx.rng
    # (1) tokenizer level, in-process: tokens(`cat <<tag\n` + text) == [cat, <<, tag, body, endtag, \n] ++ tokens(rest)
    treqs, mreqs, texts = [], [], []
    for dash, tw, lines, layout in cases:
        tabs = rng.randint(0, 2)
        text = "".join(l + "\n" for l in lines) + term_line(dash, tw, tabs) + ("\n" if layout != "noeol" else "") + \
            ("echo R 'q r'\n" if layout not in ("noeol",) else "")
        texts.append((text, tabs))
        treqs.append("T " + esc("cat %s%s\n%s" % ("<<-" if dash else "<<", tw, text)))
        mreqs.append("C10 H %d %s %s" % (1 if dash else 0, esc(tw), esc(text)))
    okh, touts, errs = lib.run_vh_parallel(BIN, treqs, args=[lib.BRUSH, lib.BASH], workers=W)
    if not okh:
        ctx.broken.append("harness c10 died (tokenizer): " + errs[:300])
    mouts = lib.run_drv_parallel(mreqs, workers=W)
    rest_reqs = []
    for m in mouts:
        f = m.split(" ")
        rest_reqs.append("T " + (f[3] if f[0] == "ok" else "%"))
    _, routs, _ = lib.run_vh_parallel(BIN, rest_reqs, args=[lib.BRUSH, lib.BASH], workers=W)
    nviol = 0
    bodies = []
    for (dash, tw, lines, layout), (text, tabs), t, m, rt in zip(cases, texts, touts, mouts, routs):
        ctx.count(("T", dash, tw, tuple(lines), layout), nontrivial=len(lines) >= 1, bucket="heredoc_tokens")
        ctx.impl_validated += 1
        f = m.split(" ")
        case = {"dash": dash, "tag": tw, "lines": lines, "layout": layout, "text": text}
        bad = None
        if f[0] != "ok":
            bodies.append(None)
            if not t.startswith("err Unterminated"):
                bad = "model: unterminated; brush tokenizer: " + t[:80]
        else:
            body, rest = unesc(f[2]), unesc(f[3])
            bodies.append((f[1] == "1", body, rest))
            if t.startswith("ok"):
                tt = t.split(" ")[1:]
                want = ["wcat", "o<<-" if dash else "o<<", "w" + esc(tw), "w" + esc(body), "w" + esc(end_tag(tw))]
                if body == "":
                    # an empty body still yields an (empty) word token
                    want[3] = "w%"
                tail = rt.split(" ")[1:] if rt.startswith("ok") else None
                if tt[:5] != want:
                    bad = "here-document tokens differ: brush %r model %r" % (tt[:5], want)
                elif tail is not None and tt[5:] != (["o%0A"] if layout != "noeol" or True else []) + tail and tt[5:] != tail:
                    bad = "tokens after the here-document differ: brush %r, tokens of the model's rest %r" % (tt[5:], tail)
            elif rt.startswith("ok") or t.split(" ")[:2] != rt.split(" ")[:2]:
                bad = "brush tokenizer fails (%s) where the model finds a body" % t[:60]
        # the property at this level: the intended document (lines none of which is the delimiter after tab stripping) is the body
        intended = None
        strip = (lambda l: l.lstrip("\t")) if dash else (lambda l: l)
        if all(strip(l) != end_tag(tw) for l in lines) and not continued(tw, lines):
            intended = "".join(strip(l) + "\n" for l in lines)
        if bad is None and intended is not None and f[0] == "ok" and unesc(f[2]) != intended:
            bad = "body is not byte-exact: got %r, want %r" % (unesc(f[2]), intended)
        if bad and nviol < 20:
            nviol += 1
            ctx.violation(bad, dict(case, brush_tokens=t, model=m), kind="correspondence" if intended is None else "property")
    # (2) end to end: brush binary vs bash vs model (scan + expansion)
    scripts, expect, meta = [], [], []
    ereqs = []
    for (dash, tw, lines, layout), (text, tabs), bd in zip(cases, texts, bodies):
        if bd is None:
            continue
        strip = (lambda l: l.lstrip("\t")) if dash else (lambda l: l)
        if not all(strip(l) != end_tag(tw) for l in lines):
            continue            # the intended document ends early: what follows is arbitrary shell text
        if bd[2] != ("echo R 'q r'\n" if layout != "noeol" else ""):
            continue            # a continued last line swallowed the delimiter line: the script would fall apart
        if bd[0] and not expansion_in_model_domain(lines):
            continue
        if "$x" == tw:
            pass
        scripts.append(heredoc_script(dash, tw, lines, layout, tabs))
        meta.append((dash, tw, lines, layout))
        ereqs.append(("C10 E %s %s" % (esc(bd[1]), esc(XVAL))) if bd[0] else None)
        expect.append(bd[:2])
    eouts = lib.run_drv_parallel([e for e in ereqs if e is not None], workers=W)
    it = iter(eouts)
    contents = [unesc(next(it)) if e is not None else bd[1] for e, bd in zip(ereqs, expect)]
    okb, bouts, _ = lib.run_vh_parallel(BIN, ["RAW brush " + esc(s) for s in scripts], args=[lib.BRUSH, lib.BASH], workers=W)
    oko, oouts, _ = lib.run_vh_parallel(BIN, ["RAW bash " + esc(s) for s in scripts], args=[lib.BRUSH, lib.BASH], workers=W)
    for (dash, tw, lines, layout), script, content, b, o in zip(meta, scripts, contents, bouts, oouts):
        ctx.count(("E", script), nontrivial=len(lines) >= 1, bucket="heredoc_e2e_" + layout)
        ctx.impl_validated += 1
        bo, oo = unesc(parse_resp(b).get("out", "%")), unesc(parse_resp(o).get("out", "%"))
        brc, orc = parse_resp(b).get("rc"), parse_resp(o).get("rc")
        tail = {"plain": "Hend\n", "noeol": "", "two": "second $x\nHend\n", "subst": "Hend\n", "func": "Hend\n"}[layout]
        if layout == "subst":
            want = (content + "two\n").rstrip("\n") + "\n" + tail
        else:
            want = content + tail
        case = {"script": script, "dash": dash, "tag": tw, "lines": lines, "layout": layout}
        okbash, clause = bash_heredoc_ok(tw, lines, dash)
        if oo != (want if okbash else oo) :
            ctx.oracle_mismatch += 1
        prop_fails = (bo, brc) != (oo, orc)
        body_txt = "\n".join(lines)
        if prop_fails and layout == "subst" and "$'" in body_txt and bo == "\n" + tail:
            # the word parser looking for the `)` of `$(` trips over a quote character of the body: the
            # substitution is not run at all ("failed to parse word"); not a here-document scanning matter
            ctx.known_or_violation(HD_CLAUSES[1], "a here-document inside $( ) whose body holds $' (an unterminated ANSI-C quote for the word parser) makes the whole substitution fail",
                                   dict(case, brush=bo, bash=oo))
            continue
        if bo != want:
            if nviol < 25:
                nviol += 1
                ctx.violation("here-document model and brush disagree on what the command reads" + (" and brush differs from bash" if prop_fails else ""),
                              dict(case, brush=bo, model=want, bash=oo), kind="property" if prop_fails else "correspondence")
        elif prop_fails:
            if clause:
                ctx.known_or_violation(clause, "here-document content differs from bash", dict(case, brush=bo, bash=oo))
            elif nviol < 25:
                nviol += 1
                ctx.violation("here-document content differs from bash inside the proved domain", dict(case, brush=bo, bash=oo))
    return scripts


def _cmds_from_json(x):
    """JSON round trip: commands and redirections are tuples, bodies / redirect lists are lists"""
    def cmd(c):
        k = c[0]
        if k in "PB":
            return (k, c[1], [red(r) for r in c[2]], c[3])
        if k == "X":
            return ("X", [red(r) for r in c[1]])
        if k == "G":
            return ("G", c[1], [cmd(y) for y in c[2]], [red(r) for r in c[3]])
        if k == "U":
            return ("U", [cmd(y) for y in c[1]], [red(r) for r in c[2]])
        return ("C", c[1], [cmd(y) for y in c[2]], [red(r) for r in c[3]], [red(r) for r in c[4]])

    def red(r):
        r = list(r)
        if r[0] == "d" and r[3] is not None:
            r[3] = tuple(r[3])
        return tuple(r)
    return [cmd(c) for c in x]


def run(ctx):
    ok, out = lib.cargo_build([BIN])
    if not ok:
        lib.log(out[-4000:])
        ctx.broken.append("harness c10 does not build against the current tree: " + lib._first_errors(out))
    ctx.proof_stage(gens=[c10gen.gen_redir_tables])
    if not ok:
        return
    cdir = os.path.join(lib.ROOT, "corpus", PROP)
    fd_cases, hd_cases = [], []
    if os.path.isdir(cdir):
        for f in sorted(os.listdir(cdir)):
            if f.endswith(".json"):
                for rec in json.load(open(os.path.join(cdir, f))):
                    if "cmds" in rec:
                        fd_cases.append((rec["nc"], _cmds_from_json(rec["cmds"]), "corpus"))
                    elif "lines" in rec:
                        hd_cases.append((rec["dash"], rec["tag"], rec["lines"], rec.get("layout", "plain")))
    fd_cases += exhaustive_cases()
    rng = ctx.rng
    for i in range(ctx.size(1200, 25000)):
        g = Gen(random.Random(rng.getrandbits(48)), move=(i % 10 == 0))
        fd_cases.append((rng.random() < 0.25, g.script(), "rand"))
    scripts, bouts, infos = decide_fd(ctx, fd_cases)
    for i in (len(scripts) // 2, len(scripts) - 1):
        ctx.sample({"script": scripts[i], "brush": bouts[i]})
    sweep(ctx, infos)
    hd_cases += heredoc_cases(ctx)
    hs = decide_heredoc(ctx, hd_cases)
    if hs:
        ctx.sample({"heredoc_script": hs[len(hs) // 2]})
    ctx.cov["rule"] = ("redirection lists (every form x descriptors {default,0,1,2,3,7} x 8 targets exhaustively on 9 command hosts, ordered "
                       "pairs over 18 redirections, seeded random lists of length <= 4 over descriptors 0-9 on builtins, externals, "
                       "functions (call and definition redirections), brace groups, for/while/if, subshells, exec, nested two levels, "
                       "with and without noclobber); observables: every file of the scratch directory, stdout/stderr files, exit "
                       "statuses, and per probe the readlink/mode of descriptors 0-9 plus markers written through each of them; "
                       "here-documents: exhaustive single lines (39 adversarial atoms) and ordered pairs (15 atoms) x 3 delimiter forms x <</<<-, "
                       "seeded random bodies, layouts plain / two per line / inside $( ) / inside a function / no final newline; "
                       "non-trivial = at least one redirection / one body line; context sweep: a seeded sample of the cases re-run (a) with every "
                       "top-level command inside a function, two functions deep, a function with a definition redirect, a subshell, a "
                       "group with a redirect, a for body, a loop fed by its own `done <file`, run twice in one shell, after `exec` made "
                       "descriptors 5-7 persistent, with noclobber flipped (all through the model), (b) as whole scripts inside a function, "
                       "$( ), eval, the first/middle/last stage of a pipeline (lastpipe off and on), an EXIT trap, a sourced file, a "
                       "`while read … done <file` body, and under 13 options that must not matter (brush against bash), plus fixed "
                       "scripts for `&>`/`>&` number-vs-name, here-documents in functions called repeatedly, process substitutions as "
                       "targets and repeated redirected commands")
    ctx.assumptions += ["bash 5.2.15 is the oracle; the flat POSIX reference semantics (Spec/FdFlat.lean) is compared with it on every case "
                        "(oracle_mismatch counts disagreements)",
                        "the kernel implements open/dup2/close/write as modelled by Sys (regular files, a directory, /dev/null, a missing parent)",
                        "error messages are canonicalised to <ERR>; cases where text of unknown length would be overwritten are skipped",
                        "what the child receives through std::process / command-fds is observed (probe), not proved"]


def replay(ctx, rp):
    ok, out = lib.cargo_build([BIN])
    case = rp["case"]
    script = case.get("script")
    if script is None and "lines" in case:
        # here-document, tokenizer level
        text = case["text"]
        src = "cat %s%s\n%s" % ("<<-" if case["dash"] else "<<", case["tag"], text)
        _, t, _ = lib.run_vh(BIN, ["T " + esc(src)], args=[lib.BRUSH, lib.BASH])
        m = lib.run_drv(["C10 H %d %s %s" % (1 if case["dash"] else 0, esc(case["tag"]), esc(text))])
        print("source:\n" + src)
        print("brush tokens:", [unesc(x[1:]) for x in t[0].split(" ")[1:]] if t and t[0].startswith("ok") else t)
        f = m[0].split(" ")
        print("model:       ", ("body=%r rest=%r" % (unesc(f[2]), unesc(f[3]))) if f[0] == "ok" else m[0])
        if f[0] != "ok":
            return 0 if t and t[0].startswith("err Unterminated") else 1
        if not (t and t[0].startswith("ok")):
            return 1
        tt = t[0].split(" ")[1:]
        return 0 if len(tt) >= 5 and unesc(tt[3][1:]) == unesc(f[2]) else 1
    if script is None:
        print(json.dumps(case, indent=1))
        return 1
    raw = "cmds" not in case
    _, b, _ = lib.run_vh(BIN, ["%s brush %s" % ("RAW" if raw else "R", esc(script))], args=[lib.BRUSH, lib.BASH])
    _, o, _ = lib.run_vh(BIN, ["%s bash %s" % ("RAW" if raw else "R", esc(script))], args=[lib.BRUSH, lib.BASH])
    print("script:\n" + script)
    print("brush: ", b[0] if b else "<none>")
    print("bash:  ", o[0] if o else "<none>")
    if not raw:
        m = lib.run_drv([request_of(case["nc"], _cmds_from_json(case["cmds"]))])
        print("model: ", m[0])
        return 1 if canon_resp(b[0]) != canon_resp(o[0]) or canon_resp(m[0][2:].split(" | S ")[0]) != canon_resp(b[0]) else 0
    fb, fo = parse_resp(b[0]), parse_resp(o[0])
    return 1 if (fb.get("out"), fb.get("rc")) != (fo.get("out"), fo.get("rc")) else 0
