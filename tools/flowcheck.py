"""Shared decision procedure for the control-flow properties (C02, C03, …): brush vs bash vs both Lean models."""
import lib
import flowgen


def canon(r):
    if r["timeout"]:
        return "timeout"
    return "%d %s" % (r["rc"], ",".join(r["out"].split()))


def parse_variant(script):
    """Defects of the parser that stop a valid program before it runs are not part of the flow model:
    a token-identical variant of the script avoids the construct (`( (` → newline between the parentheses).
    (`esac )` and `! exit n` were repaired in /repo; `( (` could not be: a snapshot test pins the defective parse.)"""
    if "( (" not in script:
        return None, None
    v = script
    while "( (" in v:
        v = v.replace("( (", "(\n(")
    return "nested_subshell_as_arith", v


def decide(ctx, cases, drv_prop="C02", fd3=False):
    """cases: list of (tag, prog, raw_esac). Runs every program in brush and bash and through the Lean driver
    (`<impl> | <bash spec> | D=<guard clauses>`), classifies per DESIGN.md section 4. Returns (scripts, results)."""
    # seeded random programs are rendered with semantics-preserving decorations half of the time (the models
    # see the same program; brush goes through "compound command with redirects", newline separators, `function f`)
    def deco_of(i, tag):
        if not tag.startswith("rand") or i % 2:
            return None
        return (ctx.seed << 20) + i
    scripts = [flowgen.render(p, raw_esac=raw, fd3=fd3, deco=deco_of(i, tag)) for i, (tag, p, raw) in enumerate(cases)]

    def one(s):
        return lib.run_both(s, timeout=20)

    res = lib.pmap(one, scripts)
    # a timeout under load is not evidence: re-run such cases one at a time with a generous limit
    for i, (b, o) in enumerate(res):
        if b["timeout"] or o["timeout"]:
            res[i] = lib.run_both(scripts[i], timeout=120)
            ctx.bucket("retried_after_timeout")
    mouts = lib.run_drv_parallel([drv_prop + " " + flowgen.wire_prog(p) for _, p, _ in cases])
    nshown = 0
    for (tag, p, raw), s, (b, o), m in zip(cases, scripts, res, mouts):
        kinds = flowgen.kinds(p)
        ctx.count(s, nontrivial=len(kinds) >= 3, bucket=tag)
        for k in kinds:
            ctx.bucket("uses_" + k)
        ctx.impl_validated += 1
        parts = m.split(" | ")
        if len(parts) != 3:
            ctx.violation("driver could not evaluate the program", {"script": s, "drv": m}, kind="correspondence")
            continue
        impl, spec, dom = parts
        dom = [] if dom == "D=-" else dom[2:].split(",")
        cb, co = canon(b), canon(o)
        case = {"script": s, "wire": flowgen.wire_prog(p), "brush": cb, "bash": co, "impl_model": impl,
                "bash_spec_model": spec, "guard_clauses": dom, "brush_stderr": b["err"][-300:]}
        if co != spec:
            ctx.oracle_mismatch += 1          # my transcription of bash is wrong here: never a violation of brush
            ctx.notes.append("oracle_mismatch: " + s[-200:])
        prop_holds = (cb == co)
        if cb == impl:
            if prop_holds:
                continue
            if dom:
                for c in dom:
                    ctx.known_or_violation(c, "brush and bash run different commands / statuses", case)
            else:
                ctx.violation("brush differs from bash inside the proved domain although the model agrees with brush "
                              "(model or theorem wrong?)", case)
        else:
            # model != brush: a parser defect outside the model, or a broken correspondence
            clause, variant = parse_variant(s)
            if clause:
                bv = lib.run_shell("brush", variant, timeout=20)
                cbv = canon(bv)
                if cbv == impl:
                    # the parser defect explains why brush left its model; judge the rest on the variant
                    ctx.known_or_violation(clause, "brush fails to parse a valid program", case)
                    if cbv != co:
                        if dom:
                            for c in dom:
                                ctx.known_or_violation(c, "brush and bash run different commands / statuses", case)
                        else:
                            ctx.violation("brush differs from bash inside the proved domain (variant without the parser defect)", case)
                    continue
            if prop_holds:
                ctx.violation("control-flow model and brush disagree (correspondence broken; brush still equals bash here)",
                              case, kind="correspondence")
            else:
                ctx.violation("brush differs from bash (and from its model): commands run / `$?` differ", case, kind="property")
    return scripts, res
