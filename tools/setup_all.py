"""./check --setup : build everything the claimed checks need, from files on disk (offline)."""
import glob, json, os, sys
import lib

def main():
    claimed = [c["property_id"] for c in json.load(open(os.path.join(lib.ROOT, "MANIFEST.json")))["checks"]]
    bins = [p.lower() for p in claimed if os.path.exists(os.path.join(lib.HARNESS, "src", "bin", p.lower() + ".rs"))]
    ok, out = lib.cargo_build(bins)
    print(out[-1500:])
    if not ok:
        print("setup: cargo build failed")
        return 1
    props = [p for p in claimed if os.path.exists(os.path.join(lib.LEAN, "BrushVerif", "Props", p + ".lean"))]
    ok, out = lib.lake_build(["BrushVerif.Props.%s" % p for p in props] + ["drv"])
    print(out[-1500:])
    if not ok:
        print("setup: lake build failed")
        return 1
    print("setup ok: harness bins %s, props %s" % (bins, props))
    return 0
