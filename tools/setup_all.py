"""./check --setup : build everything from files on disk (offline)."""
import glob, os, sys
import lib

def main():
    bins = sorted(os.path.basename(p)[:-3] for p in glob.glob(os.path.join(lib.HARNESS, "src", "bin", "c*.rs")))
    ok, out = lib.cargo_build(bins)
    print(out[-1500:])
    if not ok:
        print("setup: cargo build failed")
        return 1
    props = sorted(os.path.basename(p)[:-5] for p in glob.glob(os.path.join(lib.LEAN, "BrushVerif", "Props", "C*.lean")))
    ok, out = lib.lake_build(["BrushVerif.Props.%s" % p for p in props] + ["drv"])
    print(out[-1500:])
    if not ok:
        print("setup: lake build failed")
        return 1
    print("setup ok: harness bins %s, props %s" % (bins, props))
    return 0
