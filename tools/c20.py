"""C20 — command history is saved once, in order, and reloads as saved."""
import itertools
import json
import os
import lib
from lib import esc, unesc

BIN = "c20"


def cmd_lines(file_text):
    lines = file_text.split("\n")
    if lines and lines[-1] == "":
        lines.pop()
    lines = [l[:-1] if l.endswith("\r") else l for l in lines]
    return [l for l in lines if not l.startswith("#")]


def recorded(ops):
    out = []
    for op in ops:
        if op.startswith("add:"):
            c = unesc(op[4:]).strip()
            if c:
                out.append(c)
        elif op.startswith("hs:"):
            out.append(unesc(op[3:]))
    return out


def is_sublist(a, b):
    it = iter(b)
    return all(any(x == y for y in it) for x in a)


KINDS = ["add", "addpad", "hs", "a", "w", "x", "k", "d:1", "d:-1", "d:2", "c", "t", "X", "K"]


def render(kinds):
    """kinds -> ops with position-unique command texts (so 'exactly once' is observable)."""
    ops = []
    for i, k in enumerate(kinds):
        if k == "add":
            ops.append("add:" + esc("cmd%d x" % i))
        elif k == "addpad":
            ops.append("add:" + esc("  pad%d\t " % i))
        elif k == "hs":
            ops.append("hs:" + esc("s%d 'q'" % i))
        else:
            ops.append(k)
    return ops


ODD = ["#lead", "a\nb", "tail\r", "", "   ", "é 日", "#12", "x#y", " nb "]
FILES = ["", "#123\none\n#x\ntwo", "one\r\ntwo\n", "#-5\nneg\n#+7\nplus\n#99999999999999\nbig\n#8210266876799\nmax\n#8210266876800\nover\n",
         "# 12 \nsp\n#\nempty\n\n\nblank\n", "#-8334601228800\nmin\n#-8334601228801\nunder\n#9223372036854775808\nhuge\n",
         "dup\ndup\n#1\n#2\ntwice\n"]


def direct_check(ctx, ops, steps):
    """The property itself on brush's own output (valid, pairwise distinct commands)."""
    rec = recorded(ops)
    last_file = None
    for i, st in enumerate(steps):
        f = unesc(st.split(" ")[0][2:])
        cl = cmd_lines(f)
        why = None
        if len(set(cl)) != len(cl):
            why = "a recorded command appears twice in the history file"
        elif not is_sublist(cl, rec):
            why = "history file is not in recording order / holds a command never recorded"
        if why is None and ops[i] in ("a", "x", "X") :
            # everything the session holds is now in the file
            items = st.split(" ")[1][2:]
            have = [unesc(it.rsplit(":", 2)[0]) for it in items.split(",")] if items else []
            if ops[i] == "a" and any(h not in cl for h in have):
                why = "after save a session command is missing from the file"
        if why is None and i > 0 and ops[i] == "a" and ops[i - 1] in ("a", "w", "x", "X") and f != last_file:
            why = "saving again without new commands changed the file"
        if why:
            return why, i
        last_file = f
    return None, None


def run(ctx):
    ok, out = lib.cargo_build([BIN])
    if not ok:
        lib.log(out[-4000:])
        ctx.broken.append("harness c20 does not build against the current tree: " + lib._first_errors(out))
    ctx.proof_stage()
    if not ok:
        return
    cases = []
    # corpus of minimised past failures first
    cdir = os.path.join(lib.ROOT, "corpus", "C20")
    if os.path.isdir(cdir):
        for f in sorted(os.listdir(cdir)):
            for l in open(os.path.join(cdir, f)):
                l = l.strip()
                if l and not l.startswith("//"):
                    cases.append(("corpus", l.split(" ")))
    n = ctx.size(4, 5)
    for k in range(1, n + 1):
        for kinds in itertools.product(KINDS, repeat=k):
            if not any(x in ("add", "addpad", "hs") for x in kinds):
                continue
            cases.append(("exh", render(kinds)))
    rng = ctx.rng
    for _ in range(ctx.size(3000, 60000)):
        k = rng.randint(5, 40)
        kinds = [rng.choice(KINDS + ["add", "add", "a", "x"]) for _ in range(k)]
        cases.append(("rand", render(kinds)))
    # malformed / excluded stream: odd commands and externally seeded files (model correspondence only)
    for _ in range(ctx.size(2000, 30000)):
        k = rng.randint(1, 8)
        ops = []
        for i in range(k):
            r = rng.random()
            if r < 0.25:
                ops.append(rng.choice(["add:", "hs:"]) + esc(rng.choice(ODD)))
            elif r < 0.4:
                ops.append("f:" + esc(rng.choice(FILES)))
            else:
                ops.extend(render([rng.choice(KINDS)]))
        cases.append(("odd", ops))
    lines = [" ".join(ops) for _, ops in cases]
    okh, bouts, errs = lib.run_vh_parallel(BIN, lines)
    if not okh:
        ctx.broken.append("harness c20 died: " + errs[:500])
    mouts = lib.run_drv_parallel(["C20 " + l for l in lines])
    nviol = 0
    for (kind, ops), b, m in zip(cases, bouts, mouts):
        ctx.count(tuple(ops), nontrivial=len(ops) >= 2, bucket=kind)
        ctx.bucket("ops_len_%d" % min(len(ops), 10))
        ctx.impl_validated += 1
        bsteps = b.split(" | ")
        why = at = None
        if kind != "odd":
            why, at = direct_check(ctx, ops, bsteps)
        if b != m:
            if nviol < 20:
                msteps = m.split(" | ")
                at2 = next((i for i, (x, y) in enumerate(zip(bsteps, msteps)) if x != y), min(len(bsteps), len(msteps)))
                nviol += 1
                ctx.violation("history model and brush disagree (correspondence broken)" + (": " + why if why else ""),
                              {"ops": ops[:at2 + 1], "brush": bsteps[at2:at2 + 1], "model": msteps[at2:at2 + 1]},
                              kind="property" if why else "correspondence")
        elif why:
            # brush == model and the property fails: inside the guard of the _partial theorems?
            if "w" in ops[:at + 1]:
                ctx.known_or_violation("write_then_append_duplicates", why, {"ops": ops[:at + 1], "brush": bsteps[:at + 1]})
            elif nviol < 20:
                nviol += 1
                ctx.violation(why + " (inside the proved domain: model and theorem disagree?)",
                              {"ops": ops[:at + 1], "brush": bsteps[:at + 1]})
    ctx.sample({"ops": cases[len(cases) // 3][1], "brush": bouts[len(cases) // 3]})
    ctx.sample({"ops": cases[-1][1], "brush": bouts[-1]})
    ctx.cov["rule"] = ("exhaustive op sequences over %d op kinds up to length %d with position-unique commands, "
                       "seeded random to length 40, plus a malformed stream (odd commands, seeded files); "
                       "non-trivial = at least 2 ops; distinct by hash of the op sequence" % (len(KINDS), n))
    ctx.assumptions += ["file system behaves as a flat byte sequence for one writer at a time",
                        "fresh timestamps canonicalised to 4000000000 on both sides",
                        "reedline's own history backend (brush-interactive/src/reedline/history.rs) is not modelled"]
    end_to_end(ctx)


def end_to_end(ctx):
    """A sample through the real binary: interactive sessions on stdin with HISTFILE."""
    import tempfile
    rng = ctx.rng
    n = ctx.size(24, 200)
    jobs = []
    for j in range(n):
        sessions = []
        for s in range(rng.randint(1, 3)):
            cmds = []
            for i in range(rng.randint(1, 5)):
                r = rng.random()
                if r < 0.6:
                    cmds.append("echo s%d_%d_%d" % (j, s, i))
                elif r < 0.75:
                    cmds.append("history -a")
                elif r < 0.9:
                    cmds.append("history -w")
                else:
                    cmds.append("history -d -1")
            sessions.append(cmds)
        jobs.append(sessions)

    def one(sessions):
        d = tempfile.mkdtemp(prefix="c20e2e-")
        hf = os.path.join(d, "h")
        try:
            for cmds in sessions:
                r = _interactive(cmds, hf)
                if r["timeout"]:
                    return ("timeout", None)
            txt = open(hf).read() if os.path.exists(hf) else ""
            return ("ok", txt)
        finally:
            import shutil
            shutil.rmtree(d, ignore_errors=True)

    res = lib.pmap(one, jobs)
    eff = {"history -a": "a", "history -w": "w", "history -d -1": "d:-1"}
    reqs = []
    for sessions in jobs:
        ops = []
        for cmds in sessions:
            for c in cmds:
                ops.append("add:" + esc(c))
                if c in eff:
                    ops.append(eff[c])
            ops.append("x")
        reqs.append(ops)
    mouts = lib.run_drv(["C20 " + " ".join(o) for o in reqs])
    for sessions, ops, (st, txt), m in zip(jobs, reqs, res, mouts):
        ctx.count(("e2e", tuple(map(tuple, sessions))), bucket="e2e_sessions")
        if st != "ok":
            ctx.violation("interactive brush session timed out", {"sessions": sessions})
            continue
        mfile = unesc(m.split(" | ")[-1].split(" ")[0][2:])
        cl = cmd_lines(txt)
        rec = [c for s_ in sessions for c in s_]
        why = None
        if not is_sublist(cl, rec):
            why = "history file is not a subsequence of the recorded commands: duplicate or out of order (real interactive sessions)"
        if txt != mfile:
            ctx.violation("history model and the brush binary disagree on the history file" + (": " + why if why else ""),
                          {"sessions": sessions, "brush_file": txt, "model_file": mfile},
                          kind="property" if why else "correspondence")
        elif why:
            if any("history -w" in s_ for s_ in sessions):
                ctx.known_or_violation("write_then_append_duplicates", why, {"sessions": sessions, "file": txt})
            else:
                ctx.violation(why, {"sessions": sessions, "file": txt})
    if jobs:
        ctx.sample({"e2e_sessions": jobs[0], "file": res[0][1]})


def _interactive(cmds, hf):
    import subprocess
    e = dict(lib.BASE_ENV)
    e["HISTFILE"] = hf
    try:
        p = lib.sp_run([lib.BRUSH, "--norc", "--noprofile", "--no-config", "-i", "--input-backend", "minimal"],
                           input=("\n".join(cmds) + "\n").encode(), stdout=subprocess.PIPE, stderr=subprocess.PIPE,
                           env=e, timeout=30)
        return {"rc": p.returncode, "timeout": False, "out": p.stdout.decode("utf-8", "replace")}
    except subprocess.TimeoutExpired:
        return {"rc": -9, "timeout": True, "out": ""}


def replay(ctx, rp):
    ok, out = lib.cargo_build([BIN])
    case = rp["case"]
    if "ops" in case:
        line = " ".join(case["ops"])
        _, b, _ = lib.run_vh(BIN, [line])
        m = lib.run_drv(["C20 " + line])
        print("ops:   ", line)
        print("brush: ", b[0] if b else "<none>")
        print("model: ", m[0])
        why, at = direct_check(ctx, case["ops"], b[0].split(" | ")) if b else ("harness died", 0)
        print("property on brush:", why or "holds")
        return 1 if (why or (b and b[0] != m[0])) else 0
    print(json.dumps(case, indent=1))
    return 1
