"""C13 — shell-quoted output re-reads to the original values."""
import itertools
import json
import os
import re
import shutil
import subprocess
import tempfile
import lib
from lib import esc, unesc

BIN = "c13"
HOME = "/hh"

# ------------------------------------------------------------------------------------------------
# translator: the tables of brush-core/src/escape.rs -> lean/BrushVerif/Gen/QuoteTables.lean

_RUST_ESC = {"n": 10, "r": 13, "t": 9, "\\": 92, "'": 39, '"': 34, "0": 0}


def _rust_char(lit):
    """code point of a Rust char literal body (between the quotes)"""
    if len(lit) == 1:
        return ord(lit)
    if lit.startswith("\\x"):
        return int(lit[2:], 16)
    if lit.startswith("\\u{"):
        return int(lit[3:-1], 16)
    if lit[0] == "\\" and lit[1:] in _RUST_ESC:
        return _RUST_ESC[lit[1:]]
    raise ValueError("char literal not understood: %r" % lit)


_CHAR_LIT = r"'((?:\\x[0-9a-fA-F]{2}|\\u\{[0-9a-fA-F]+\}|\\.|[^\\']))'"


def _fn_body(src, name):
    m = re.search(r"\bfn\s+%s\s*(?:<[^>]*>)?\s*\([^)]*\)[^{]*\{" % re.escape(name), src)
    if not m:
        raise ValueError("escape.rs: fn %s not found" % name)
    i = m.end()
    depth = 1
    while depth and i < len(src):
        if src[i] == "{":
            depth += 1
        elif src[i] == "}":
            depth -= 1
        elif src[i] == "'":   # skip char literals such as '{'
            mm = re.match(_CHAR_LIT, src[i:])
            if mm:
                i += mm.end() - 1
        elif src[i] == '"':
            j = i + 1
            while src[j] != '"':
                j += 2 if src[j] == "\\" else 1
            i = j
        i += 1
    return src[m.end():i - 1]


def _strip_comments(text):
    """drop // comments (outside string and char literals)"""
    out, i = [], 0
    while i < len(text):
        ch = text[i]
        if ch == '"':
            j = i + 1
            while j < len(text) and text[j] != '"':
                j += 2 if text[j] == "\\" else 1
            out.append(text[i:j + 1]); i = j + 1
        elif ch == "'" and re.match(_CHAR_LIT, text[i:]):
            mm = re.match(_CHAR_LIT, text[i:])
            out.append(mm.group(0)); i += mm.end()
        elif text.startswith("//", i):
            j = text.find("\n", i)
            i = len(text) if j < 0 else j
        else:
            out.append(ch); i += 1
    return "".join(out)


def _rust_str(body):
    """code points of a Rust string literal body"""
    out, i = [], 0
    while i < len(body):
        if body[i] == "\\":
            if body[i + 1] not in _RUST_ESC:
                raise ValueError("string escape not understood: %r" % body)
            out.append(_RUST_ESC[body[i + 1]])
            i += 2
        else:
            out.append(ord(body[i]))
            i += 1
    return out


def _alts(text, what):
    """code points of `'a' | 'b' | …`"""
    lits = re.findall(_CHAR_LIT, text)
    rest = re.sub(_CHAR_LIT, "", text)
    if not lits or rest.replace("|", "").strip():
        raise ValueError("escape.rs: %s: alternatives are not all char literals: %r" % (what, text[:200]))
    return [_rust_char(l) for l in lits]


def _lean_char(n):
    return "Char.ofNat %d" % n


def gen_quote_tables():
    src = open(os.path.join(lib.REPO, "brush-core", "src", "escape.rs"), encoding="utf-8").read()
    # needs_escaping: a single matches!(c, 'a' | 'b' | …)
    body = _fn_body(src, "needs_escaping")
    m = re.fullmatch(r"\s*matches!\(\s*c\s*,(.*)\)\s*", body, re.S)
    if not m:
        raise ValueError("escape.rs: needs_escaping is no longer a single matches!(c, …) table")
    ne = _alts(m.group(1), "needs_escaping")
    # needs_ansi_c_quoting
    body = _fn_body(src, "needs_ansi_c_quoting")
    if body.strip() != "c.is_ascii_control()":
        raise ValueError("escape.rs: needs_ansi_c_quoting is no longer `c.is_ascii_control()`: %r" % body.strip())
    # double_quote: matches!(c, '$' | '`' | '"' | '\\')   (the local's name and comments are free)
    body = _strip_comments(_fn_body(src, "double_quote"))
    m = re.search(r"if\s+matches!\(\s*c\s*,([^)]*)\)\s*\{\s*(\w+)\.push\('\\\\'\);\s*\}\s*\2\.push\(c\);", body, re.S)
    if not m:
        raise ValueError("escape.rs: double_quote escape set not found")
    dq = _alts(m.group(1), "double_quote")
    r = m.group(2)
    lib.shape_guard(re.search(r"%s\.push\('\"'\);\s*for c in s\.chars\(\)" % r, body)
                    and re.search(r"\}\s*%s\.push\('\"'\);\s*%s\s*$" % (r, r), body.strip()),
                    "escape.rs: double_quote no longer wraps in one pair of double quotes in the transcribed way")
    # ansi_c_quote: arms 'X' => result.push_str("\\y"), then the octal arm, then the literal arm
    body = _strip_comments(_fn_body(src, "ansi_c_quote"))
    arms = re.findall(r"%s\s*=>\s*\w+\.push_str\(\"((?:\\.|[^\"\\])*)\"\)" % _CHAR_LIT, body)
    if len(arms) < 5:
        raise ValueError("escape.rs: ansi_c_quote named arms not found")
    named = []
    for lit, rep in arms:
        named.append((_rust_char(lit), _rust_str(rep)))
    flat = re.sub(r"\s+", "", body)
    lib.shape_guard(re.search(r'cifneeds_ansi_c_quoting\(c\)=>\{?\w+\.push_str\(std::format!\("\\\\\{:03o\}",casu8\)\.as_str\(\)\);?\}?', flat),
                    "escape.rs: ansi_c_quote octal arm changed")
    lib.shape_guard(re.search(r"_\s*=>\s*\w+\.push\(c\)", body) and re.search(r"\w+\.push_str\(\"\$'\"\)", body)
                    and re.search(r"(\w+)\.push\('\\''\);\s*\1\s*$", body.strip()),
                    "escape.rs: ansi_c_quote frame changed")
    # characters special by position (the model's `isSpecialByPos`) and where the rule is applied: transcription
    # checks of hand-modelled code, not needed for a table -> shape guards
    flat = re.sub(r"\s+", "", _strip_comments(_fn_body(src, "is_special_by_position")))
    lib.shape_guard(flat == "matchc{'~'=>matches!(prev,None|Some(':'|'=')),'#'=>prev.is_none(),_=>false,}",
                    "escape.rs: is_special_by_position changed: %r" % flat[:200])
    flat = re.sub(r"\s+", "", _strip_comments(_fn_body(src, "contains_char_special_by_position")))
    lib.shape_guard(flat == "letmutprev=None;forcins.chars(){ifis_special_by_position(prev,c){returntrue;}prev=Some(c);}false",
                    "escape.rs: contains_char_special_by_position changed: %r" % flat[:200])
    flat = re.sub(r"\s+", "", _strip_comments(_fn_body(src, "backslash_escape")))
    lib.shape_guard(re.search(r"ifneeds_escaping\(c\)\|\|is_special_by_position\(prev,c\)\{(\w+)\.push\('\\\\'\);\}\1\.push\(c\);prev=Some\(c\);", flat),
                    "escape.rs: backslash_escape no longer escapes characters special by position in the transcribed way")
    flat = re.sub(r"\s+", "", _strip_comments(_fn_body(src, "quote")))
    lib.shape_guard("||s.contains(needs_escaping)||contains_char_special_by_position(s)" in flat,
                    "escape.rs: quote no longer quotes text holding a character special by position in the transcribed way")
    # the reader: `\\0` takes at most two more octal digits inside $'…'
    flat = re.sub(r"\s+", "", _strip_comments(_fn_body(src, "expand_backslash_escapes")))
    lib.shape_guard("letmax_more=matchmode{EscapeExpansionMode::EchoBuiltin=>3,EscapeExpansionMode::AnsiCQuotes=>2,};" in flat
                    and "iftaken_so_far<max_more&&matches!(*c,'0'..='7')" in flat,
                    "escape.rs: expand_backslash_escapes: octal digit limit after `\\0` changed")
    out = ["/-! GENERATED by tools/c13.py from brush-core/src/escape.rs — do not edit. -/",
           "namespace BrushVerif.Gen.QuoteTables", "",
           "/-- `needs_escaping` -/",
           "def needsEscapingTable : List Char := [%s]" % ", ".join(_lean_char(n) for n in ne), "",
           "/-- characters `double_quote` prefixes with a backslash -/",
           "def dqEscapedTable : List Char := [%s]" % ", ".join(_lean_char(n) for n in dq), "",
           "/-- `ansi_c_quote`: characters with a named replacement -/",
           "def ansiNamedTable : List (Char × List Char) := [%s]" % ", ".join(
               "(%s, [%s])" % (_lean_char(c), ", ".join(_lean_char(x) for x in rep)) for c, rep in named), "",
           "end BrushVerif.Gen.QuoteTables", ""]
    d = os.path.join(lib.LEAN, "BrushVerif", "Gen")
    os.makedirs(d, exist_ok=True)
    p = os.path.join(d, "QuoteTables.lean")
    text = "\n".join(out)
    if not os.path.exists(p) or open(p, encoding="utf-8").read() != text:
        open(p, "w", encoding="utf-8").write(text)


# ------------------------------------------------------------------------------------------------
# inputs

# the property's alphabet of quoting-relevant characters
ALPHA = ["'", '"', "\\", "$", "`", "!", " ", "\t", "\n", "\r", "\x01", "\x7f", "é", "-", "~", "#", "=", "0", "7", "a"]
# further classes for the random stream: every shell metacharacter, more controls, wide characters
EXTRA = list("()[]{}*?|&;<>^,%+@/.:_b18") + ["\x1b", "\x07", "\x1f", "\x0b", "\x0c", "\x08", "\x02", "日", " ", " ", "\u0085", "😀"]
NAMED_CTL = "\x07\x08\x1b\x0c\n\r\t\x0b"


def exhaustive(n):
    for k in range(0, n + 1):
        for t in itertools.product(ALPHA, repeat=k):
            yield "".join(t)


def rand_string(rng, maxlen=40):
    n = rng.randint(1, maxlen) if rng.random() < 0.7 else rng.randint(1, 6)
    pool = ALPHA if rng.random() < 0.5 else ALPHA + EXTRA
    return "".join(rng.choice(pool) for _ in range(n))


def has_ctl(v):
    return any(ord(c) < 0x20 or ord(c) == 0x7f for c in v)


# ------------------------------------------------------------------------------------------------
# bash as second reader (the oracle for "and in bash")

BASH_READER = r'''
tok=$ZZTOK
dump() {
  declare -p "$1" >/dev/null 2>&1 || { printf 'NONE\0'; return; }
  printf 'V\0'
  eval 'printf "%s\0" "${'$1'@a}"'
  eval 'for k in "${!'$1'[@]}"; do printf "%s\0%s\0" "$k" "${'$1'[$k]}"; done'
}
while IFS= read -r -d '' mode && IFS= read -r -d '' text; do
  (
    # reader route: ev (eval), src (a sourced file), rd (lines taken by `read -r`, then eval), hd (a quoted
    # here-document read by cat, then eval), dw (the text as operand of `declare`)
    rm=ev
    case $mode in *'|'*) rm=${mode%%|*}; mode=${mode#*|} ;; esac
    case $mode in
      a) set -- zz-unset-marker; stmt="set -- $text" ;;
      s) if [ "$rm" = dw ]; then stmt="declare zzr=$text"; else stmt="zzr=$text"; fi ;;
      *) stmt=$text
         if [ "$rm" = dw ]; then case $text in declare\ *|alias\ *|trap\ *) ;; *) stmt="declare $text" ;; esac; fi ;;
    esac
    case $rm in
      src) printf '%s\n' "$stmt" > "$ZZF"; . "$ZZF" >/dev/null 2>&1 </dev/null ;;
      rd)  printf '%s\n' "$stmt" > "$ZZF"; zzacc=; while IFS= read -r zzl; do zzacc+=$zzl$'\n'; done < "$ZZF"
           eval "$zzacc" >/dev/null 2>&1 </dev/null ;;
      hd)  eval "zzh=\$(cat <<'ZZEOF'
$stmt
ZZEOF
)" 2>/dev/null; eval "$zzh" >/dev/null 2>&1 </dev/null ;;
      *)   eval "$stmt" >/dev/null 2>&1 </dev/null ;;
    esac
    case $mode in
      a) if [ "$#" = 1 ] && [ "$1" = zz-unset-marker ]; then printf 'ERR\0'; else printf 'W\0'; [ "$#" -gt 0 ] && printf '%s\0' "$@"; fi ;;
      s) if [ "${zzr+x}" = x ]; then printf 'S\0%s\0' "$zzr"; else printf 'NONE\0'; fi ;;
      v:*) dump "${mode#v:}" ;;
      n:*) if [[ -R ${mode#n:} ]]; then eval 'printf "N\0%s\0" "${!'${mode#n:}'}"'; else printf 'NOTREF\0'; fi ;;
      al) if [ "${BASH_ALIASES[zzal]+x}" = x ]; then printf 'S\0%s\0' "${BASH_ALIASES[zzal]}"; else printf 'NONE\0'; fi ;;
      tr) t=$(trap -p USR1; printf x); t=${t%x}
         if [ -z "$t" ]; then printf 'NONE\0'
         elif [ "$t" = "trap -- \\' SIGUSR1"$'\n' ]; then printf 'S\0%s\0' "'"    # bash prints a lone quote as \'
         else t=${t#"trap -- '"}; t=${t%"' SIGUSR1"$'\n'}; q="'\\''"; printf 'S\0%s\0' "${t//"$q"/\'}"; fi ;;
    esac
  ) 2>/dev/null
  printf '%s\0' "$tok"
done
rm -f "$ZZF"
'''


def bash_read(jobs, cwd):
    """jobs: list of (mode, text). Returns canonical re-read strings (same format as the harness)."""
    if not jobs:
        return []
    tok = "END-" + os.urandom(8).hex()

    def part(chunk):
        data = b"".join(m.encode() + b"\0" + t.encode("utf-8", "surrogateescape") + b"\0" for m, t in chunk)
        e = dict(lib.BASE_ENV)
        e["HOME"] = HOME
        e["ZZTOK"] = tok    # not a positional parameter: a badly quoted text may expand `$1`
        e["ZZF"] = os.path.join(cwd, "zzrd-%s-%d" % (tok[-6:], id(chunk)))
        p = lib.sp_run([lib.BASH, "--norc", "--noprofile", "-c", BASH_READER, "bash"], input=data,
                           stdout=subprocess.PIPE, stderr=subprocess.DEVNULL, env=e, cwd=cwd, timeout=1800)
        recs = p.stdout.split(b"\0")
        out, cur = [], []
        for f in recs:
            f = f.decode("utf-8", "replace")
            if f == tok:
                out.append(cur)
                cur = []
            else:
                cur.append(f)
        out += [["DIED"]] * (len(chunk) - len(out))
        return [canon_bash(m, r) for (m, _), r in zip(chunk, out[:len(chunk)])]

    parts = lib.chunked(jobs, lib.NCPU)
    return [x for r in lib.pmap(part, parts) for x in r]


BRUSH_ATTR_ORDER = "cinrltux"


def canon_attrs(a):
    a = "".join(sorted(set(c for c in a if c not in "aA-"), key=lambda c: BRUSH_ATTR_ORDER.find(c)))
    return a or "-"


def canon_bash(mode, r):
    if not r:
        return "DIED"
    if r[0] == "W":
        return " ".join(["W", str(len(r) - 1)] + [esc(x) for x in r[1:]])
    if r[0] == "S":
        return "S " + esc(r[1] if len(r) > 1 else "")
    if r[0] == "N":
        return "N " + esc(r[1] if len(r) > 1 else "")
    if r[0] == "V":
        attrs = r[1] if len(r) > 1 else ""
        kv = r[2:]
        kind = "A" if "A" in attrs else ("a" if "a" in attrs else "s")
        if kind == "s":
            if not kv:
                return "V %s u" % canon_attrs(attrs)
            if len(kv) < 2:
                return "MALFORMED " + " ".join(esc(x) for x in r)
            return "V %s s %s" % (canon_attrs(attrs), esc(kv[1]))
        pairs = list(zip(kv[0::2], kv[1::2]))
        if kind == "A":
            pairs.sort(key=lambda p: p[0].encode("utf-8", "surrogateescape"))
            return " ".join(["V", canon_attrs(attrs), "A"] + [esc(k) + " " + esc(v) for k, v in pairs])
        return " ".join(["V", canon_attrs(attrs), "a"] + [k + " " + esc(v) for k, v in pairs])
    return r[0]


# ------------------------------------------------------------------------------------------------
# cases

class Case:
    __slots__ = ("kind", "form", "attrs", "vals", "req", "expect", "modes", "src")

    def __init__(self, src, form, attrs, vals):
        self.src, self.form, self.attrs, self.vals = src, form, attrs, vals
        if form in ("pq", "Q", "xt", "xs", "al", "alp", "tr"):
            self.req = "e2e %s %s" % (form, esc(vals[0]))
        elif form in ("A", "dp", "set", "ex"):
            self.req = "e2e %s %s %s" % (form, attrs or "-", esc(vals[0]))
        else:
            self.req = "e2e %s %s %s" % (form, attrs or "-", " ".join(esc(x) for x in vals))
        v = vals[0] if vals else ""
        if form in ("pq", "Q", "xt"):
            self.expect = ["W 1 " + esc(v), "S " + esc(v)]
            self.modes = ["a", "s"]
        elif form == "xs":
            self.expect, self.modes = ["V - s " + esc(v)], ["v:zzt"]
        elif form in ("A", "dp", "set", "ex"):
            a = canon_attrs(attrs + ("x" if form == "ex" else "")) if form != "set" else "-"
            self.expect, self.modes = ["V %s s %s" % (a, esc(v))], ["v:zzv"]
        elif form in ("al", "alp"):
            self.expect, self.modes = ["S " + esc(v)], ["al"]
        elif form == "tr":
            self.expect, self.modes = ["S " + esc(v)], ["tr"]
        elif form == "Qa":
            self.expect, self.modes = [" ".join(["W", str(len(vals) // 2)] + [esc(x) for x in vals[1::2]])], ["a"]
        else:
            assoc = form.endswith("A")
            a = canon_attrs(attrs) if not form.startswith("set") else "-"
            self.expect = [" ".join(["V", a, "A" if assoc else "a"] +
                                    [(esc(k) if assoc else k) + " " + esc(x) for k, x in zip(vals[0::2], vals[1::2])])]
            self.modes = ["v:zza"]

    def as_dict(self):
        return {"form": self.form, "attrs": self.attrs, "values": self.vals, "request": self.req}


SCALAR_FORMS = ["pq", "Q", "xt", "xs", "A", "dp", "set", "ex", "al", "alp", "tr"]
ATTRS = ["", "", "x", "r", "rx", "i", "l", "u", "t"]


def fit_attrs(rng, attrs, v):
    """a value a variable with these attributes can hold unchanged"""
    if "i" in attrs:
        return str(rng.choice([0, 7, -3, 42, 100000]))
    if "l" in attrs:
        return "".join(c for c in v if ord(c) < 128).lower()
    if "u" in attrs:
        return "".join(c for c in v if ord(c) < 128).upper()
    return v


def array_case(rng, src, strings):
    form = rng.choice(["dpa", "dpa", "dpA", "dpA", "Aa", "AA", "seta", "Qa"])
    attrs = rng.choice(["", "", "", "r", "x", "rx"]) if form not in ("seta", "Qa") else ""
    n = rng.randint(0 if form in ("dpa", "dpA") else 1, 4)
    vals = []
    if form.endswith("A"):
        keys = set()
        while len(keys) < n:
            k = rng.choice(strings)
            if k != "":
                keys.add(k)
        for k in sorted(keys, key=lambda s: s.encode("utf-8")):
            vals += [k, rng.choice(strings)]
    else:
        idx = sorted(rng.sample(range(0, 12), n)) if rng.random() < 0.5 else list(range(n))
        if form == "Qa":
            idx = list(range(n))
        for i in idx:
            vals += [str(i), rng.choice(strings)]
    return Case(src, form, attrs, vals)


def in_domain(form, v):
    """`trap -- - SIG` and `trap -- <number> SIG` reset the trap (in bash too): not commands that `trap -p` can print back"""
    if form == "tr" and (v == "-" or (v.isascii() and v.isdigit())):
        return False
    return True


def gen_cases(ctx):
    cases = [c for c in _gen_cases(ctx) if c.form != "tr" or in_domain("tr", c.vals[0])]
    return cases


def _gen_cases(ctx):
    rng = ctx.rng
    cases = []
    cdir = os.path.join(lib.ROOT, "corpus", "C13")
    if os.path.isdir(cdir):
        for f in sorted(os.listdir(cdir)):
            if not f.endswith(".txt"):
                continue
            for l in open(os.path.join(cdir, f), encoding="utf-8"):
                l = l.rstrip("\n")
                if l and not l.startswith("//"):
                    t = l.split(" ")
                    cases.append(Case("corpus", t[0], "" if t[1] == "-" else t[1], [unesc(x) for x in t[2:]]))
    small = list(exhaustive(2))                      # 421 strings
    for v in small:
        for form in SCALAR_FORMS:
            cases.append(Case("exh", form, "", [v]))
    n3 = ctx.size(0, 3)
    if n3:
        for v in exhaustive(3):
            if len(v) == 3:
                for form in ("pq", "Q", "dp", "xt"):
                    cases.append(Case("exh3", form, "", [v]))
    else:
        # a seed-independent slice of length 3 in the quick tier
        for i, v in enumerate(exhaustive(3)):
            if len(v) == 3 and i % 2 == 0:
                cases.append(Case("exh3", ("pq", "Q", "dp", "xt")[(i // 7) % 4], "", [v]))
    # every ASCII control character: alone, before an octal digit, inside a word
    for c in [chr(i) for i in range(1, 32)] + ["\x7f"]:
        for v in (c, c + "7", "a" + c + "b"):
            for form in ("pq", "Q", "dp", "xt", "set", "A"):
                cases.append(Case("ctl", form, "", [v]))
    for _ in range(ctx.size(8000, 60000)):
        v = rand_string(rng)
        form = rng.choice(SCALAR_FORMS)
        attrs = rng.choice(ATTRS) if form in ("A", "dp", "ex") else ""
        cases.append(Case("rand", form, attrs, [fit_attrs(rng, attrs, v)]))
    strings = small + [rand_string(rng, 12) for _ in range(400)]
    # associative keys over the characters that matter inside `[key]=`: all keys to length 2, a slice of length 3
    keyalpha = ["]", "[", '"', "\\", "'", "$", " ", "a", "=", "~"]
    klist = [k for n in (1, 2, 3) for k in map("".join, itertools.product(keyalpha, repeat=n))]
    for i, k in enumerate(klist):
        if len(k) == 3 and ctx.quick and i % 5:
            continue
        for form in (("dpA", "AA") if len(k) < 3 else ("dpA",)):
            cases.append(Case("exh-key", form, "", [k, "v " + k]))
    # several such keys in one array (the order is the byte order brush prints)
    for i in range(0, len(klist) - 3, 3 if ctx.quick else 1):
        ks = sorted(set(klist[i:i + 3]), key=lambda x: x.encode("utf-8"))
        cases.append(Case("exh-key", "dpA", "", [t for k in ks for t in (k, k[::-1])]))
    for _ in range(ctx.size(4000, 30000)):
        cases.append(array_case(rng, "rand-array", strings))
    return cases


def fn_inputs(ctx):
    rng = ctx.rng
    xs = list(exhaustive(3))
    xs += [rand_string(rng) for _ in range(ctx.size(10000, 150000))]
    if not ctx.quick:
        xs += [v for v in exhaustive(4) if len(v) == 4 and ("\x01" in v or "~" in v or "#" in v)]
    return xs


# ------------------------------------------------------------------------------------------------
# classification of failures of the property (brush == model): which listed defect explains it



def explain(form, attrs, vals, mode, expect, rb, rh):
    """list of clause names explaining why the re-read (rb in brush, rh in bash) differs from the original
    `expect`, or None when no listed defect explains it."""
    b_ok, h_ok = rb == expect, rh == expect
    keys = vals[0::2] if form in ("dpA", "AA") else []
    if keys and not b_ok and h_ok and any("'" in k and has_ctl(k) for k in keys):
        # the key is printed as $'…\'…' and brush's array-literal key scanner ends the quoted text at the \'
        return ["assoc_key_ansi_c_escaped_quote"]
    # tripwire: repaired in /repo (a quoted, escaped or nested `]` no longer ends the key); the entry is `fixed`,
    # so a return of the behaviour is a VIOLATION
    if keys and not b_ok and h_ok and any("]" in k for k in keys):
        return ["assoc_key_close_bracket"]
    if form == "tr" and vals and "'" in vals[0]:
        return ["trap_p_unescaped_single_quote"]
    # tripwire: repaired in /repo (export -p prints all attribute flags); the entry is `fixed`, so a recurrence is a VIOLATION
    if form == "ex" and canon_attrs(attrs + "x") != "x" and rb == rh and \
            rb == expect.replace("V %s " % canon_attrs(attrs + "x"), "V x ", 1):
        return ["export_p_drops_attributes"]
    return None


FN_VARIANTS = ["ifneeded-single", "ifneeded-double", "ifneeded-backslash", "force-single", "force-double", "force-backslash"]
# which (variant, position) pairs a printer really uses: xtrace/set, printf %q, ${v@Q}/${v@A}, declare -p
FN_PROPERTY = {0: ("xt", "as"), 2: ("pq", "as"), 3: ("Q", "as"), 4: ("dp", "s")}


def run(ctx):
    ok, out = lib.cargo_build([BIN])
    if not ok:
        lib.log(out[-4000:])
        ctx.broken.append("harness c13 does not build against the current tree: " + lib._first_errors(out))
    ctx.proof_stage(gens=[gen_quote_tables])
    if not ok:
        return
    if not os.path.exists(lib.DRV):
        return
    work = tempfile.mkdtemp(prefix="w-C13-run-")
    try:
        _run(ctx, work)
    finally:
        shutil.rmtree(work, ignore_errors=True)


def _vh(lines, work):
    okh, outs, errs = lib.run_vh_parallel(BIN, lines, env={"TMPDIR": work, "HOME": HOME}, workers=lib.NCPU)
    return okh, outs, errs


def _run(ctx, work):
    state = {"nviol": 0}

    def viol(what, case, kind="property"):
        if state["nviol"] < 25:
            state["nviol"] += 1
            ctx.violation(what, case, kind=kind)

    cwd = os.path.join(work, "cwd")
    os.makedirs(cwd, exist_ok=True)
    os.chdir(cwd)
    try:
        _fn_level(ctx, work, cwd, viol)
        _e2e_level(ctx, work, cwd, viol)
        _shadow_level(ctx, work, cwd, viol)
        _context_level(ctx, work, cwd, viol)
    finally:
        os.chdir(lib.ROOT)
    ctx.cov["rule"] = ("strings over the property's 20-character alphabet exhaustively to length 3 through the six quoting "
                       "variants and both read positions; every printer (printf %q, @Q, @A, declare -p, set, export -p, alias, "
                       "trap -p, xtrace; scalars, indexed and associative arrays with attributes) on all strings to length 2, "
                       "a slice (thorough: all) of length 3, and seeded random strings to length 40 over a wider alphabet "
                       "(all metacharacters, more controls, wide characters); each text is re-read by eval in brush and in bash. "
                       "Shadowing contexts: every printer (by name and the no-name listings declare -p / set / export -p / local -p) "
                       "inside a function whose local hides a global of a different value, kind and attributes, inside a callee whose "
                       "local hides the caller's local, and under a temporary `v=… eval` binding; the re-read value must be the "
                       "visible (innermost) one: all strings to length 2 in each context plus seeded random ones. "
                       "non-trivial = the value is non-empty and not purely alphanumeric")
    ctx.assumptions += ["bash 5.2.15 reading the text is the second reader ('and in bash')",
                        "`set` output is not required to recreate associative arrays (bash's own `set` output does not either)",
                        "values with attribute -i/-l/-u are integers / lower / upper case (what such a variable can hold)",
                        "the reader model returns 'unsupported' outside the quoting fragment (substitutions, operators, globs, arrays); "
                        "there the property is decided on brush and bash alone",
                        "HOME=/hh, non-interactive shells (no history expansion)",
                        "a local inherits the export attribute of the binding it hides, a temporary binding is exported (as in bash); "
                        "hidden outer variables are not readonly (a readonly global cannot be hidden)"]


def _trivial(v):
    return v == "" or v.isalnum()


def _fn_level(ctx, work, cwd, viol):
    xs = fn_inputs(ctx)
    reqs = ["fn " + esc(x) for x in xs]
    okh, bouts, errs = _vh(reqs, work)
    if not okh:
        ctx.broken.append("harness c13 died: " + errs[:500])
    mouts = lib.run_drv_parallel(["C13 " + r for r in reqs])
    texts = {}   # (text, pos) -> (value, variant index) for the read stage
    for x, b, m in zip(xs, bouts, mouts):
        ctx.count(("fn", x), nontrivial=not _trivial(x), bucket="fn-level")
        ctx.impl_validated += 1
        if b != m:
            viol("quoting model and brush's escape::quote disagree", {"fn": x, "brush": b, "model": m,
                 "variants": FN_VARIANTS}, kind="correspondence")
            continue
        fs = b.split(" ")
        if len(fs) != 6:
            viol("harness answer malformed", {"fn": x, "brush": b}, kind="correspondence")
            continue
        for i, f in enumerate(fs):
            t = unesc(f)
            for pos in "as":
                texts.setdefault((t, pos), (x, i))
    keys = list(texts)
    rreqs = ["rd %s %s" % (pos, esc(t)) for t, pos in keys]
    okh, rb, errs = _vh(rreqs, work)
    if not okh:
        ctx.broken.append("harness c13 died: " + errs[:500])
    rm = lib.run_drv_parallel(["C13 " + r for r in rreqs])
    rmb = lib.run_drv_parallel(["C13 rdb" + r[2:] for r in rreqs])
    rh = bash_read([(pos, t) for t, pos in keys], cwd)
    ctx.sample({"value": xs[len(xs) // 2], "six variants (brush)": bouts[len(xs) // 2]})
    for (t, pos), b, m, mb, h in zip(keys, rb, rm, rmb, rh):
        x, i = texts[(t, pos)]
        ctx.count(("rd", t, pos), nontrivial=not _trivial(x), bucket="read-" + FN_VARIANTS[i])
        ctx.impl_validated += 1
        expect = ("W 1 " if pos == "a" else "S ") + esc(x)
        case = {"read": pos, "text": t, "value": x, "variant": FN_VARIANTS[i], "brush": b, "model": m, "bash": h}
        prop = i in FN_PROPERTY and pos in FN_PROPERTY[i][1]
        failing = prop and (b != expect or h != expect)
        if m != "UNSUP" and b != m:
            viol("reader model and brush disagree on a quoted text" + (": the value does not read back" if failing else ""),
                 case, kind="property" if failing else "correspondence")
            continue
        if mb != "UNSUP" and h != mb:
            ctx.oracle_mismatch += 1
        if failing:
            form = FN_PROPERTY[i][0]
            clause = explain(form, "", [x], pos, expect, b, h)
            what = "%s of this value does not read back (%s position)" % (FN_VARIANTS[i], "argument" if pos == "a" else "assignment")
            if clause:
                for cl in clause:
                    ctx.known_or_violation(cl, what, case)
            else:
                viol(what, case)


def _e2e_level(ctx, work, cwd, viol):
    cases = gen_cases(ctx)
    reqs = [c.req for c in cases]
    okh, bouts, errs = _vh(reqs, work)
    if not okh:
        ctx.broken.append("harness c13 died: " + errs[:500])
    mouts = lib.run_drv_parallel(["C13 " + r for r in reqs])
    jobs, idx = [], []
    for ci, (c, b) in enumerate(zip(cases, bouts)):
        parts = b.split(" %; ")
        if len(parts) == 1 + len(c.modes):
            t = unesc(parts[0])
            for k, mode in enumerate(c.modes):
                jobs.append((mode, t))
                idx.append((ci, k))
    hres = bash_read(jobs, cwd)
    hmap = {}
    for (ci, k), h in zip(idx, hres):
        hmap[(ci, k)] = h
    shown = 0
    for ci, (c, b, m) in enumerate(zip(cases, bouts, mouts)):
        vals = c.vals
        ctx.count((c.form, c.attrs, tuple(vals)), nontrivial=not all(_trivial(v) for v in vals),
                  bucket="%s:%s" % (c.src, c.form))
        ctx.impl_validated += 1
        bp, mp = b.split(" %; "), m.split(" %; ")
        cd = c.as_dict()
        cd.update({"brush": b, "model": m})
        if len(bp) != 1 + len(c.modes):
            viol("brush printed nothing usable for this form (%s)" % b[:60], cd)
            continue
        cd["text"] = unesc(bp[0])
        fails = []
        for k, mode in enumerate(c.modes):
            h = hmap.get((ci, k), "DIED")
            cd["bash-" + mode] = h
            if bp[1 + k] != c.expect[k] or h != c.expect[k]:
                fails.append((k, mode, h))
        if len(mp) != len(bp) or bp[0] != mp[0]:
            viol("printer model and brush disagree on the printed text" + (": and it does not read back" if fails else ""),
                 cd, kind="property" if fails else "correspondence")
            continue
        bad_tie = [k for k in range(len(c.modes)) if mp[1 + k] != "UNSUP" and mp[1 + k] != bp[1 + k]]
        if bad_tie:
            viol("reader model and brush disagree on printed text" + (": and it does not read back" if fails else ""),
                 cd, kind="property" if fails else "correspondence")
            continue
        for k, mode, h in fails:
            clause = explain(c.form, c.attrs, vals if c.form not in ("dpa", "Aa", "seta", "Qa") else vals[1::2],
                             mode[0], c.expect[k], bp[1 + k], h)
            what = "text printed by form '%s' does not read back to the original (%s: brush %s, bash %s)" % (
                c.form, mode, "ok" if bp[1 + k] == c.expect[k] else "WRONG", "ok" if h == c.expect[k] else "WRONG")
            d = dict(cd)
            d["expected"] = c.expect[k]
            if clause:
                for cl in clause:
                    ctx.known_or_violation(cl, what, d)
            else:
                viol(what, d)
        if shown < 6 and ci % 997 == 5:
            shown += 1
            ctx.sample({"form": c.form, "values": vals, "text": unesc(bp[0]), "reread": bp[1:]})


# ------------------------------------------------------------------------------------------------
# shadowing contexts

SH_OUTER_VALUES = ["OUTER", "out'er $x", "0", "~", "#o \"q\""]


class Spec:
    def __init__(self, kind, attrs, vals):
        self.kind, self.attrs, self.vals = kind, attrs, vals

    def tokens(self):
        return [self.kind, self.attrs or "-", str(len(self.vals))] + [esc(v) for v in self.vals]


def effective_attrs(ctx_name, specs):
    """attributes of the visible (innermost) binding: a local inherits `x` from what it hides; a temporary binding is exported"""
    if ctx_name == "tmp":
        return "x"
    x = False
    eff = ""
    for sp in reversed(specs):
        eff = sp.attrs
        if x and "x" not in eff:
            eff += "x"
        x = "x" in eff
    return canon_attrs(eff)


def shadow_expect(ctx_name, specs):
    """form -> (modes for the bash reader, expected re-reads); None = no line may be printed"""
    inner = specs[0]
    eff = effective_attrs(ctx_name, specs)
    out = {}
    if inner.kind == "s":
        v = esc(inner.vals[0])
        for f in ("pq", "Q", "xt"):
            out[f] = (["a", "s"], ["W 1 " + v, "S " + v])
        for f in ("A", "dp", "dpl") + (("lp",) if ctx_name in ("f1", "f2") else ()):
            out[f] = (["v:zzv"], ["V %s s %s" % (eff, v)])
        out["set"] = (["v:zzv"], ["V - s " + v])
        out["xs"] = (["v:zzt"], ["V - s " + v])
        out["ex"] = (["v:zzv"], ["V %s s %s" % (eff, v)]) if "x" in eff else None
        out["al"] = (["al"], ["S " + v])
        if in_domain("tr", inner.vals[0]):
            out["tr"] = (["tr"], ["S " + v])
        out["nr"] = (["n:zzNR"], ["N zzv"])          # declare -p of a nameref to the variable
    else:
        kv = " ".join("%d %s" % (i, esc(x)) for i, x in enumerate(inner.vals))
        out["Qa"] = (["a"], [" ".join(["W", str(len(inner.vals))] + [esc(x) for x in inner.vals])])
        for f in ("Aa", "dpa", "dpl") + (("lp",) if ctx_name in ("f1", "f2") else ()):
            out[f] = (["v:zzv"], ["V %s a %s" % (eff, kv)])
        out["ex"] = (["v:zzv"], ["V %s a %s" % (eff, kv)]) if "x" in eff else None
        out["seta"] = (["v:zzv"], ["V - a " + kv])
    return out


def parse_shadow_request(req):
    toks = [unesc(t) if i > 1 else t for i, t in enumerate(req.split(" "))]
    specs, i = [], 2
    while i < len(toks):
        n = int(toks[i + 2])
        specs.append(Spec(toks[i], "" if toks[i + 1] == "-" else toks[i + 1], toks[i + 3:i + 3 + n]))
        i += 3 + n
    return toks[1], specs


def gen_shadow(ctx):
    rng = ctx.rng
    reqs = []
    cfile = os.path.join(lib.ROOT, "corpus", "C13", "shadow.req")
    if os.path.exists(cfile):
        for l in open(cfile, encoding="utf-8"):
            l = l.rstrip("\n")
            if l.startswith("sh "):
                cname, specs = parse_shadow_request(l)
                reqs.append(("corpus", cname, specs))
    small = list(exhaustive(2))
    for ci, cname in enumerate(("f1", "f2", "tmp")):
        for i, v in enumerate(small):
            ov = SH_OUTER_VALUES[(i + ci) % len(SH_OUTER_VALUES)]
            if ov == v:
                ov = "OUTER2"
            oattrs = ("", "x")[(i // 2 + ci) % 2]
            specs = [Spec("s", ("", "", "x", "r")[(i // 5) % 4] if cname != "tmp" else "", [v])]
            if cname == "f2":
                specs.append(Spec("s", ("", "x")[(i // 3) % 2], ["mid " + ov]))
            specs.append(Spec("s", oattrs, [ov]))
            reqs.append(("exh", cname, specs))
    strings = small + [rand_string(rng, 12) for _ in range(300)]
    for _ in range(ctx.size(1500, 20000)):
        cname = rng.choice(("f1", "f1", "f2", "tmp"))
        ov = rng.choice(SH_OUTER_VALUES + [rand_string(rng, 8)])
        if cname == "tmp":
            inner = Spec("s", "", [rng.choice(strings)])
            outer = Spec("s", rng.choice(("", "x")), [ov])
        else:
            if rng.random() < 0.3:
                inner = Spec("a", rng.choice(("", "", "x", "r")), [rng.choice(strings) for _ in range(rng.randint(1, 3))])
            else:
                a = rng.choice(("", "", "x", "r", "rx", "i"))
                inner = Spec("s", a, [str(rng.choice([0, 7, -3, 42])) if "i" in a else rng.choice(strings)])
            ok = rng.choice("ssaA")
            if ok == "s":
                oa = rng.choice(("", "x", "i", "ix"))
                outer = Spec("s", oa, [str(rng.randint(100, 999)) if "i" in oa else ov])
            elif ok == "a":
                outer = Spec("a", rng.choice(("", "x")), [ov, "second"])
            else:
                outer = Spec("A", rng.choice(("", "x")), ["k", ov])
        specs = [inner]
        if cname == "f2":
            specs.append(Spec("s", rng.choice(("", "x")), ["mid " + ov]))
        specs.append(outer)
        if inner.kind == "s" and outer.kind == "s" and inner.vals == outer.vals:
            continue
        reqs.append(("rand", cname, specs))
    return reqs


def shadow_request(cname, specs):
    return "sh %s %s" % (cname, " ".join(t for sp in specs for t in sp.tokens()))


def _parse_segs(line):
    out = {}
    for seg in line.split(" %| "):
        p = seg.split(" %; ")
        if len(p) >= 2:
            out[p[0]] = p[1:]
    return out


class CtxItem:
    """one request of the shadow / context-sweep stages"""
    def __init__(self, src, scope, specs, wrapper="none", opts="-", rm="ev"):
        self.src, self.scope, self.specs, self.wrapper, self.opts, self.rm = src, scope, specs, wrapper, opts, rm
        sp = " ".join(t for x in specs for t in x.tokens())
        self.mreq = "sh %s %s" % (scope, sp)        # the model: the context wrapper, options and reader route do not matter
        if wrapper == "none" and opts == "-" and rm == "ev" and scope != "g":
            self.req = self.mreq
        else:
            self.req = "cx %s %s %s %s %s" % (scope, wrapper, opts, rm, sp)

    def label(self):
        return "%s/%s/%s/%s" % (self.scope, self.wrapper, self.opts, self.rm)


def _shadow_level(ctx, work, cwd, viol):
    items = [CtxItem(src, c, sp) for src, c, sp in gen_shadow(ctx)]
    _run_ctx_items(ctx, work, cwd, viol, items, "shadow")


def _run_ctx_items(ctx, work, cwd, viol, items, stage):
    reqs = [it.req for it in items]
    okh, bouts, errs = _vh(reqs, work)
    if not okh:
        ctx.broken.append("harness c13 died: " + errs[:500])
    mouts = lib.run_drv_parallel(["C13 " + it.mreq for it in items])
    exps = [shadow_expect(it.scope, it.specs) for it in items]
    jobs, idx = [], []
    parsed = []
    for ri, (it, b, ex) in enumerate(zip(items, bouts, exps)):
        segs = _parse_segs(b)
        parsed.append(segs)
        for form, e in ex.items():
            if e is None or form not in segs or segs[form][0] in ("ABSENT", "NOFILE"):
                continue
            for k, mode in enumerate(e[0]):
                jobs.append((it.rm + "|" + mode, unesc(segs[form][0])))
                idx.append((ri, form, k))
    hres = dict(zip(idx, bash_read(jobs, cwd)))
    shown = 0
    for ri, (it, req, b, m, ex, segs) in enumerate(zip(items, reqs, bouts, mouts, exps, parsed)):
        msegs = _parse_segs(m)
        cname, specs = it.scope, it.specs
        inner = specs[0]
        eff = effective_attrs(cname, specs)
        where = "context " + it.label()
        base = {"context": cname, "wrapper": it.wrapper, "options": it.opts, "reader": it.rm, "request": req,
                "scopes (innermost first)": [{"kind": sp.kind, "declared attrs": sp.attrs, "values": sp.vals} for sp in specs],
                "visible attrs": eff}
        if not segs:
            viol("brush produced nothing in %s (%s)" % (where, b[:80]), base)
            continue
        for form, e in ex.items():
            if stage == "shadow":
                bucket = "shadow-%s:%s" % (cname, form)
            else:
                bucket = None
            ctx.count((stage, form, req), nontrivial=not all(_trivial(v) for v in inner.vals), bucket=bucket)
            ctx.impl_validated += 1
            cd = dict(base)
            cd.update({"form": form, "brush": segs.get(form), "model": msegs.get(form)})
            bs = segs.get(form)
            if bs is None or bs[0] == "NOFILE":
                viol("brush printed nothing usable for form '%s' in %s" % (form, where), cd)
                continue
            if e is None:
                if bs[0] != "ABSENT":
                    cd["text"] = unesc(bs[0])
                    viol("export -p lists a variable whose visible binding is not exported (a hidden outer binding is printed)", cd)
                continue
            modes, expect = e
            if bs[0] == "ABSENT":
                viol("the listing '%s' has no line for the visible binding of the variable (%s)" % (form, where), cd)
                continue
            cd["text"] = unesc(bs[0])
            fails = []
            for k, mode in enumerate(modes):
                h = hres.get((ri, form, k), "DIED")
                cd["bash-" + mode] = h
                rb = bs[1 + k] if len(bs) > 1 + k else "MISSING"
                if it.rm == "hd" and h != expect[k] and any(ch in "\x01\x7f" for ch in cd["text"]):
                    # bash quirk, not the property: a raw 0x01 / 0x7f inside a here-document that is read in a command
                    # substitution is dropped by bash itself (its internal CTLESC / CTLNUL bytes)
                    ctx.oracle_mismatch += 1
                    h = expect[k]
                if rb != expect[k] or h != expect[k]:
                    fails.append((k, mode, rb, h))
            ms = msegs.get(form)
            if ms is None or ms[0] != bs[0]:
                viol("printer/listing model and brush disagree on the text printed in %s" % where
                     + (": and it does not read back to the visible value" if fails else ""), cd,
                     kind="property" if fails else "correspondence")
                continue
            elif it.rm == "ev" and any(ms[1 + k] != "UNSUP" and ms[1 + k] != bs[1 + k]
                                       for k in range(len(modes)) if len(ms) > 1 + k and len(bs) > 1 + k):
                viol("reader model and brush disagree on text printed in %s" % where, cd,
                     kind="property" if fails else "correspondence")
                continue
            for k, mode, rb, h in fails:
                eform = {"dpl": "dp", "lp": "dp"}.get(form, form)
                if inner.kind == "a" and form == "ex":
                    first = "V %s a 0 %s" % (eff, esc(inner.vals[0]))
                    # tripwire (repaired in /repo: export -p prints every element)
                    clause = ["export_p_array_elements_lost"] if len(inner.vals) > 1 and rb == h == first else None
                elif it.rm == "rd" and rb != expect[k] and h == expect[k] and \
                        any((ord(ch) < 0x20 and ch not in "\t\n\r\x0c") or ord(ch) == 0x7f for ch in cd["text"]):
                    clause = ["read_drops_control_characters"]
                else:
                    clause = explain(eform, eff if eform in ("A", "dp", "ex") else "", inner.vals, mode[0], expect[k], rb, h)
                what = ("in %s the text printed by '%s' does not read back to the visible (innermost) value "
                        "(%s: brush %s, bash %s)" % (where, form, mode, "ok" if rb == expect[k] else "WRONG",
                                                     "ok" if h == expect[k] else "WRONG"))
                d = dict(cd)
                d["expected"] = expect[k]
                if clause:
                    for cl in clause:
                        ctx.known_or_violation(cl, what, d)
                else:
                    viol(what, d)
        if shown < 3 and ri % 499 == 7:
            shown += 1
            ctx.sample({stage + " context": it.label(), "scopes": base["scopes (innermost first)"], "brush": b[:400]})
    if stage != "shadow":
        for it in items:
            ctx.bucket("sweep-wrapper:" + it.wrapper)
            ctx.bucket("sweep-reader:" + it.rm)
            ctx.bucket("sweep-scope:" + it.scope)
            for o in it.opts.split(","):
                ctx.bucket("sweep-option:" + o)


# ------------------------------------------------------------------------------------------------
# context sweep: the printers inside other execution contexts, under options that must not matter, and the
# reader side through other routes

SW_WRAPPERS = ["none", "sub", "cs", "ev", "br", "lpipe", "pipe0", "wh", "for", "trap", "src", "twice"]
# options that must not change what is printed. The IFS values avoid every character of the printer commands
# themselves: brush field-splits LITERAL words by IFS (`IFS=a; declare -p x` runs `decl`, `IFS=:; : x` runs nothing) —
# a word-splitting defect that belongs to the field-splitting property, not to this one
SW_OPTIONS = ["-", "u", "f", "e", "E", "T", "h", "posix", "extglob", "nullglob", "dotglob", "nocasematch", "globstar",
              "expand_aliases", "lastpipe", "inherit_errexit", "extquote", "noextquote", "ifscomma", "ifsempty", "ps4"]
SW_READERS = ["ev", "src", "rd", "hd", "dw"]
SW_SCOPES = ["g", "g", "f1", "f2", "tmp"]
CTL_CHARS = [chr(i) for i in range(1, 32)] + ["\x7f"]


def sweep_ok(scope, wrapper, opts):
    o = opts.split(",")
    if wrapper == "trap" and (scope != "g" or "e" in o):
        return False       # the ERR handler is installed at top level; `false` under errexit would leave the shell
    return True


def sweep_specs(rng, scope, strings):
    if scope == "tmp":
        return [Spec("s", "", [rng.choice(strings)]), Spec("s", rng.choice(("", "x")), ["OUTER"])]
    r = rng.random()
    if r < 0.25:
        inner = Spec("a", rng.choice(("", "x", "x", "r")), [rng.choice(strings) for _ in range(rng.randint(1, 3))])
    else:
        a = rng.choice(("", "", "x", "r", "rx", "i", "l", "u", "t", "lx"))
        inner = Spec("s", a, [fit_attrs(rng, a, rng.choice(strings))])
    if scope == "g":
        return [inner]
    specs = [inner]
    if scope == "f2":
        specs.append(Spec("s", rng.choice(("", "x")), ["mid"]))
    specs.append(Spec(rng.choice("ssa"), rng.choice(("", "x")), ["OUTER", "second"][:rng.randint(1, 2)]))
    if specs[-1].kind == "s":
        specs[-1].vals = specs[-1].vals[:1]
    return specs


def gen_sweep(ctx):
    rng = ctx.rng
    small = list(exhaustive(2))
    strings = (small + [rand_string(rng, 12) for _ in range(200)] + CTL_CHARS + [c + "7" for c in CTL_CHARS]
               + ["a" + c + "b" for c in CTL_CHARS] + ["é", "日本", "😀 x", "e\u0301"])
    items = []
    if ctx.quick:
        n = 2400
        for k in range(n):
            scope = SW_SCOPES[k % len(SW_SCOPES)]
            wrapper = SW_WRAPPERS[(k // 5) % len(SW_WRAPPERS)]
            opts = SW_OPTIONS[(k // 7) % len(SW_OPTIONS)]
            if k % 4 == 3:
                o2 = rng.choice(SW_OPTIONS[1:])
                if o2 != opts and opts != "-":
                    opts = opts + "," + o2
            rm = SW_READERS[(k // 3) % len(SW_READERS)]
            if not sweep_ok(scope, wrapper, opts):
                wrapper = "ev"
            items.append(CtxItem("sweep", scope, sweep_specs(rng, scope, strings), wrapper, opts, rm))
    else:
        base = [(sc, sweep_specs(rng, sc, strings)) for sc in SW_SCOPES * 3]
        for scope, specs in base:
            for wrapper in SW_WRAPPERS:
                for opts in SW_OPTIONS:
                    if not sweep_ok(scope, wrapper, opts):
                        continue
                    for rm in SW_READERS:
                        items.append(CtxItem("sweep", scope, specs, wrapper, opts, rm))
        for _ in range(6000):
            scope = rng.choice(SW_SCOPES)
            wrapper = rng.choice(SW_WRAPPERS)
            opts = ",".join(sorted(set(rng.sample(SW_OPTIONS[1:], rng.randint(1, 3)))))
            if not sweep_ok(scope, wrapper, opts):
                continue
            items.append(CtxItem("sweep", scope, sweep_specs(rng, scope, strings), wrapper, opts, rng.choice(SW_READERS)))
    return items


def _context_level(ctx, work, cwd, viol):
    _run_ctx_items(ctx, work, cwd, viol, gen_sweep(ctx), "sweep")


def replay(ctx, rp):
    ok, out = lib.cargo_build([BIN])
    case = rp["case"]
    work = tempfile.mkdtemp(prefix="w-C13-replay-")
    try:
        if "context" in case:
            req = case["request"]
            rmode = case.get("reader", "ev")
            _, b, _ = lib.run_vh(BIN, [req], env={"TMPDIR": work, "HOME": HOME})
            b = b[0] if b else "<harness died>"
            segs = _parse_segs(b)
            cname, specs = parse_shadow_request(req if req.startswith("sh ") else "sh " + " ".join([req.split(" ")[1]] + req.split(" ")[5:]))
            ex = shadow_expect(cname, specs)
            m = lib.run_drv(["C13 sh %s %s" % (cname, " ".join(t for x in specs for t in x.tokens()))])
            msegs = _parse_segs(m[0])
            print("request:", req)
            bad = False
            for form, e in ex.items():
                bs = segs.get(form)
                print("form %-5s brush: %s\n           model: %s" % (form, bs, msegs.get(form)))
                if e is None:
                    if bs and bs[0] != "ABSENT":
                        bad = True
                        print("           expected no line (visible binding not exported)")
                    continue
                if not bs or bs[0] in ("ABSENT", "NOFILE"):
                    bad = True
                    continue
                hs = bash_read([(rmode + "|" + mode, unesc(bs[0])) for mode in e[0]], work)
                for k, mode in enumerate(e[0]):
                    okk = len(bs) > 1 + k and bs[1 + k] == e[1][k] and hs[k] == e[1][k]
                    print("           %-6s expected %s | bash %s%s" % (mode, e[1][k], hs[k], "" if okk else "   <-- FAILS"))
                    bad = bad or not okk
            print("property on brush:", "FAILS" if bad else "holds")
            return 1 if bad else 0
        if "request" in case:
            c = Case("replay", case["form"], case.get("attrs", ""), case["values"])
            _, b, _ = lib.run_vh(BIN, [c.req], env={"TMPDIR": work, "HOME": HOME})
            m = lib.run_drv(["C13 " + c.req])
            b = b[0] if b else "<harness died>"
            print("request:  ", c.req)
            print("brush:    ", b)
            print("model:    ", m[0])
            bp = b.split(" %; ")
            bad = b != m[0] and "UNSUP" not in m[0]
            if len(bp) == 1 + len(c.modes):
                hs = bash_read([(mode, unesc(bp[0])) for mode in c.modes], work)
                for k, mode in enumerate(c.modes):
                    print("expected %-6s %s" % (mode + ":", c.expect[k]))
                    print("  brush re-read: %s\n  bash  re-read: %s" % (bp[1 + k], hs[k]))
                    if bp[1 + k] != c.expect[k] or hs[k] != c.expect[k]:
                        bad = True
            else:
                bad = True
            print("property on brush:", "FAILS" if bad else "holds")
            return 1 if bad else 0
        if "read" in case:
            req = "rd %s %s" % (case["read"], esc(case["text"]))
            _, b, _ = lib.run_vh(BIN, [req], env={"TMPDIR": work, "HOME": HOME})
            m = lib.run_drv(["C13 " + req])
            h = bash_read([(case["read"], case["text"])], work)
            expect = ("W 1 " if case["read"] == "a" else "S ") + esc(case["value"])
            print("text:     %r  (%s of %r)" % (case["text"], case.get("variant"), case["value"]))
            print("expected: ", expect)
            print("brush:    ", b[0] if b else "<harness died>")
            print("model:    ", m[0])
            print("bash:     ", h[0])
            bad = (not b) or b[0] != expect or h[0] != expect or (m[0] != "UNSUP" and m[0] != b[0])
            return 1 if bad else 0
        if "fn" in case:
            req = "fn " + esc(case["fn"])
            _, b, _ = lib.run_vh(BIN, [req])
            m = lib.run_drv(["C13 " + req])
            print("value: %r\nbrush: %s\nmodel: %s" % (case["fn"], b[0] if b else "<died>", m[0]))
            return 1 if (not b or b[0] != m[0]) else 0
        print(json.dumps(case, indent=1))
        return 1
    finally:
        shutil.rmtree(work, ignore_errors=True)
