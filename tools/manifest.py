#!/usr/bin/env python3
"""Regenerates MANIFEST.json from the table below (python3 tools/manifest.py)."""
import json, os
ROOT = os.path.dirname(os.path.dirname(os.path.abspath(__file__)))
ALL = ["C%02d" % i for i in range(1, 21)]

# id -> (technique, level text, level_note, design_ref)
CLAIMS = {
 "C11": ("Lean 4 liveness/termination proofs over all schedules of a bounded-FIFO pipeline model + status/substitution/read theorems; timed correspondence with pause points",
         "Proof (partial: model-level liveness): Model/Pipe.lean is a network of stages connected by bounded FIFOs with a nondeterministic step relation (the "
         "scheduler picks stage and chunk size), stage kinds concurrent vs inline (brush runs compound/function stages to completion while spawning), EPIPE, the "
         "wait loop, trailing-newline stripping and byte-at-a-time read. every_schedule_terminates (well-founded measure), concurrent_never_stuck and "
         "all_concurrent_live (any payload length, capacity, chunking: terminates, never stuck, output = composition of the stage maps), "
         "inline_nonfinal_deadlocks (cex for every cap and every input longer than cap) and pipeline_live_partial under the guard, "
         "early_exit_reader_ends_writer_partial (+cex), pipestatus_lists_all_stages, pipefail_status, cmdsubst_output_minus_trailing_newlines, "
         "cmdsubst_drains_any_size, read_consumes_exactly_one_line, reads_partition_descriptor. Tie: the brush binary and bash under a deadline on 2–4 stage "
         "pipelines with every stage class in every position, payloads 1 B … 1/4 MiB around the measured pipe capacity, early-exit readers, re-run under each "
         "stage_spawned pause point (verif-hooks); the model run under two extreme schedules predicts completes/deadlocks, output hash, PIPESTATUS.",
         "Trusted: Lean kernel + standard axioms. Not expressible in the model and only observed: tokio scheduler fairness, SIGPIPE delivery timing, pipe "
         "write atomicity/page granularity (payload sizes between half and full capacity are not generated for inline stages), kernel pipe semantics.",
         "DESIGN.md §6 C11"),
 "C01": ("Lean 4 no-panic / termination proofs for the integer-and-index hot spots (checked-arithmetic model) + in-process correspondence; fuzzing only as labelled support",
         "Proof (partial by nature): Model/Checked.lean models usize/i64/u32 arithmetic as checked operations returning `Except Panic _` and mirrors, line for "
         "line, the hot spots where the dev-profile binary can panic: ${v:o:l} clamping and polymorphic_subslice, array index normalisation, brace number "
         "and character sequences, `history N`, break/continue level conversion, wrapping power, every arithmetic operator. 20 theorems: "
         "substring_no_panic / subarray_no_panic (every i64 offset and length), index_norm_no_panic, loop_levels_no_panic, "
         "arith_binop_declared_errors_only (over C07's operators), exact panic characterisations with proved counter-examples for the brace and "
         "history defects (recorded findings), termination of every model by Lean's checker (the one non-terminating Rust loop is an explicit `hang` "
         "outcome with its cex). Tie: ~22 700 boundary-grid cases per run through brush's real entry points inside catch_unwind vs the model "
         "(value-or-error-kind; a panic observed or predicted is a failure). Everything else — tokenizer, PEG parsers, interpreter, highlighter, "
         "completion, prompt — is explored only: all suite scripts and all short strings over the structural alphabet through every parser, "
         "nesting to depth 64, mutations, generated scripts in the binary under timeout and memory limits. That part is fuzzing and is labelled so.",
         "Trusted: Lean kernel + standard axioms. NOT proved: panic-freedom of the tokenizer, the generated parsers and the async interpreter as wholes "
         "(1 700-line state machine, PEG-generated code, tokio); 14 open panic/hang findings are listed in known_findings.json, keyed by file + message "
         "+ input feature.",
         "DESIGN.md §6 C01, §9"),
 "C04": ("Lean 4 proofs on the piece/field algebra of word expansion (all values, all IFS, all glob options, all directory listings) + in-process and binary correspondence",
         "Proof: Model/Expand.lean mirrors expansion.rs: splittable/unsplittable pieces, fields, double-quote processing, $@/$*/a[@]/a[*], coalescing, the "
         "split_fields loop for any IFS, conversion to patterns (unsplit ↦ literal) and pathname expansion over an abstract directory listing. All at full "
         "strength, no guard: literal_never_globs, quoted_never_splits, dq_concat_exact and corollaries (dq_param_exact, dq_cmdsubst_exact/_trims, "
         "empty_quotes_kept), dq_at_exact / dq_array_at_exact (incl. zero arguments, empty strings kept), assign_copies_exact, "
         "unquoted_is_split_then_glob_only (against an independent string-level definition of IFS runs). Tie: brush's real expander in-process vs the model "
         "on 26 word templates x values (exhaustive to length 2/3 over the adversarial alphabet, random to 40) x 4 IFS x 8 option sets x a 40-entry scratch "
         "directory; the intrinsic predicate on the binary in 14 contexts (argument, assignment, array element, case word, [[ ]], here-string, "
         "redirection target, …) with bash as sanity oracle: ~400 000 cases per quick run.",
         "Trusted: Lean kernel + standard axioms; command-substitution output and arithmetic values enter the model as data; the pattern matcher is the "
         "C08 model (bracket expressions it does not cover are flagged unmodelled and compared brush-vs-bash only).",
         "DESIGN.md §6 C04"),
 "C05": ("Lean 4 proofs relating brush's word-expansion model to a POSIX/bash reference (brace expansion, field splitting, $@/$* structure) + three-way correspondence",
         "Proof: on the C04 model plus Spec/WordExp.lean (brace expansion yields words expanded separately; POSIX field splitting; sorted pathname results). "
         "split_eq_posix_ws, split_empty_ifs, coalesce_assoc, at_star_field_structure, word_expansion_refines_spec_partial (guard: IFS non-empty, and with "
         "braces IFS contains a space and no generated word is empty) with proved counter-examples for each guard (brace alternatives joined with a space, "
         "\"$*\" under empty IFS, non-whitespace IFS) recorded as findings. Tie: words from a piece grammar (all pairs of 23 pieces + 12 000 random) over "
         "environments with empty / blank-padded / multi-field / glob-like values, positional lists 0..3, five IFS settings, fixed directory trees: brush "
         "binary vs bash, in-process brush vs model, Lean spec vs bash.",
         "Trusted: Lean kernel + standard axioms; bash as oracle (the spec disagrees with bash on ~0.1 % of cases, all inside two recorded clauses). Tilde "
         "expansion enters as data.",
         "DESIGN.md §6 C05"),
 "C10": ("Lean 4 refinement proof (brush's persistent table + per-command overlay vs a flat POSIX descriptor table) and here-document scanner proof + three-way correspondence",
         "Proof: Model/Fd.lean mirrors openfiles.rs and interp.rs setup_redirect (every redirection form, noclobber, exec); Spec/FdFlat.lean is open/dup2/close "
         "applied left to right. overlay_refines_flat (partial: guard excludes the move form and &>word under noclobber, both refuted by cex and recorded), "
         "redirects_left_to_right (lifted over lists incl. the state at the first failure), noclobber_never_truncates_existing_regular (+ list form), "
         "append_preserves_prefix, shell_table_unchanged_after_command (any command tree without exec outside subshells), exec_persists_exactly_its_redirects "
         "(partial + cex), heredoc_body_exact (char-level mirror of the tokenizer's here-document loop: exactly the lines, tab-stripped only under <<-), "
         "heredoc_quoted_delimiter_is_literal. Tie: the brush binary and bash, each case in its own scratch directory, observing readlink target / access mode "
         "/ O_APPEND of fds 0-9 inside a probe, file contents, statuses, where diagnostics land; the Lean driver gives the brush-model and flat-spec predictions; "
         "here-documents additionally through the in-process tokenizer vs the model.",
         "Trusted: Lean kernel + standard axioms; bash as oracle; the kernel's descriptor semantics (what the child actually inherits is observed, not proved). "
         "Self-dups, exec closing 0-2 and moves from 0-2 are left out of generation (they expose bash's own bookkeeping).",
         "DESIGN.md §6 C10"),
 "C08": ("Lean 4 proof that the regex brush emits for a pattern decides POSIX glob matching (on a backtracking regex semantics) + structural and engine-level correspondence",
         "Proof: Model/Pattern.lean mirrors the PEG rules of brush-parser/src/pattern.rs (parsePat), the translation to regex text (toRe/render) and a "
         "backtracking semantics for the regex subset emitted, including the `(?ms)^…$` search brush performs; Spec/Glob.lean is the POSIX whole-string "
         "relation Matches. toRe_correct_partial / full_match_correct_partial / exactly_matches_correct_partial: for every pattern at any nesting and every "
         "string the emitted regex matches exactly what Matches says (guards: no !(…) group, no named class under nocasematch, no newline in the subject), "
         "with proved counter-examples for each guard (anchor_cex, not_group_cex, bracket_leading_rbracket_cex, nocase_class_cex); matchB_iff (executable "
         "oracle = Matches incl. !(…)); globDir_sound/_complete/_hides_dotfiles. Tie: regex text string-equal for all patterns to length 4/5 over 17 "
         "characters; Pattern::exactly_matches vs the regex model on ~10 M (pattern, subject) pairs; case / [[ == ]] / ${v##p} / pathname expansion in the "
         "binary vs bash, the model and the spec.",
         "Trusted: Lean kernel + standard axioms; the fancy_regex engine is modelled (its semantics for the emitted subset is validated on every pair; one "
         "engine defect was found that way and is a recorded finding); add_missing_escape_chars_to_regex is assumed to be the identity on emitted text. "
         "Malformed pattern text is compared model-vs-brush only.",
         "DESIGN.md §6 C08"),
 "C15": ("Lean 4 proofs: memo-cache transparency (any key-determined function, any history, any capacity) over cache keys regenerated from the source; "
         "stdin chunking theorem; delivery-mode correspondence",
         "Proof: Model/Cache.lean (the cached-crate store discipline incl. not storing Err) and translators extracting every #[cached] function and the regex "
         "LRU with their key expressions, and TokenizerError::is_incomplete, into Gen/. memo_transparent, memo_key_must_determine (converse), "
         "keys_cover_params (decide over the generated table: every parameter incl. every field of the option structs is in the key), "
         "gen_caches_transparent; Model/Accumulate.lean: accumulate_runs_maximal_complete_chunks (for every completeness predicate the stdin reader hands "
         "over a command as soon as and only when the text read so far is complete), accumulate_loses_nothing, bad_token_never_waits, "
         "unterminated_kinds_incomplete, stdin_lineno_eq_file_lineno. Tie: the real MinimalInputBackend reader in-process on a pipe vs the chunk model and a "
         "bash stdin-offset oracle; file / -c / source / eval / stdin delivery in both shells; parse caches exercised in one long-lived process under "
         "alternating option settings vs fresh processes.",
         "Trusted: Lean kernel + standard axioms; the translators (raise when an item changes shape). That the real parser's completeness classes agree with "
         "bash on every prefix is checked differentially, not proved. Cache hit/miss traces are not observable (private statics).",
         "DESIGN.md §6 C15"),
 "C14": ("Lean 4 lexing/adjacency proofs on a model of the AST pretty-printer + print/parse fixed-point correspondence in-process and through both shells",
         "Proof: Model/Print.lean mirrors every Display impl of brush-parser/src/ast.rs (13 mutual node types, the indenter, where blanks are and "
         "are not written) and a token reader. Theorems for all texts / word lists / redirect lists: lex_indent (indentation never changes the tokens), "
         "lex_lines, lex_words, lex_compound_redirs_partial (closing word + redirect list re-lexes to the same tokens; guard: no fd numbers / digit "
         "targets), compound_redirs_cex (`done> /dev/null2>& 1`), lex_compound_redirs_repaired (holds unguarded with one blank), plus model-level "
         "counter-examples for here-documents, process substitutions, `for` without `in`, `|&`. Tie: the Lean printer vs brush's Display text on "
         "every generated function body (0 mismatches), and the property itself: printed text re-defines f with an equal AST (serde, locations "
         "erased), second print = first print, same behaviour on scripted leaves, same through declare -f / type / export -f in brush and bash.",
         "Trusted: Lean kernel + standard axioms. Partial: there is no verified parser for the printed form, so parse∘print = id is established "
         "by the correspondence on generated trees (the real parser), not by a theorem; the proved part is the lexical adjacency layer where the "
         "known defects live.",
         "DESIGN.md §6 C14"),
 "C18": ("Lean 4 balance proof (scope and call-stack depth restored by every execution) on the Flow model with fault leaves + in-process resource sampling",
         "Proof: the Flow interpreter model extended with the scope-frame counter, fault leaves (readonly prefix assignment, unknown command, failing "
         "redirection, temporary assignments on builtins/externals) and function calls with temporary assignments, mirroring every exit of "
         "execute_command / SimpleCommand::execute / invoke_shell_function. exec_balanced: for every program, state and fuel, any terminating "
         "execution — including return/break/continue/exit/errexit leaving nested constructs inside functions — restores fdepth and scope exactly; "
         "repeat_balanced (N repetitions), iteration_starts_from_same_depth, fault_gives_scope_back, function_frames_popped_on_every_exit. The "
         "model stays inside the C02 refinement (exec_refines re-proved). Tie: generated sequences repeated 1, 2 and 30/500 times in ONE in-process "
         "shell with scope depth (serde), call-stack depth, /proc/self/fd and zombie children sampled (per-request watchdog, resilient runner); and 3 "
         "repetitions in the binary vs bash vs model. Fixed extras beyond the model's grammar: sourced files, dispatch paths with failing redirects, "
         "exec / process-substitution forms, POSIX-mode function dispatch, mode switches, and preludes that make shell-maintained variables "
         "read-only (`readonly _ PIPESTATUS OPTIND PWD LINENO FUNCNAME IFS RANDOM …`) so that every fallible bookkeeping step is exercised.",
         "Trusted: Lean kernel + standard axioms. Descriptor counts and unreaped children are runtime facts: observed, not proved (partial).",
         "DESIGN.md §6 C18"),
 "C09": ("Lean 4 invariant proofs over operation sequences on a model of the scope stack and variable attributes + API-level and program-level correspondence",
         "Proof: Model/Env.lean mirrors ShellEnvironment (scope stack, lookup policies, unset tombstones, add/update_or_add, iter_exported), "
         "ShellVariable (assign/append matrix, element ops, transforms), apply_assignment with the command-scope rule, declare/export. Theorems over "
         "op sequences of any length: readonly_frozen_partial (value, scope and readonly flag survive every writer; guard excludes element ops, whose "
         "missing check is a proved cex and finding), local_restores_shadowed (any writers aimed at a local, then return = caller's environment), "
         "callee_sees_callers_locals (dynamic scoping), temp_assignment_undone_partial (+cex for nested prefixes), exported_env_exact_partial (+cex: a "
         "shadowed exported binding leaks). Tie: op sequences applied to the real ShellEnvironment in-process with the whole stack dumped after every "
         "op vs the model (exhaustive + random); random programs run in-process with a dump builtin; guarded programs brush vs bash with declare -p and env probes.",
         "Trusted: Lean kernel + standard axioms; bash as oracle on the guarded sub-grammar only (what a failed write aborts differs between the "
         "shells and is outside C09). exported_env_exact is proved for single-scope environments only (partial); mapfile is mapped to update_or_add.",
         "DESIGN.md §6 C09"),
 "C12": ("Lean 4 proofs over a clone table regenerated from `struct Shell`/`impl Clone` + isolation theorems on a mutator model; serde-snapshot correspondence",
         "Proof: a translator parses `pub struct Shell` and `impl Clone for Shell` (and the component types) into Gen/ShellFields.lean on every run; "
         "by decide over that table: every field is classified, every state field is handed to the clone by value, no state field's type (nor its "
         "struct's own fields) mentions Arc/Rc/Mutex/RefCell/atomics. Model/Subshell.lean: ShellPart + process-wide World, 8 subshell contexts, "
         "mutators. subshell_preserves_parent_partial (every context, every mutator list, every parent state; guard: no umask/ulimit), "
         "nothing_else_flows_back_partial, concurrent_child_invisible_partial (every interleaving), sharing_breaks_isolation (any table sharing a "
         "component fails), cex for umask/ulimit/stage errors. Tie: serde snapshot of the whole parent Shell before/after in-process runs in each "
         "context vs the model, and full textual dumps before/after in the binary (and bash).",
         "Trusted: Lean kernel + standard axioms; the translator (raises when the items change shape); serde's view of the Shell (fields skipped by "
         "serde — jobs, builtins, key bindings — are compared through the textual dump only). Process-wide state (umask, rlimits, cwd of the process) "
         "is modelled as World, not verified.",
         "DESIGN.md §6 C12"),
 "C16": ("Lean 4 theorems on the exit funnel / trap invocation model (built on the Flow interpreter) + three-way correspondence on termination paths",
         "Proof: Model/Traps.lean mirrors invoke_trap_handler (re-entrancy guard, `$?` save/restore) and the single on_exit call every front end "
         "makes; programs and handlers are arbitrary Flow commands, so every way out (exit n at any depth, errexit, running off the end) is a value "
         "that reaches the same funnel. exit_trap_runs_exactly_once_and_last (output = main's output followed by exactly one handler run started "
         "with `$?` = terminating status), trap_preserves_status, handler_not_reentered, exec_replaces_shell_without_trap, front_end_irrelevant; the "
         "clause 'unless the handler itself calls exit' is refuted for brush (exit_status_full_cex) and proved under the guard (exit_status_partial). "
         "A subshell / command substitution / pipeline stage that registers its OWN EXIT trap: stated at full strength (subshell_own_exit_trap_full), "
         "refuted for brush (…_cex: the clone is dropped without on_exit), proved for subshells that register none (…_partial) and "
         "subshell_own_trap_only_handler_missing (what brush loses is exactly the handler's run). "
         "Tie: 7 ways out x 15 nesting contexts x 7 handler bodies x {-c, file, stdin}, trap set/replaced/removed + random programs: brush vs bash vs "
         "model, and the exactly-once predicate on brush's own trace; own-trap family (7 ways x 7 nestings x 7 handlers x {( ), $( ), pipeline stage}) "
         "brush vs bash vs model of brush vs reference; nested-trap family (the way out x context x handler crossed with an ERR/DEBUG/RETURN/USR1 "
         "trap or xtrace running inside the EXIT handler); signal-trap family; ERR-trap programs (handlers that leave their frame: function, "
         "sourced file, eval) brush vs bash plus the intrinsic no-nesting check.",
         "Trusted: Lean kernel + standard axioms; bash as oracle. Where the ERR trap fires inside a program is not in the model (compared with bash "
         "directly); traps set inside the program are resolved statically to the handler in force at exit. Fixes for the three recorded findings "
         "are blocked by known_failure pins in the repository's stable test set.",
         "DESIGN.md §6 C16"),
 "C06": ("Lean 4 proofs on the parameter-operator algorithms (abstract matcher, Int offsets) + in-process correspondence + bash oracle",
         "Proof: Model/ParamOps.lean mirrors expansion.rs/patterns.rs (classify, the - = ? + table, ${#v}, substring bounds and slices, the four "
         "remove_* loops) over an abstract matcher m and unbounded Int offsets; Spec/ParamOps.lean is bash's definition. 23 theorems for every "
         "string, matcher, offset and length: remove_largest_prefix/suffix_is_longest (full); shortest-match partial (guard m [] = false) + cex "
         "+ proved for the repaired loop; param_test_table_eq_posix (whole 4x2x3 table); test_ops_refine_bash_partial; substr/slice refine bash "
         "(partial: non-negative length, byte length = char count; cex for the panic and the wrong result; full for the repaired bounds); "
         "length theorems. Tie: every (value, operator, operand) triple runs through brush in-process, the Lean driver and bash (400 per bash "
         "process); unmodelled operators (replacement, case modification, indirection, @-transforms) run brush-vs-bash only.",
         "Trusted: Lean kernel + standard axioms; bash as oracle; the abstract matcher is instantiated with a small glob matcher mirroring the "
         "regex semantics (validated by the same runs). Replacement/case-modification/indirection operators have no theorem (explored only).",
         "DESIGN.md §6 C06"),
 "C07": ("Lean 4 proofs on an Int64 evaluator model + precedence table regenerated from the PEG grammar; five-way correspondence",
         "Proof: Model/Arith.lean mirrors brush-core arithmetic.rs (eval order, short circuit, assignment, recursive variable dereference with "
         "the 1024 limit, wrapping Int64 operators, wpow) with termination by well-founded recursion; Model/ArithParse.lean is the peg "
         "precedence-climbing algorithm over a level table regenerated from brush-parser/src/arithmetic.rs on every run. 32 theorems: "
         "binop/bitop/unop_refines_c (every operator equals C semantics on Z then two's-complement wrap, incl. MIN/-1, shifts mod 64), "
         "wpow_eq_repeated_mul, short-circuit/?: laziness, left-to-right effects, op-assign, ++/--, error iff div-by-zero or negative exponent, "
         "levels_eq_c_table (decide over the generated table), radix_literal_wraps; divergences from bash carried as proved counter-examples "
         "and findings. Tie: parse S-expression and eval (value/error kind + variables) in-process vs model, binary vs in-process, brush vs bash.",
         "Trusted: Lean kernel + standard axioms; the translator for the precedence table; bash as oracle (its unevaluated-branch exponent quirk "
         "is counted as oracle mismatch). Contexts (let, subscripts, substring offsets, declare -i) are sampled end to end, not modelled.",
         "DESIGN.md §6 C07"),
 "C17": ("Lean 4 invariant proofs over job-table histories and completion schedules + in-process and end-to-end correspondence",
         "Proof: Model/Jobs.lean mirrors JobManager (add_as_current, poll, sweep, wait_all, job-spec resolution) with the environment as a "
         "completion schedule. Theorems for all tables/schedules/histories: wait_all returns only after every task of every job finished and "
         "leaves an empty table, returns whenever all finish, blocks while one is unfinished; no job lost, run twice or removed early; `%N` "
         "addresses job N; ids distinct without polls (partial), refuted with polls for the code's len+1 rule (cex, recorded finding) and proved "
         "for the max+1 repair. Tie: a real Shell runs gated background jobs in-process (harness releases gates) vs the model step by step, plus "
         "brush vs bash on generated job scripts (marker files, `wait`, `jobs`; -c/stdin/file; taskset 1/2/all cores; pause points).",
         "Trusted: Lean kernel + standard axioms. Partial: that the effects of a finished tokio task are visible when wait returns is a runtime "
         "fact observed with marker files, not proved; multi-task jobs are modelled but cannot be driven (Job::new is pub(crate)).",
         "DESIGN.md §6 C17"),
 "C19": ("Lean 4 tiling invariant over the span builder + exhaustive in-process evaluation of the predicate on the real highlighter",
         "Proof: Model/Highlight.lean mirrors highlight_program / highlight_word_piece / append_span / skip_ahead over the token-and-piece tree "
         "the highlighter sees. spans_tile_line_partial: for every well-nested tree and cursor the spans are non-empty, ordered, contiguous and "
         "cover [0, len); render_reproduces_text_partial; spans_on_char_boundaries_partial; append_span_monotone_needed; tokenizer-failure "
         "fallback. The well-nestedness hypothesis about tokenizer/word-parser output is checked on every generated line; its failures (here-doc "
         "token order, backquote unescaping) are proved counter-examples and recorded findings. Tie: 20 M real highlight_command calls per quick "
         "run (all lines to length 5 over 20 symbols x every cursor) evaluated against the predicate, and tree -> model spans vs real spans.",
         "Trusted: Lean kernel + standard axioms; the harness's reconstruction of the tree via the same public tokenizer/word-parser functions. "
         "The tokenizer and word parser themselves are not modelled.",
         "DESIGN.md §6 C19"),
 "C03": ("Lean 4 refinement + invariant proofs on the control-flow model with options; three-way correspondence; decision-table check for nounset",
         "Proof: the C02 models extended with set -e / pipefail / inherit_errexit toggles, command substitutions, eval and pipelines. "
         "errexit_refines_bash_partial: on every well-scoped program brush exits (or not) at exactly the command where the bash reference "
         "semantics does, with the same trace and status; exempt_failure_never_exits: under a suppressed context (if/while/until condition, "
         "non-final &&/|| operand, `!`) no failure however deeply nested through groups, functions, eval, loops, case, subshells, command "
         "substitutions or pipelines produces an exit; pipefail_status_is_rightmost_nonzero_else_last; errexit_off_in_cmdsubst_unless_inherit. "
         "Tie: exhaustive family (failing leaf x 13 contexts x 10 wrappers x 5 option settings x 2 nesting orders) + seeded random programs "
         "run in brush and bash and both Lean models. nounset: theorems on the shared parameter-expansion model (plain/substring/removal of an "
         "unset parameter are rejected under -u; the - + = ? operators, $@/$*/a[@] never are; cex for ${#v[@]}) and 49 expansion forms x 9 "
         "variable states x 3 statement forms x 3 placements (+ positional cases) decided directly brush vs bash; lastpipe_exit_reaches_the_shell / "
         "no_lastpipe_stage_flow_stays_inside; a toggle family (set -e/+e, shopt inherit_errexit, pipefail switched inside functions, eval, groups, "
         "function-in-eval, before/inside/after the failing construct).",
         "Trusted: Lean kernel + standard axioms; bash 5.2.15 as oracle. The Lean bash-errexit semantics (Spec/FlowBash.lean: checks after simple "
         "commands, subshells, pipelines, failing builtins; not after groups/loops/if/case) is validated against bash on every case. Three bash "
         "behaviours contradicting the property's wording are excluded from generation (DESIGN.md). For nounset the theorems cover the operators of Model/ParamOps.lean; the other "
         "forms of the table are decided by direct comparison only (partial).",
         "DESIGN.md §6 C03"),
 "C13": ("Lean 4 round-trip proofs (reader ∘ quoter = id) over tables regenerated from escape.rs + in-process and end-to-end correspondence",
         "Proof: Model/Quote.lean mirrors escape::quote and the value printers, Model/Unquote.lean the reader (brush and bash variants); tables "
         "(needs_escaping, double-quote escapes, ANSI-C arms) are regenerated from escape.rs on every run. 21 theorems over all strings: "
         "read_singleQuote, read_doubleQuote, read_ansiC_bash, read_quote_partial/_ctl_partial (the dispatcher, all modes), printers "
         "(atQ_rereads, declare_p_value_rereads, printfQ_partial); full statements refuted by proved counter-examples where brush is wrong "
         "(tilde, hash, \\0dd+digit, unescaping printers) and recorded as findings. Tie: six quote variants in-process vs model; 17 printer "
         "forms end to end, text eval'ed in brush and bash, values/keys/attributes compared with the originals; exhaustive to length 3 over a "
         "20-character alphabet + random to 40.",
         "Trusted: Lean kernel + standard axioms; translator for the tables (raises when the Rust item changes shape); bash as second reader. "
         "Array-element re-reading has no model (checked directly only).",
         "DESIGN.md §6 C13"),
 "C02": ("Lean 4 refinement proof (brush's result-value control flow vs bash's global-counter semantics) + three-way correspondence (brush, bash, both models)",
         "Proof: Model/Flow.lean mirrors interp.rs (lists, and-or, `!`, if, while/until, for, case with ;; ;& ;;&, groups, subshells, "
         "function calls, break/continue/return/exit, set -e) arm by arm; Spec/FlowBash.lean is bash's mechanism (loop_level/breaking/"
         "continuing counters, return/exit as pending jumps). Proofs/FlowRefine.lean proves by induction on fuel, for all six mutually "
         "recursive interpreter functions, that on every program inside the scope guard (break/continue counts between 1 and the loops of "
         "the same function/subshell) brush's run and bash's run produce the same trace, the same `$?` after every construct and the same "
         "exit status (program_refines_bash_partial), for any nesting depth; the unguarded statement is refuted (flow_full_cex) and "
         "recorded as findings. Tie: every run executes an exhaustive family + seeded random programs with scripted leaves in brush and "
         "bash and compares stdout trace + exit status with both Lean models (four-way decision: brush, bash, model of brush, bash "
         "semantics); half of the random programs are rendered with decorations that must not matter (a harmless redirect on compound "
         "commands, newlines for `;`, `function f {`, one of 22 neutral option settings after the prelude), return/exit codes include "
         "negative, > 255 and i64-extreme values, and a fatal expansion error (`${x?}`, …) is a way out.",
         "Trusted: Lean kernel; propext/Classical.choice/Quot.sound; Lean compiler for drv; bash 5.2.15 as oracle (the Lean bash "
         "semantics is validated against it on every case; oracle_mismatch is reported). Modelled, not verified: tokenizer/parser "
         "(programs are rendered to text and parsed by the real parser on every case), expansion of leaf commands, async plumbing. "
         "Runs that do not terminate are outside the theorem (fuel).",
         "DESIGN.md §6 C02, shared Flow model"),
 "C20": ("Lean 4 invariant proof over op sequences + model/implementation correspondence",
         "Proof: Model/History.lean mirrors History::{import,add,remove_nth_item,clear,flush}, add_to_history, save_history and "
         "the history builtin; Props/C20.lean proves, for every operation sequence of any length over any number of sessions, "
         "that the file's command lines are a subsequence of the recorded commands (exactly once, in order), that a save leaves "
         "nothing out, that reload yields the file, and that saving twice adds nothing. The guard NoSaveW (`history -w`) is a "
         "recorded finding with a proved counter-example. Tie: every run drives real Shell instances (in-process) and interactive "
         "brush processes through exhaustive + random op sequences (add, multi-line add, delete by index/range, clear, -a/-w/-r/-n, "
         "HISTTIMEFORMAT toggles, save-on-exit, kill without save, and a new session constructed with or without timestamps) and compares "
         "file bytes and item flags with the compiled model.",
         "Trusted: Lean kernel; propext/Classical.choice/Quot.sound; Lean compiler for drv; the correspondence is differential "
         "testing (exhaustive to length 4/5 over 12 op kinds, random to 40). Not modelled: reedline's own history backend, "
         "concurrent writers to one file, file-system failures.",
         "DESIGN.md §6 C20"),
}

def main():
    m = json.load(open(os.path.join(ROOT, "MANIFEST.json")))
    checks = []
    for pid in ALL:
        if pid not in CLAIMS:
            continue
        tech, text, note, ref = CLAIMS[pid]
        checks.append({
            "property_id": pid,
            "quick_cmd": "./check %s --tier quick" % pid,
            "thorough_cmd": "./check %s --tier thorough" % pid,
            "evidence_file": "evidence/%s.json" % pid,
            "replay_cmd_template": "./check %s --replay {path}" % pid,
            "engine": "lean-model+harness",
            "level_claimed": {"category": "proof", "text": text, "design_ref": ref},
            "level_note": note,
            "technique": tech,
        })
    m["checks"] = checks
    for e in m["engines"]:
        e["serves_properties"] = sorted(CLAIMS)
    m["not_applicable"] = [{"property_id": p, "reason": "not claimed yet: its model, theorems and correspondence check are still being built (see DESIGN.md §11 for the order of work)"}
                           for p in ALL if p not in CLAIMS]
    json.dump(m, open(os.path.join(ROOT, "MANIFEST.json"), "w"), indent=1)
    print("claimed:", sorted(CLAIMS))

if __name__ == "__main__":
    main()
