"""C09 — variable scope and attributes: locals, temporary assignments, export, readonly.

Three correspondences per run (brush = /repo's current tree):
  E  op sequences applied to the real `ShellEnvironment` API in-process  vs  the Lean model
  S  generated programs run in an in-process shell with a `__dump` builtin (whole scope stack after
     every step)  vs  the Lean model run on the program's flattened op list
  B  the same programs rendered with `declare -p` / `env` probes, brush binary vs bash (the property
     itself: "as in bash") and vs the model's visible view / child environment
"""
import itertools
import json
import os
import random
import re
import lib
from lib import esc, unesc

BIN = "c09"
PROP = "C09"
NAMES = ["x", "y", "a", "m", "t", "u"]

# ------------------------------------------------------------------------------------------------
# wire helpers (formats of lean/BrushVerif/Drv/C09.lean and harness/src/bin/c09.rs)


def w_lit(l):
    if isinstance(l, str):
        return "s" + esc(l)
    return "A" + ",".join(("-" if k is None else "k" + esc(k)) + "=" + esc(v) for k, v in l)


def sh_lit(l):
    """shell text of a literal (values come from a quoting-free alphabet; empty -> '')"""
    if isinstance(l, str):
        return l if l else "''"
    return "(" + " ".join(("" if k is None else "[%s]=" % k) + (v if v else "''") for k, v in l) + ")"


# ------------------------------------------------------------------------------------------------
# E: API-level op sequences

VALS = ["1", "-3", "ab", "Ab", "", "1+2", "07"]
IDXS = ["0", "1", "3", "-1", "-9", "k", "j"]
KINDS = ["g", "l", "c"]
POLS = ["a", "g", "c", "l"]
VARS = ["-~U", "-~Ua", "-~UA", "-~s1", "x~sab", "r~s1", "xr~s2", "i~s5", "l~sAb", "u~sab", "c~sab", "-~I0=1;2=ab", "r~I0=1;1=2",
        "x~I1=z", "-~Mk=v", "r~Mk=v;0=z", "i~I0=4", "-~I", "-~M", "r~U", "x~U", "xi~U"]
LITS = ["1", "ab", "", "1+2", [(None, "1"), (None, "ab")], [("2", "q"), (None, "r")], [("k", "v")], [(None, "k"), (None, "v"), (None, "j")],
        [], [("k", "v"), ("j", "w")], [(None, "k"), ("j", "w")]]


def rand_api_op(rng, names=("x", "a")):
    n = rng.choice(names)
    r = rng.random()
    if r < 0.17:
        return "pu:" + rng.choice(["l", "l", "c", "g"])
    if r < 0.24:
        return "po:" + rng.choice(["l", "l", "c", "g"])
    if r < 0.34:
        return "un:" + n
    if r < 0.42:
        return "ui:%s:%s" % (n, esc(rng.choice(IDXS)))
    if r < 0.62:
        return "ua:%s:%s:%s:%s:%s" % (n, w_lit(rng.choice(LITS)), rng.choice("nneu"), rng.choice(POLS + ["a", "a"]), rng.choice(KINDS + ["g"]))
    if r < 0.76:
        return "ue:%s:%s:%s:%s:%s" % (n, esc(rng.choice(IDXS)), esc(rng.choice(VALS)), rng.choice(POLS + ["a", "a"]), rng.choice(KINDS + ["g"]))
    return "ad:%s:%s:%s" % (n, rng.choice(VARS), rng.choice(KINDS + ["g", "l"]))


def api_exhaustive():
    """every pair (initial variable, single writer op) in three scope contexts — seed independent"""
    out = []
    ctxs = [[], ["pu:l"], ["pu:l", "pu:c"], ["pu:c"], ["pu:l", "pu:l"]]
    writers = []
    for l in LITS:
        for u in "ne":
            writers.append("ua:x:%s:%s:a:g" % (w_lit(l), u))
    for i in IDXS:
        for v in ["ab", "1+2", ""]:
            writers.append("ue:x:%s:%s:a:g" % (esc(i), esc(v)))
        writers.append("ui:x:%s" % esc(i))
    writers.append("un:x")
    for v in VARS:
        for where in ("g", "l"):
            for ctx in ctxs:
                for wr in writers:
                    out.append(ctx[:1] + ["ad:x:%s:%s" % (v, where)] + ctx[1:] + [wr])
    # policies: a binding in each scope of a five-deep stack, each policy, each creation scope
    stack = ["ad:x:-~sg:g", "pu:l", "ad:x:-~sl1:l", "pu:c", "ad:x:-~sc1:c", "pu:l", "ad:x:-~sl2:l", "pu:c"]
    for drop in range(0, 5):
        st = [t for t in stack if not (t.startswith("ad:") and stack.index(t) // 2 in range(4 - drop + 1, 5))] if drop else stack
        for p in POLS:
            for k in KINDS:
                out.append(st + ["ua:x:sN:n:%s:%s" % (p, k)])
                out.append(st + ["ue:x:1:N:%s:%s" % (p, k)])
        out.append(st + ["un:x", "un:x", "un:x", "un:x"])
        out.append(st + ["po:c", "un:x", "po:l", "un:x", "po:l"])
    return out


def with_probes(ops):
    o = []
    for t in ops:
        o += [t, "D"]
    return o


# ------------------------------------------------------------------------------------------------
# S/B: programs.  A step is a dict {sh: shell text, ops: [model ops], [body: [steps]], ...}.

SVALS = ["1", "2", "-3", "ab", "Ab", "cD", "1+2", "07", ""]
FLAGSETS = [[], [], ["-i"], ["-l"], ["-u"], ["-c"], ["-x"], ["-r"], ["-a"], ["-A"], ["+x"], ["+i"], ["-x", "-i"], ["-r", "-x"],
            ["-l", "-x"], ["+l"], ["-g"], ["-g", "-x"], ["+r"], ["-i", "-r"], ["-a", "-r"], ["-a", "-x"]]


def flags_wire(fl):
    s = ""
    for f in fl:
        c = f[1]
        if c in "aAg":
            s += c
        else:
            s += c + f[0]
    return s or "-"


class Gen:
    def __init__(self, rng, features=()):
        self.rng = rng
        self.nfun = 0
        self.funs = []          # (name, body steps)
        self.feats = set(features)
        self.safe = "safe" in self.feats     # stay inside the guards of the _partial theorems and away from bash-only quirks
        self.ro = set()                      # names that may be readonly somewhere
        self.exp = set()                     # names that may be exported somewhere
        self.bound = set()                   # names certainly assigned at some point
        self.temp = []                       # names of enclosing temporary assignments
        self.locs = set()                    # names that may have a local binding in some frame

    def val(self):
        return self.rng.choice(SVALS)

    def arr(self, keyed=False):
        rng = self.rng
        n = rng.randint(0, 3)
        items = []
        for _ in range(n):
            if keyed or rng.random() < 0.2:
                items.append((rng.choice(["k", "j", "2", "0"]), self.val()))
            else:
                items.append((None, self.val()))
        return items

    def name(self, temp_ok=True):
        r = self.rng.random()
        if r < 0.3:
            return "x"
        if r < 0.45:
            return "y"
        if r < 0.65:
            return "a"
        if r < 0.8:
            return "m"
        return self.rng.choice(["t", "u"]) if temp_ok else "x"

    def idx(self, n):
        if n == "m":
            return self.rng.choice(["k", "j", "0", "k"])
        return self.rng.choice(["0", "1", "3", "-1", "2", "-7"])

    # -- actions ------------------------------------------------------------------------------
    def action(self, depth):
        if not self.safe:
            return self.action0(depth)
        for _ in range(50):
            st = self.action0(depth)
            if self.safe_ok(st, depth):
                self.note(st, depth)
                return st
        st = {"sh": "y=ab", "ops": ["as:y:-:sab:-"], "k": "assign", "n": "y"}
        self.note(st, depth)
        return st

    @staticmethod
    def target(st):
        for t in st["ops"]:
            if not t.startswith(("pu:", "po:", "pt:")):
                return t.split(":")[1]
        return None

    def note(self, st, depth=0):
        n, k, sh = self.target(st), st["k"], st["sh"]
        if k == "readonly" or " -r" in sh:
            self.ro.add(n)
        if k == "export" or " -x" in sh:
            self.exp.add(n)
        if k in ("assign", "for", "read", "printf", "arith", "getopts", "mapfile") or "=" in sh:
            self.bound.add(n)
        if k == "unset":
            self.bound.discard(n)
        if k in ("local", "declare") and depth > 0 and "-g" not in sh.split():
            self.locs.add(n)

    def safe_ok(self, st, depth):
        n, k, sh = self.target(st), st["k"], st["sh"]
        if "1+2" in sh:
            return False                                   # integer attribute: recorded C07 defect
        arrayish = ("[" in sh.split("=")[0]) or "(" in sh or " -a" in sh or " -A" in sh or "read -a" in sh or k == "mapfile" or k in ("elem", "unset-elem")
        if arrayish and n not in ("a", "m"):
            return False                                   # scalars stay scalars
        if n == "m" and k == "mapfile":
            return False
        if "read -a" in sh and n != "a":
            return False                                   # `read -a` into an associative array: bash refuses, brush re-keys
        if "-g" in sh.split() and n in self.locs:
            return False                                   # `declare -g` while a caller has a local of that name: bash re-types the caller's local
        if k == "readonly" and depth > 0 and "(" in sh:
            return False                                   # bash quirk: `readonly v=(…)` on a local array inside a function empties it
        if k == "unset-elem" and n not in self.bound:
            return False                                   # `unset 'v[i]'` on a declared-but-unset v: bash removes v
        if self.safe and re.search(r"\[-\d+\]", sh):
            return False                                   # negative subscripts: bash rejects some that brush accepts
        if n in self.ro and k in ("declare", "local", "readonly", "export") and sh.split()[-1] != n:
            return False                                   # a refused `export x=v` / `declare -i x=v` on a readonly x: bash still applies -x / -i (but not -l)
        if n in self.temp and k not in ("assign", "for", "read", "printf", "arith"):
            return False                                   # attributes of a temporary binding: bash propagates some to the global
        if k in ("local", "declare") and depth > 0 and "-g" not in sh:
            if n in self.temp:
                return False                               # a local over a temporary binding: bash copies the temporary value
            if n in self.exp and n in ("a", "m"):
                return False                               # a local array over an exported scalar: bash's cached child environment may keep the hidden value
        if k in ("declare", "local", "readonly") and (" -a" in sh or " -A" in sh or " +" in sh):
            if "=" not in sh or n in self.bound or n in self.ro:
                return False                               # re-typing an existing variable: long tail of bash quirks
        if k in ("declare", "local", "readonly") and "=" not in sh:
            return False                                   # valueless declarations of possibly unbound names
        if k in ("declare", "local", "readonly") and "=" not in sh and n not in self.bound and depth == 0:
            return True
        if n in ("a", "m") and k in ("assign",) and n not in self.bound and "+=" in sh:
            return True
        return True

    def action0(self, depth):
        rng = self.rng
        inf = "f" if depth > 0 else ""
        r = rng.random()
        n = self.name()
        if r < 0.16:      # plain / append assignment
            ap = rng.random() < 0.3
            if n in ("a", "m") and rng.random() < 0.5:
                l = self.arr(keyed=(n == "m"))
            else:
                l = self.val()
            return {"sh": "%s%s=%s" % (n, "+" if ap else "", sh_lit(l)), "ops": ["as:%s:-:%s:%s" % (n, w_lit(l), "a" if ap else "-")], "k": "assign"}
        if r < 0.26:      # element assignment
            n = rng.choice(["a", "m", "a", "m", "x"])
            i, v, ap = self.idx(n), self.val(), rng.random() < 0.25
            return {"sh": "%s[%s]%s=%s" % (n, i, "+" if ap else "", sh_lit(v)), "ops": ["as:%s:i%s:%s:%s" % (n, esc(i), w_lit(v), "a" if ap else "-")],
                    "k": "elem"}
        if r < 0.31:
            v = self.val() or "e"
            return {"sh": "for %s in %s; do :; done" % (n, v), "ops": ["ua:%s:%s:n:a:g" % (n, w_lit(v))], "k": "for"}
        if r < 0.36:
            if n in ("a", "m") and rng.random() < 0.6:
                vs = [self.val() or "e" for _ in range(rng.randint(1, 2))]
                return {"sh": "read -a %s <<< '%s'" % (n, " ".join(vs)), "ops": ["pu:c", "ua:%s:%s:n:a:g" % (n, w_lit([(None, v) for v in vs])), "po:c"], "k": "read"}
            v = self.val()
            return {"sh": "read %s <<< '%s'" % (n, v), "ops": ["pu:c", "ua:%s:%s:n:a:g" % (n, w_lit(v)), "po:c"], "k": "read"}
        if r < 0.41:
            v = self.val()
            if n in ("a", "m") and rng.random() < 0.6:
                i = self.idx(n)
                return {"sh": "printf -v '%s[%s]' %%s %s" % (n, i, sh_lit(v)), "ops": ["pu:c", "ue:%s:%s:%s:a:g" % (n, esc(i), esc(v)), "po:c"], "k": "printf"}
            return {"sh": "printf -v %s %%s %s" % (n, sh_lit(v)), "ops": ["pu:c", "ua:%s:%s:n:a:g" % (n, w_lit(v)), "po:c"], "k": "printf"}
        if r < 0.46:
            v = str(rng.choice([0, 4, 12, -5]))
            if n in ("a",) and rng.random() < 0.6:
                i = self.idx(n)
                return {"sh": "(( %s[%s] = %s ))" % (n, i, v), "ops": ["ue:%s:%s:%s:a:g" % (n, esc(i), esc(v))], "k": "arith"}
            return {"sh": "(( %s = %s ))" % (n, v), "ops": ["ua:%s:%s:n:a:g" % (n, w_lit(v))], "k": "arith"}
        if r < 0.50:
            v = self.val() or "d"
            return {"sh": ": ${%s:=%s}" % (n, v), "ops": ["df:%s:%s" % (n, esc(v))], "k": "default"}
        if r < 0.53:
            return {"sh": "OPTIND=1; getopts o %s -o" % n, "ops": ["pu:c", "ua:%s:so:n:a:g" % n, "po:c"], "k": "getopts"}
        if r < 0.56:
            n = rng.choice(["a", "a", "x", "y"])
            v = self.val() or "e"
            return {"sh": "mapfile -t %s <<< '%s'" % (n, v), "ops": ["pu:c", "ua:%s:%s:n:a:g" % (n, w_lit([(None, v)])), "po:c"], "k": "mapfile"}
        if r < 0.64:
            if n in ("a", "m") and rng.random() < 0.4:
                i = self.idx(n)
                return {"sh": "unset '%s[%s]'" % (n, i), "ops": ["pu:c", "uj:%s:%s" % (n, esc(i)), "po:c"], "k": "unset-elem"}
            return {"sh": "unset %s" % n, "ops": ["pu:c", "un:%s" % n, "po:c"], "k": "unset"}
        if r < 0.74:      # export forms
            q = rng.random()
            if q < 0.35:
                return {"sh": "export %s" % n, "ops": ["pu:c", "en:%s:e" % n, "po:c"], "k": "export"}
            if q < 0.5:
                return {"sh": "export -n %s" % n, "ops": ["pu:c", "en:%s:u" % n, "po:c"], "k": "export"}
            v, ap = self.val(), rng.random() < 0.2
            return {"sh": "export %s%s=%s" % (n, "+" if ap else "", sh_lit(v)), "ops": ["pu:c", "ea:%s:%s:%s" % (n, w_lit(v), "a" if ap else "-"), "po:c"],
                    "k": "export"}
        # declare / local / readonly
        verb = rng.choice(["declare", "declare", "local", "local", "readonly"] if depth > 0 else ["declare", "declare", "readonly"])
        fl = list(rng.choice(FLAGSETS))
        if verb == "readonly":
            fl = [f for f in fl if f in ("-a", "-A")]
        if verb == "local":
            fl = [f for f in fl if f != "-g"]
        if n == "m" and "-a" in fl:
            fl.remove("-a")
        if n != "m" and "-A" in fl:
            fl.remove("-A")          # `mapfile` refuses associative arrays before it reaches the environment
        q = rng.random()
        lit = None
        if q < 0.55:
            if ("-a" in fl or "-A" in fl or n in ("a", "m")) and rng.random() < 0.6:
                lit = self.arr(keyed=("-A" in fl or n == "m"))
            else:
                lit = self.val()
        arg = n if lit is None else "%s=%s" % (n, sh_lit(lit))
        bits = inf + ("n" if isinstance(lit, list) else "")
        return {"sh": " ".join([verb] + fl + [arg]),
                "ops": ["pu:c", "de:%s:%s:%s:%s:%s" % (n, flags_wire(fl), {"declare": "d", "local": "l", "readonly": "r"}[verb],
                                                      "-" if lit is None else w_lit(lit), bits or "-"), "po:c"],
                "k": verb}

    def prefix(self):
        p = self.prefix0()
        while self.safe and p is not None and "1+2" in p[2]:
            p = self.prefix0()
        return p

    def prefix0(self):
        n = self.rng.choice(["t", "u", "t", "x"])
        if self.safe:
            cand = [c for c in ["t", "u", "x"] if c not in self.temp]
            if not cand:
                return None
            n = self.rng.choice(cand)
        v = self.val()
        return n, v, "%s=%s" % (n, sh_lit(v)), "pt:%s~%s" % (n, w_lit(v))

    def step(self, depth):
        rng = self.rng
        r = rng.random()
        if depth < 3 and r < (0.22 if depth == 0 else 0.16):
            name = "f%d" % self.nfun
            self.nfun += 1
            pre = self.prefix() if rng.random() < 0.4 else None
            if pre:
                self.temp.append(pre[0])
            body = self.steps(depth + 1, rng.randint(1, 4))
            if pre:
                self.temp.pop()
            self.funs.append((name, body))
            return {"call": name, "body": body, "pre": pre, "k": "call" + ("-prefix" if pre else "")}
        if r < 0.30:
            # temporary assignment on a builtin: the builtin's own write happens inside the command scope
            pre = self.prefix()
            if pre is None:
                return self.action(depth)
            q = rng.random()
            if q < 0.3:
                return {"sh": pre[2] + " :", "ops": [pre[3], "po:c"], "k": "prefix-builtin"}
            if q < 0.6:
                n, v = self.name(), self.val()
                return {"sh": "%s read %s <<< '%s'" % (pre[2], n, v), "ops": [pre[3], "ua:%s:%s:n:a:g" % (n, w_lit(v)), "po:c"], "k": "prefix-builtin"}
            if q < 0.8:
                return {"probe_pre": pre, "k": "prefix-probe"}
            n, v = self.name(), self.val()
            return {"sh": "%s printf -v %s %%s %s" % (pre[2], n, sh_lit(v)), "ops": [pre[3], "ua:%s:%s:n:a:g" % (n, w_lit(v)), "po:c"], "k": "prefix-builtin"}
        return self.action(depth)

    def steps(self, depth, n):
        out = []
        for _ in range(n):
            st = self.step(depth)
            if self.safe and st["k"] == "prefix-builtin" and self.target(st):
                own = st["ops"][0][3:].split("~")[0]
                if self.target(st) in self.temp or self.target(st) == own or "1+2" in st["sh"]:
                    # (a builtin writing the name of its own prefix: bash lets `x=1 printf -v x …` reach the global)
                    st = self.action(depth)
                else:
                    self.bound.add(self.target(st))
            out.append(st)
        return out

    def program(self, n, depth=0):
        return self.steps(depth, n)


PROBE_NAMES = " ".join(NAMES)


def render(steps, funs_out, mode, wrap=None, path=()):
    """-> (lines, ops).  mode 'S': probes are `__dump`; mode 'B': `declare -p` + `env` probes.
    `wrap`: set of step paths to run inside a subshell (steps the model says fail inside a function:
    brush and bash differ on what a failed write aborts, which is not this property)."""
    lines, ops = [], []
    for i, st in enumerate(steps):
        p = path + (i,)
        if "call" in st:
            blines, bops = render(st["body"], funs_out, mode, wrap, p)
            funs_out.append("%s() {\n%s\n}" % (st["call"], "\n".join(blines)))
            pre = st["pre"]
            lines.append(((pre[2] + " ") if pre else "") + st["call"])
            ops += ([pre[3]] if pre else ["pu:c"]) + ["pu:l"] + bops + ["po:l", "po:c"]
        elif "probe_pre" in st:
            pre = st["probe_pre"]
            if mode == "S":
                lines.append("%s __dump keep" % pre[2])
            else:
                lines.append("echo '#P'; %s declare -p %s 2>/dev/null; echo '#E'; %s env; echo '#Z'" % (pre[2], PROBE_NAMES, pre[2]))
            ops += [pre[3], "D", "po:c"]
            continue
        else:
            if wrap and p in wrap:
                lines.append("( " + st["sh"] + " ) 2>/dev/null")
            else:
                lines.append(st["sh"])
            ops += st["ops"]
        if mode == "S":
            lines.append("__dump")
        else:
            lines.append("echo '#P'; declare -p %s 2>/dev/null; echo '#E'; env; echo '#Z'" % PROBE_NAMES)
        ops.append("D")
    return lines, ops


def script_of(steps, mode, wrap=None):
    funs = []
    lines, ops = render(steps, funs, mode, wrap)
    return "\n".join(funs + lines) + "\n", ops


def step_paths(steps, path=(), depth=0):
    """[(path, depth, step)] for the leaf steps in op order (matching render)"""
    out = []
    for i, st in enumerate(steps):
        p = path + (i,)
        if "call" in st:
            out += step_paths(st["body"], p, depth + 1)
        out.append((p, depth, st))          # a call has a probe of its own, after its body's probes
    return out


def failing_in_function(steps, model_dumps):
    """paths of leaf steps inside a function after which the model reports `S=0` (the step's writer failed)"""
    leaves = step_paths(steps)
    bad = set()
    # one dump per leaf step, in order (calls add no dump of their own)
    for (p, depth, st), d in zip(leaves, model_dumps):
        if depth > 0 and d.startswith("S=0") and "probe_pre" not in st and "call" not in st:
            bad.add(p)
    return bad


def kinds_of(steps):
    ks = []
    for st in steps:
        ks.append(st["k"])
        if "call" in st:
            ks += kinds_of(st["body"])
    return ks


# ------------------------------------------------------------------------------------------------
# B: parsing `declare -p` / `env` probes into the canonical view

DECL = re.compile(r"^declare -([A-Za-z-]+) ([A-Za-z_][A-Za-z0-9_]*)(?:=(.*))?$")
ITEM = re.compile(r'\[([^\]]*)\]="([^"]*)"')


def canon_decl(line):
    m = DECL.match(line)
    if not m:
        return None
    fl, name, val = m.groups()
    attrs = "".join(c for c in "xri" if c in fl) + "".join(c for c in "luc" if c in fl)
    attrs = attrs or "-"
    if val is None:
        v = "Ua" if "a" in fl else "UA" if "A" in fl else "U"
    elif val.startswith("("):
        items = ITEM.findall(val)
        if "A" in fl:
            items.sort(key=lambda kv: kv[0].encode())
            v = "M" + ";".join("%s=%s" % (esc(k), esc(x)) for k, x in items)
        else:
            items.sort(key=lambda kv: int(kv[0]))
            v = "I" + ";".join("%s=%s" % (k, esc(x)) for k, x in items)
    else:
        s = val[1:-1] if len(val) >= 2 and val[0] == '"' else val
        v = "s" + esc(s)
    return name, attrs + "~" + v


def parse_probes(out):
    """stdout of a B-mode run -> list of (view dict, child env dict)"""
    res = []
    cur, part = None, None
    for line in out.split("\n"):
        if line == "#P":
            cur, part = ({}, {}), "P"
        elif line == "#E" and cur is not None:
            part = "E"
        elif line == "#Z" and cur is not None:
            res.append(cur)
            cur, part = None, None
        elif cur is not None and part == "P":
            c = canon_decl(line)
            if c:
                cur[0][c[0]] = c[1]
        elif cur is not None and part == "E":
            k, sep, v = line.partition("=")
            if sep and k in NAMES:
                cur[1][k] = esc(v)
    return res


def show_map(d):
    return ",".join("%s=%s" % (k, d[k]) for k in sorted(d, key=lambda s: s.encode()))


def model_view(dump):
    """`S=. scopes V[...] X[...]` -> (scopes, view text, child text)"""
    parts = dump.split(" ")
    if len(parts) != 4:
        return dump, "?", "?"
    return parts[1], parts[2][2:-1], parts[3][2:-1]


# classification of brush-vs-bash differences: each clause names one recorded defect class and is
# recognised by the feature that triggers it (computed from the model's own scope dump).

def scopes_of(dump_scopes):
    out = []
    for sc in dump_scopes.split("/"):
        kind, body = sc[0], sc[2:-1]
        d = {}
        if body:
            for ent in body.split(","):
                k, _, v = ent.partition("=")
                d[k] = v
        out.append((kind, d))
    return out


def clauses_for(scopes_text, ops_so_far, script):
    """defect classes whose trigger is present in the model state / op history at this probe"""
    cl = set()
    sc = scopes_of(scopes_text)
    names = set(k for _, d in sc for k in d)
    for n in names:
        binds = [(kind, d[n]) for kind, d in sc if n in d]        # bottom -> top
        attrs = [b[1].split("~")[0] for b in binds]
        kinds = [b[0] for b in binds]
        if len(binds) >= 2:
            # a binding shadows another one of the same name
            for lo in range(len(binds) - 1):
                if "r" in attrs[lo]:
                    cl.add("readonly_shadowed_by_inner_scope")
                if "x" in attrs[lo] and any("x" not in a for a in attrs[lo + 1:]):
                    cl.add("shadowed_export_reaches_child")
                if "x" in attrs[lo] and kinds[lo + 1] == "L":
                    cl.add("local_does_not_inherit_export")
    return cl


# ------------------------------------------------------------------------------------------------

def load_corpus():
    cases = []
    cdir = os.path.join(os.environ.get("VERIF_CORPUS") or os.path.join(lib.ROOT, "corpus"), PROP)
    if os.path.isdir(cdir):
        for f in sorted(os.listdir(cdir)):
            if f.endswith(".json"):
                for rec in json.load(open(os.path.join(cdir, f))):
                    cases.append(rec)
    return cases


def run(ctx):
    ok, out = lib.cargo_build([BIN])
    if not ok:
        lib.log(out[-4000:])
        ctx.broken.append("harness c09 does not build against the current tree: " + lib._first_errors(out))
    ctx.proof_stage()
    if not ok:
        return
    corpus = load_corpus()
    run_api(ctx, corpus)
    run_programs(ctx, corpus)
    run_faildispatch(ctx)
    run_sweep(ctx)
    ctx.cov["sweep"] = ("W: a seeded sample of guarded programs (main steps valid inside and outside functions) re-run as identical text under "
                        "brush and bash in the contexts %s; under the neutral options %s; and under %s with bash in the same mode as oracle; "
                        "observers at every function end and at the end: declare -p by name, plain expansion, the no-name listings declare -p / set / "
                        "export -p / readonly -p / local -p, env and printenv in a child, ${!prefix@}, compgen -v, [[ -v ]], unset-then-reread in a subshell"
                        % (", ".join(W_CONTEXTS), ", ".join(W_NEUTRAL), ", ".join(W_CHANGING)))
    ctx.cov["rule"] = ("E: every (initial variable x single writer op) pair in five scope contexts and every lookup policy x creation scope "
                       "on a five-deep scope stack (seed independent), plus seeded random op sequences (length 4-24) over "
                       "push/pop/unset/unset_index/update_or_add/update_or_add_array_element/add on names {x,a}, dumped after every op; "
                       "S/B: seeded random programs of declare/local/export/readonly/unset/assignment/+=/a[i]=/for/read/printf -v/(( ))/"
                       "${v:=}/getopts/mapfile steps with function calls to depth 3 and temporary-assignment prefixes on builtins, functions "
                       "and `env`, probed after every step; non-trivial = at least 3 ops / 3 distinct step kinds")
    ctx.assumptions += ["values are ASCII and integers stay inside i64; `set -a` is off; no namerefs / dynamic variables",
                        "bash 5.2.15 is the oracle for the rendered programs",
                        "what a failed write aborts (rest of the function / line) differs between brush and bash and is not part of C09: "
                        "steps the model says fail inside a function run in a subshell in both shells"]


def run_api(ctx, corpus):
    cases = [("corpus", rec["ops"]) for rec in corpus if rec.get("mode") == "E"]
    for ops in api_exhaustive():
        cases.append(("exh", ops))
    rng = ctx.rng
    for _ in range(ctx.size(6000, 120000)):
        k = rng.randint(4, 24)
        names = rng.choice([("x",), ("x", "a"), ("x", "a")])
        cases.append(("rand", [rand_api_op(rng, names) for _ in range(k)]))
    lines = [" ".join(with_probes(ops)) for _, ops in cases]
    okh, bouts, errs = lib.run_vh_parallel(BIN, ["E " + l for l in lines], workers=8)
    if not okh:
        ctx.broken.append("harness c09 died: " + errs[:500])
    mouts = lib.run_drv_parallel(["C09 " + l for l in lines], workers=8)
    nviol = 0
    for (tag, ops), b, m in zip(cases, bouts, mouts):
        ctx.count(("E",) + tuple(ops), nontrivial=len(ops) >= 3, bucket="api_" + tag)
        ctx.impl_validated += 1
        if b != m and nviol < 10:
            nviol += 1
            bs, ms = b.split(" | "), m.split(" | ")
            at = next((i for i, (x, y) in enumerate(zip(bs, ms)) if x != y), min(len(bs), len(ms)))
            ctx.violation("environment model and brush's ShellEnvironment disagree (correspondence broken)",
                          {"mode": "E", "ops": ops[:at + 1], "brush": bs[at:at + 1], "model": ms[at:at + 1]}, kind="correspondence")
    ctx.sample({"mode": "E", "ops": cases[len(cases) // 2][1], "brush": bouts[len(cases) // 2]})


def run_programs(ctx, corpus):
    rng = ctx.rng
    progs = [("corpus", rec["steps"]) for rec in corpus if rec.get("mode") == "P"]
    clause_of = {id(rec["steps"]): rec["clause"] for rec in corpus if rec.get("mode") == "P" and rec.get("clause")}
    for _ in range(ctx.size(500, 8000)):
        g = Gen(random.Random(rng.getrandbits(48)), features=("safe",))
        progs.append(("rand-guarded", g.program(rng.randint(3, 9))))
    for _ in range(ctx.size(1500, 30000)):
        g = Gen(random.Random(rng.getrandbits(48)))
        progs.append(("rand-full", g.program(rng.randint(3, 9))))
    check_programs(ctx, progs, clause_of=clause_of)


def prune(steps, bad, path=()):
    out = []
    for i, st in enumerate(steps):
        p = path + (i,)
        if p in bad:
            continue
        if "call" in st:
            st = dict(st, body=prune(st["body"], bad, p) or [{"sh": ":", "ops": ["pu:c", "po:c"], "k": "noop"}])
        out.append(st)
    return out


def check_programs(ctx, progs, verbose=False, clause_of=None):
    clause_of = clause_of or {}
    # pass 1: the model alone, to find the steps whose writer fails inside a function.  What such a failure
    # aborts (the rest of the function, in brush; nothing or the whole call, in bash) is not this property,
    # so those steps are removed (a failed write leaves the model state unchanged) — failing writes stay at top level.
    progs = list(progs)

    def model_pass(ps):
        fl = [script_of(steps, "S")[1] for _, steps in ps]
        ms = lib.run_drv_parallel(["C09 " + " ".join(ops) for ops in fl], workers=8)
        bs = []
        for (_, steps), m in zip(ps, ms):
            d = m.split(" | ")
            if len(d) != len(step_paths(steps)):
                bs.append(None)             # a prefix assignment itself failed (the command is skipped): not aligned, dropped
            else:
                bs.append(failing_in_function(steps, d))
        return fl, ms, bs

    for _round in range(6):
        flat, m1, bads = model_pass(progs)
        if not any(bads):
            break
        newp = []
        for (tag, steps), bad in zip(progs, bads):
            if bad:
                ns = prune(steps, bad)
                if id(steps) in clause_of:
                    clause_of[id(ns)] = clause_of[id(steps)]
                steps = ns
            newp.append((tag, steps))
        progs = newp
    flat, m1, bads = model_pass(progs)
    keep = [i for i, b in enumerate(bads) if b is not None and not b]
    ctx.bucket("prog_dropped_failing_write_in_function", len(progs) - len(keep))
    progs = [progs[i] for i in keep]
    flat = [flat[i] for i in keep]
    m1 = [m1[i] for i in keep]
    wraps = [set() for _ in progs]
    s_scripts = [script_of(steps, "S", w)[0] for (_, steps), w in zip(progs, wraps)]
    b_scripts = [script_of(steps, "B", w)[0] for (_, steps), w in zip(progs, wraps)]
    okh, souts, errs = lib.run_vh_parallel(BIN, ["S " + esc(s) for s in s_scripts], workers=8)
    if not okh:
        ctx.broken.append("harness c09 died: " + errs[:500])
    def both(arg):
        (tag, _), s = arg
        if tag == "rand-full":
            return None, None          # full grammar: scope-stack correspondence only (outside the bash-comparable domain)
        return lib.run_both(s, mode="file", timeout=30)
    res = lib.pmap(both, list(zip(progs, b_scripts)), workers=8)
    rc = 0
    nviol = 0
    nprop = 0
    for (tag, steps), ops, m, w, ss, bs, so, (rb, ro) in zip(progs, flat, m1, wraps, s_scripts, b_scripts, souts, res):
        ks = kinds_of(steps)
        ctx.count(("P", bs), nontrivial=len(set(ks)) >= 3, bucket="prog_" + tag)
        for k in set(ks):
            ctx.bucket("uses_" + k)
        ctx.impl_validated += 1
        md = m.split(" | ")
        sd = so.split(" | ")
        # S: whole scope stack, in-process
        mm = [d[4:] for d in md]
        sm = [d[4:] for d in sd]
        case = {"mode": "P", "steps": steps, "script": bs}
        if mm != sm:
            at = next((i for i, (x, y) in enumerate(zip(mm, sm)) if x != y), min(len(mm), len(sm)))
            if nviol < 10:
                nviol += 1
                ctx.violation("scope-stack model and brush (in-process, __dump) disagree at probe %d (correspondence broken)" % at,
                              dict(case, in_process_script=ss, brush=sm[at:at + 1], model=mm[at:at + 1]), kind="correspondence")
            rc = 1
            if rb is None:
                continue            # (otherwise the property itself is still decided below, on the binary against bash)
        if rb is None:
            continue
        # B: brush binary vs bash vs model view
        if rb["timeout"] or ro["timeout"] or lib.is_panic(rb):
            ctx.violation("brush timed out / panicked on a C09 program", dict(case, brush_stderr=rb["err"][-300:]))
            rc = 1
            continue
        pb, po = parse_probes(rb["out"]), parse_probes(ro["out"])
        clause = clause_of.get(id(steps))
        if len(pb) != len(md):
            ctx.violation("probe count differs (brush %d, model %d): a step aborted the script in brush" % (len(pb), len(md)),
                          dict(case, brush_stderr=rb["err"][-300:]), kind="correspondence")
            rc = 1
            continue
        if len(po) != len(md):
            what = "bash ran %d probes, brush %d: a step that bash refuses (and aborts on) succeeds in brush" % (len(po), len(pb))
            if clause:
                ctx.known_or_violation(clause, what, dict(case))
                rc = rc or (0 if clause in ctx.known else 1)
            else:
                ctx.violation(what, dict(case, bash_stderr=ro["err"][-400:]))
                rc = 1
            continue
        # intrinsic: a command that failed leaves no trace of its temporary assignments — the probe after it equals the probe before it
        undone = True
        for i, (_, _, st) in enumerate(step_paths(steps)):
            if st.get("undo") and i > 0 and pb[i] != pb[i - 1]:
                undone = False
                if nprop < 10:
                    nprop += 1
                    ctx.violation("temporary assignment not undone after a failed command `%s` (probe %d): before view %s child %s; after view %s child %s"
                                  % (st["sh"], i, show_map(pb[i - 1][0]), show_map(pb[i - 1][1]), show_map(pb[i][0]), show_map(pb[i][1])),
                                  dict(case, probe=i, bash_view=show_map(po[i][0]), bash_child=show_map(po[i][1])))
                rc = 1
                break
        if not undone:
            continue
        for i, ((vb, eb), (vo, eo), d) in enumerate(zip(pb, po, md)):
            scopes_t, mv, mx = model_view(d)
            tb, to_ = show_map(vb), show_map(vo)
            xb, xo = show_map(eb), show_map(eo)
            if tb != mv or xb != mx:
                if nviol < 10:
                    nviol += 1
                    ctx.violation("model's visible view / child environment and the brush binary disagree at probe %d (correspondence broken)" % i,
                                  dict(case, brush_view=tb, model_view=mv, brush_child=xb, model_child=mx, bash_view=to_, bash_child=xo),
                                  kind="property" if (tb != to_ or xb != xo) else "correspondence")
                rc = 1
                break
            if tb != to_ or xb != xo:
                # the property fails on brush here (brush == model): which recorded defect class explains it?
                cl = clause
                what = "brush and bash differ at probe %d: view %s vs %s; child env %s vs %s" % (i, tb, to_, xb, xo)
                if cl:
                    ctx.known_or_violation(cl, what, dict(case, probe=i, brush_view=tb, bash_view=to_, brush_child=xb, bash_child=xo))
                    if cl not in ctx.known:
                        rc = 1
                else:
                    if nviol < 10:
                        nviol += 1
                        ctx.violation(what + " (no recorded defect class explains it)",
                                      dict(case, probe=i, brush_view=tb, bash_view=to_, brush_child=xb, bash_child=xo, model_scopes=scopes_t))
                    rc = 1
                break
    if progs:
        ctx.sample({"mode": "P", "script": b_scripts[0][:600]})
    return rc



# ------------------------------------------------------------------------------------------------
# F: failing dispatch path x temporary assignment.  `x=tmp cmd` where cmd fails in each way a simple command can
# fail (before its body runs / during / after): the temporary binding must be gone afterwards on every one of them.
# Same step format as above, so each program goes through S (whole scope stack, in-process), B (brush binary vs bash
# vs the model's view and child environment) and, for the steps marked `undo`, the intrinsic predicate
# "the probe after the failed call equals the probe before it" evaluated on brush's own output.

F_NOCLOB = "/tmp/c09-noclobber-target"
NOOP = {"sh": ":", "ops": ["pu:c", "po:c"], "k": "noop"}
# kind -> (definition / setup lines, command text after the prefix, does a function body run, usable inside a caller function)
F_KINDS = {
    "defredir-nodir": (["bf1() { :; } > /nonexistent-c09/out"], "bf1", False, True),
    "defredir-in-missing": (["bf2() { :; } < /nonexistent-c09/in"], "bf2", False, True),
    "defredir-badfd": (["bf3() { :; } >&9"], "bf3", False, True),
    "defredir-second-fails": (["bf4() { :; } 2>/dev/null > /nonexistent-c09/out"], "bf4", False, True),
    "defredir-noclobber": (["set -C", ": >| " + F_NOCLOB, "bf5() { :; } > " + F_NOCLOB], "bf5", False, True),
    "defredir-nodir-args": (["bf6() { :; } > /nonexistent-c09/$1"], "bf6 p q", False, True),
    "callredir-function": (["gf() { :; }"], "gf > /nonexistent-c09/out", False, True),
    "callredir-builtin": ([], "true > /nonexistent-c09/out", False, True),
    "callredir-special": ([], ": > /nonexistent-c09/out", False, True),
    "callredir-external": ([], "/bin/true < /nonexistent-c09/in", False, True),
    "not-found": ([], "nosuchcmd_c09 arg", False, True),
    "body-false": (["bf7() { false; }"], "bf7", True, True),
    "body-return": (["bf8() { local z=1; return 3; }"], "bf8", True, True),
    "body-readonly-write": (["readonly fr=1", "bf9() { fr=2; echo not-reached; }"], "bf9", True, False),
    "body-arith-error": (["bf10() { : $(( 1/0 )); echo not-reached; }"], "bf10", True, False),
    "body-local-readonly-write": (["bf11() { local -r q=1; q=2; echo not-reached; }"], "bf11", True, False),
    "body-failing-redirect": (["bf12() { local z=1; : > /nonexistent-c09/out; }"], "bf12", True, True),
    "builtin-cd": ([], "cd /nonexistent-c09", False, True),
    "builtin-dot-missing": ([], ". /nonexistent-c09/f", False, True),
    "builtin-eval-false": ([], "eval false", False, True),
    "external-false": ([], "/bin/false", False, True),
    "external-not-executable": ([], "/etc/passwd", False, True),
}
F_PRIORS = ["unset", "global", "exported", "ro-other"]
F_CONTEXTS = ["top", "fn-local", "fn-nolocal", "fn2-local"]


def f_call(kind, name="x", val="tmp", ro_other=False):
    _, cmd, body, _ = F_KINDS[kind]
    items = [(name, val)] + ([("u", "z")] if ro_other else [])
    pre = " ".join("%s=%s" % it for it in items)
    pt = "pt:" + "&".join("%s~%s" % (n, w_lit(v)) for n, v in items)
    return {"sh": "%s %s" % (pre, cmd), "ops": [pt] + (["pu:l", "po:l"] if body else []) + ["po:c"], "k": "fail-" + kind, "undo": True}


def f_defs(kinds):
    out, seen = [], set()
    for kind in kinds:
        for line in F_KINDS[kind][0]:
            if line not in seen:
                seen.add(line)
                out.append(w_act(line, [], "setup"))
    return out


def f_prior(prior):
    if prior == "global":
        return [w_act("x=gx", ["as:x:-:sgx:-"], "assign")]
    if prior == "exported":
        return [w_act("export x=ex", ["pu:c", "ea:x:sex:-", "po:c"], "export")]
    if prior == "ro-other":
        return [w_act("x=gx", ["as:x:-:sgx:-"], "assign"), w_act("readonly u=ro", ["pu:c", "de:u:-:r:sro:-", "po:c"], "readonly")]
    return []


def f_wrap(core, context, fname="c"):
    """the core steps at top level, or inside a caller function (with / without a local x; two callers deep)"""
    if context == "top":
        return core
    loc = [w_act("local x=lx", ["pu:c", "de:x:-:l:slx:f", "po:c"], "local")] if "nolocal" not in context else \
          [w_act("local y=ly", ["pu:c", "de:y:-:l:sly:f", "po:c"], "local")]
    inner = {"call": fname + "0", "body": loc + core, "pre": None, "k": "call"}
    if context.startswith("fn2"):
        inner = {"call": fname + "1", "body": [w_act("local t=lt", ["pu:c", "de:t:-:l:slt:f", "po:c"], "local"), inner, dict(NOOP)],
                 "pre": ("y", "o", "y=o", "pt:y~so"), "k": "call-prefix"}
    return [inner, w_act("x=after", ["as:x:-:safter:-"], "assign")]


def f_second(i=0):
    """an ordinary function called with a temporary assignment of its own (shows scope-stack damage left by the step before)"""
    return {"call": "g%d" % i, "body": [w_act("local m=1", ["pu:c", "de:m:-:l:s1:f", "po:c"], "local")], "pre": ("y", "t", "y=t", "pt:y~st"), "k": "call-prefix"}


def f_exhaustive():
    out = []
    for kind in F_KINDS:
        for prior in F_PRIORS:
            for context in F_CONTEXTS:
                if context != "top" and not F_KINDS[kind][3]:
                    continue        # a fatal error in the body: bash unwinds to the top level, brush to the caller (error flow, not scoping)
                ro = prior == "ro-other"
                core = [f_call(kind, ro_other=ro), w_act("x=later", ["as:x:-:slater:-"], "assign"), f_second(0),
                        f_call(kind, val="tmp2", ro_other=ro), f_second(1)]
                out.append(("fail-dispatch", f_defs([kind]) + f_prior(prior) + f_wrap(core, context)))
    return out


def f_random(rng):
    kinds = [rng.choice(list(F_KINDS)) for _ in range(rng.randint(2, 4))]
    context = rng.choice(F_CONTEXTS)
    if context != "top":
        kinds = [k for k in kinds if F_KINDS[k][3]] or ["defredir-nodir"]
    core, ng = [], 0
    for kind in kinds:
        r = rng.random()
        if r < 0.35:
            n = rng.choice(["x", "y", "t"])
            v = rng.choice(["1", "ab", "cD", ""])
            core.append(w_act("%s=%s" % (n, sh_lit(v)), ["as:%s:-:%s:-" % (n, w_lit(v))], "assign"))
        elif r < 0.5:
            n = rng.choice(["x", "t"])
            core.append(w_act("export %s" % n, ["pu:c", "en:%s:e" % n, "po:c"], "export"))
        elif r < 0.6:
            n = rng.choice(["x", "t"])
            core.append(w_act("unset %s" % n, ["pu:c", "un:%s" % n, "po:c"], "unset"))
        core.append(f_call(kind, name=rng.choice(["x", "x", "t", "y"]), val=rng.choice(["tmp", "07", "Ab"])))
        if rng.random() < 0.5:
            core.append(f_second(ng))
            ng += 1
    core.append(w_act("x=later", ["as:x:-:slater:-"], "assign"))
    core.append(f_second(ng))
    return ("fail-dispatch-rand", f_defs(kinds) + f_prior(rng.choice(F_PRIORS[:3])) + f_wrap(core, context))


def run_faildispatch(ctx):
    progs = f_exhaustive()
    rng = random.Random(ctx.rng.getrandbits(48))
    for _ in range(ctx.size(120, 2500)):
        progs.append(f_random(rng))
    try:
        check_programs(ctx, progs)
    finally:
        try:
            os.unlink(F_NOCLOB)
        except OSError:
            pass
    ctx.cov["fail_dispatch"] = ("F: every way a simple command with a temporary assignment can fail (%s) x state of the name before (%s) x calling "
                                "context (%s), twice per program with a plain assignment and an ordinary `y=t g` call in between (seed independent), "
                                "plus seeded random sequences of such calls; probed through declare -p and a child's env after every step, "
                                "brush vs bash vs model, and probe-after == probe-before on brush for every failed call"
                                % (", ".join(F_KINDS), ", ".join(F_PRIORS), ", ".join(F_CONTEXTS)))


# ------------------------------------------------------------------------------------------------
# W: context sweep.  A sample of guarded programs is re-run, as identical script text under brush and
# bash, in every execution context and under every option that must not matter (or with bash under the
# same option as the oracle where it legitimately matters), observed through every observer.

W_NAMES = ["x", "y", "a", "m", "t", "u"]
W_RE = "|".join(W_NAMES)
W_PRELUDE = r"""
Q() { echo '#P'; declare -p x y a m t u 2>/dev/null; echo "#pl|x=${x-U}|y=${y-U}|t=${t-U}|u=${u-U}|a0=${a[0]-U}|an=${#a[@]}|mk=${m[k]-U}|mn=${#m[@]}"; echo '#Z'; }
R() {
echo '#R'
echo '#decl'; declare -p x y a m t u 2>/dev/null
echo "#pl|x=${x-U}|y=${y-U}|t=${t-U}|u=${u-U}|a0=${a[0]-U}|an=${#a[@]}|mk=${m[k]-U}|mn=${#m[@]}"
echo '#all'; declare -p
echo '#set'; set
echo '#exp'; export -p
echo '#ro'; readonly -p
echo '#env'; env
echo '#penv'; printenv x y t u; echo "rc=$?"
echo '#pfx'; echo "${!x@}|${!y@}|${!a@}|${!m@}|${!t@}|${!u@}"
echo '#cg'; compgen -v
echo '#tv'; for _n in x y a m t u; do [[ -v $_n ]] && echo "$_n"; done
echo '#un'; for _n in x y a m t u; do ( unset $_n 2>/dev/null; eval "echo \"$_n=\${$_n-U}\"" ); done
echo '#Z'
}
"""


def w_act(sh, ops, k):
    return {"sh": sh, "ops": ops, "k": k}


W_GLOBALS = [w_act("x=gx", ["as:x:-:sgx:-"], "assign"), w_act("y=gy", ["as:y:-:sgy:-"], "assign"), w_act("t=gt", ["as:t:-:sgt:-"], "assign")]
W_LOCALS = [w_act("local x=lx", ["pu:c", "de:x:-:l:slx:f", "po:c"], "local"), w_act("local y=ly", ["pu:c", "de:y:-:l:sly:f", "po:c"], "local"),
            w_act("local -a a=(la)", ["pu:c", "de:a:a:l:A-=la:fn", "po:c"], "local")]
ABORTING = ("assign", "elem", "for", "arith", "default")   # a failed write of these kinds aborts the enclosing function / compound command in brush


def w_render(steps, funs_out, path=()):
    """lines of a sweep program: cheap probe `Q` after every step, rich probe `R` at the end of every function body"""
    lines = []
    for i, st in enumerate(steps):
        if "call" in st:
            blines = w_render(st["body"], funs_out, path + (i,))
            funs_out.append("%s() {\n%s\necho '#lp'; local -p; echo '#Z'\nR\n}" % (st["call"], "\n".join(blines)))
            pre = st["pre"]
            lines.append(((pre[2] + " ") if pre else "") + st["call"])
        elif "probe_pre" in st:
            lines.append("%s Q" % st["probe_pre"][2])
            continue
        else:
            lines.append(st["sh"])
        lines.append("Q")
    return lines


def prune_ids(steps, bad):
    out = []
    for st in steps:
        if id(st) in bad:
            continue
        if "call" in st:
            body = prune_ids(st["body"], bad) or [{"sh": ":", "ops": ["pu:c", "po:c"], "k": "noop"}]
            st = dict(st, body=body)
        out.append(st)
    return out


def w_failing(progs):
    """ids of the steps whose write the model says fails in one of the sweep's three state configurations
    (top level; inside a function whose locals hide globals; second run in the same shell)"""
    cfgs = []
    for steps in progs:
        cfgs.append(steps)
        cfgs.append(W_GLOBALS + [{"call": "w1", "k": "call", "pre": None, "body": W_LOCALS + steps}])
        cfgs.append(steps + steps)
    flat = [script_of(c, "S")[1] for c in cfgs]
    ms = lib.run_drv_parallel(["C09 " + " ".join(ops) for ops in flat], workers=8)
    bads, dirty = [], []
    for i, steps in enumerate(progs):
        bad, anyfail = set(), False
        for c, m in zip(cfgs[3 * i:3 * i + 3], ms[3 * i:3 * i + 3]):
            for (p, depth, st), d in zip(step_paths(c), m.split(" | ")):
                if d.startswith("S=0"):
                    anyfail = True
                    if st.get("k") in ABORTING:
                        bad.add(id(st))
        bads.append(bad)
        dirty.append(anyfail)
    return bads, dirty


def w_program(rng):
    g = Gen(random.Random(rng.getrandbits(48)), features=("safe",))
    g.locs |= {"x", "y", "a"}                 # the function contexts declare these local
    g.bound |= {"x", "y", "t"}
    # the main steps also run outside any function: no `local` there (`local v=(…)` at top level fails in both shells,
    # but bash still performs the compound assignment)
    return [st for st in g.program(rng.randint(3, 8), depth=1) if st.get("k") != "local"] or [w_act("x=1", ["as:x:-:s1:-"], "assign")]


def heredoc(text):
    """the text as a command substitution of a quoted here-document (no variable holds it: `set` would list its lines)"""
    return "\"$(cat <<'CTXEOF'\n%s\nCTXEOF\n)\"" % text


W_CONTEXTS = ["top", "fn", "fn2", "fn3rec", "subshell", "cmdsub", "pipe-stage", "eval", "brace-redirect", "lastpipe", "for-body", "while-body",
              "trap-exit", "sourced", "twice"]
# options that must not change anything for these programs
W_NEUTRAL = ["set -u", "set -f", "set -E", "set -T", "set +h", "set -C", "shopt -s extglob", "shopt -s nullglob", "shopt -s dotglob",
             "shopt -s nocasematch", "shopt -s globstar", "shopt -s expand_aliases", "shopt -s inherit_errexit", "shopt -s lastpipe"]
# options that legitimately change the result: bash under the same option is the oracle
W_CHANGING = ["set -a", "set -o posix"]


def w_script(defs, main, context, option=None):
    body = "\n".join(main)
    loc = "\n".join(st["sh"] for st in W_LOCALS)
    glob = "\n".join(st["sh"] for st in W_GLOBALS)
    pre = W_PRELUDE + (option + "\n" if option else "") + "\n".join(defs) + "\n"
    if context == "top":
        return pre + body + "\nR\n"
    if context == "fn":
        return pre + glob + "\nw1() {\n%s\n%s\necho '#lp'; local -p; echo '#Z'\nR\n}\nw1\nR\n" % (loc, body)
    if context == "fn2":
        return pre + glob + "\nw1() {\n%s\n%s\nR\n}\nw2() {\nlocal t=l2\nw1\nR\n}\nw2\nR\n" % (loc, body)
    if context == "fn3rec":
        return pre + glob + ("\nw1() {\nif (( $1 > 0 )); then\nlocal u=r$1\nw1 $(( $1 - 1 ))\nR\nreturn\nfi\n%s\n%s\nR\n}\nw3() {\nw1 2\n}\nw3\nR\n" % (loc, body))
    if context == "subshell":
        return pre + glob + "\n(\n%s\nR\n)\nR\n" % body
    if context == "cmdsub":
        return pre + glob + "\n_o=$(\n%s\nR\n)\necho \"$_o\"\nR\n" % body
    if context == "pipe-stage":
        return pre + glob + "\n{\n%s\nR\n} | cat\nR\n" % body
    if context == "eval":
        return pre + "eval " + heredoc(body) + "\nR\n"
    if context == "brace-redirect":
        return pre + "{\n%s\n} 3>&1\nR\n" % body
    if context == "lastpipe":
        return pre + "shopt -s lastpipe\ntrue | {\n%s\n}\nR\n" % body
    if context == "for-body":
        return pre + "for _i in 1; do\n%s\ndone\nR\n" % body
    if context == "while-body":
        return pre + "_k=0\nwhile (( _k < 1 )); do\n_k=1\n%s\ndone\nR\n" % body
    if context == "trap-exit":
        return pre + "trap " + heredoc(body + "\nR") + " EXIT\n"
    if context == "sourced":
        return pre + "_f=$(mktemp)\ncat > \"$_f\" <<'CTXEOF'\n%s\nCTXEOF\n. \"$_f\"\nrm -f \"$_f\"\nR\n" % body
    if context == "twice":
        return pre + body + "\nR\n" + body + "\nR\n"
    raise ValueError(context)


SET_LINE = re.compile(r"^(%s)=(.*)$" % W_RE)
ALL_LINE = re.compile(r"^declare -\S+ (%s)(=|$)" % W_RE)


def norm_set(line):
    m = SET_LINE.match(line)
    if not m:
        return None
    n, v = m.groups()
    if v.startswith("("):
        items = ITEM.findall(v)
        v = "(" + " ".join("[%s]=%s" % kv for kv in sorted(items)) + ")"
    elif len(v) >= 2 and v[0] == "'" and v[-1] == "'":
        v = v[1:-1]
    return n + "=" + v


def w_parse(out):
    """stdout -> list of (kind, canonical text) observation blocks in order"""
    blocks, cur, sec = [], None, None
    for line in out.split("\n"):
        if line in ("#P", "#R", "#lp"):
            cur, sec = {"_": line}, ("decl" if line == "#P" else "lp" if line == "#lp" else None)
            continue
        if cur is None:
            continue
        if line == "#Z":
            blocks.append(cur)
            cur, sec = None, None
            continue
        if line.startswith("#pl|"):
            cur["pl"] = line
            continue
        if line.startswith("#") and line[1:] in ("decl", "all", "set", "exp", "ro", "env", "penv", "pfx", "cg", "tv", "un"):
            sec = line[1:]
            continue
        if sec is None:
            continue
        if sec in ("decl", "lp", "exp", "ro"):
            c = canon_decl(line)
            if c and c[0] in W_NAMES:
                cur.setdefault(sec, []).append("%s=%s" % c)
        elif sec == "all":
            if ALL_LINE.match(line):
                c = canon_decl(line)
                if c:
                    cur.setdefault(sec, []).append("%s=%s" % c)
        elif sec == "set":
            c = norm_set(line)
            if c:
                cur.setdefault(sec, []).append(c)
        elif sec == "env":
            k, sep, v = line.partition("=")
            if sep and k in W_NAMES:
                cur.setdefault(sec, []).append(line)
        elif sec == "cg":
            if line in W_NAMES:
                cur.setdefault(sec, []).append(line)
        else:
            cur.setdefault(sec, []).append(line)
    for b in blocks:
        for k in ("decl", "lp", "exp", "ro", "all", "set", "env", "cg"):
            if k in b:
                b[k] = sorted(b[k])
    return blocks


def w_diff(bb, bo):
    """every differing observation, in order: (block index, observer, brush, bash)"""
    out = []
    for i in range(max(len(bb), len(bo))):
        if i >= len(bb) or i >= len(bo):
            out.append((i, "missing-probe", "%d probes" % len(bb), "%d probes" % len(bo)))
            break
        x, y = bb[i], bo[i]
        for k in sorted(set(x) | set(y)):
            if x.get(k) != y.get(k):
                out.append((i, k, x.get(k), y.get(k)))
    return out


def run_sweep(ctx, only=None):
    rng = random.Random(ctx.rng.getrandbits(48))
    nprog = ctx.size(24, 150)
    progs = [w_program(rng) for _ in range(nprog)]
    for _round in range(6):
        bads, _ = w_failing(progs)
        if not any(bads):
            break
        progs = [prune_ids(p, b) if b else p for p, b in zip(progs, bads)]
    bads, dirty = w_failing(progs)
    keep = [i for i, b in enumerate(bads) if not b]
    progs, dirty = [progs[i] for i in keep], [dirty[i] for i in keep]
    jobs = []
    for steps, isdirty in zip(progs, dirty):
        defs = []
        main = w_render(steps, defs)
        if ctx.quick:
            ctxs = W_CONTEXTS
            opts = rng.sample(W_NEUTRAL, 4) + W_CHANGING
        else:
            ctxs, opts = W_CONTEXTS, W_NEUTRAL + W_CHANGING
        for c in ctxs:
            if c == "twice" and w_has_readonly(steps):
                continue            # the second run would start with readonly variables: refused declarations, where bash keeps some attributes
            jobs.append((steps, c, None, w_script(defs, main, c)))
        for o in opts:
            d2, m2 = defs, main
            if o == "set -a" and w_allexport_quirk(steps):
                continue
            if o == "set -o posix":
                if isdirty or w_has_readonly(steps):
                    continue        # POSIX mode: any refused write (even by a builtin or a prefix assignment) ends bash; error flow, not scoping
                d2 = []
                m2 = w_render(w_drop_special(steps), d2)
            for c in (("top", "fn") if ctx.quick else ("top", "fn", "fn3rec", "eval")):
                jobs.append((steps, c, o, w_script(d2, m2, c, o)))
    if only:
        jobs = [j for j in jobs if only(j)]
    res = lib.pmap(lambda j: lib.run_both(j[3], mode="file", timeout=30), jobs, workers=8)
    nshown = 0
    for (steps, c, o, script), (rb, ro) in zip(jobs, res):
        tag = "sweep_ctx_" + c if o is None else "sweep_opt_" + o.replace(" ", "_")
        ctx.count(("W", script), nontrivial=True, bucket=tag)
        case = {"mode": "W", "context": c, "option": o, "script": script}
        if rb["timeout"] or lib.is_panic(rb):
            ctx.violation("brush timed out / panicked in context %s option %s" % (c, o), dict(case, brush_stderr=rb["err"][-300:]))
            continue
        pb, po = w_parse(rb["out"]), w_parse(ro["out"])
        if o == "set -o posix":
            # in POSIX mode bash lists as `export n=v` / `readonly n=v`; brush keeps the `declare -x` form (a format, not a scope matter)
            for blk in pb + po:
                blk.pop("exp", None)
                blk.pop("ro", None)
                blk.pop("un", None)     # a refused `unset` (readonly) ends brush's subshell in POSIX mode but not bash's: error flow, not scoping
        for i, obs, xb, xo in w_diff(pb, po):
            what = "context sweep [%s%s]: observer `%s` at probe %d differs: brush %s, bash %s" % (c, (", " + o) if o else "", obs, i, xb, xo)
            cl = w_classify(c, o, obs, xb, xo, pb[i] if i < len(pb) else {}, po[i] if i < len(po) else {})
            if cl:
                ctx.known_or_violation(cl, what, case)      # a recorded class explains this observation; the others are still compared
                continue
            if nshown < 10:
                nshown += 1
                ctx.violation(what, dict(case, observer=obs, probe=i, brush=xb, bash=xo, brush_stderr=rb["err"][-300:], bash_stderr=ro["err"][-300:]))
            break
    for clause, script in W_WITNESSES:
        rb, ro = lib.run_both(script, timeout=20)
        ctx.count(("W-witness", script), nontrivial=True, bucket="sweep_witness")
        if (rb["out"], rb["rc"] == 0) != (ro["out"], ro["rc"] == 0):
            ctx.known_or_violation(clause, "witness of %s: brush %r, bash %r" % (clause, rb["out"], ro["out"]),
                                   {"mode": "W", "context": "witness", "option": None, "script": script})
    ctx.sample({"mode": "W", "context": jobs[0][1], "script": jobs[0][3][-600:]} if jobs else {"mode": "W"})
    return len(jobs)


W_CLAUSES = ["export_p_prints_array_as_scalar", "allexport_not_applied_by_builtin_writers", "allexport_readonly_assignment_to_array_not_exported", "posix_special_builtin_assignment_not_persistent",
             "declared_unset_variable_enumerated", "test_v_on_array", "nameref_not_followed", "local_dash_not_implemented",
             "local_I_not_implemented", "attribute_listing_without_p_format"]

# fixed witnesses of the defect classes the sweep met (brush vs bash on identical text)
W_WITNESSES = [
    ("export_p_prints_array_as_scalar", "a=(4 5); export a; export -p | grep ' a='"),
    ("allexport_not_applied_by_builtin_writers",
     "set -a; read r <<< 1; for f in 1; do :; done; printf -v p %s 1; (( q = 3 )); : ${d:=4}; OPTIND=1; getopts o g -o; declare -p r f p q d g"),
    ("allexport_readonly_assignment_to_array_not_exported", "set -a; a=(la); readonly a=cD; declare -p a"),
    ("posix_special_builtin_assignment_not_persistent", "set -o posix; u=1 :; echo \"u=${u-U}\"; v=1 eval :; echo \"v=${v-U}\"; y=1 export y2; echo \"y=${y-U}\""),
    ("declared_unset_variable_enumerated", "f() { local z; echo \"[${!z@}]\"; compgen -v | grep -x z; }; f; export q; echo \"[${!q@}]\"; compgen -e | grep -x q"),
    ("test_v_on_array", "a=(1 2); declare -A m=([k]=v); [[ -v m ]] && echo m; [[ -v a[1] ]] && echo a1; [[ -v m[k] ]] && echo mk; b=([1]=x); [[ -v b ]] && echo b"),
    # namerefs across scopes: not followed at all by brush (only the attribute is stored)
    ("nameref_not_followed", "f() { local -n ref=$1; ref=set-by-f; }; v=old; f v; echo \"$v\"; g() { local v=loc; f v; echo \"g:$v\"; }; g; echo \"top:$v\"; "
                             "x=1; declare -n r=x; echo \"$r\"; r=2; echo \"$x\""),
    ("local_dash_not_implemented", "f() { local -; set -u; }; f; case $- in *u*) echo leaked;; *) echo restored;; esac"),
    ("local_I_not_implemented", "x=1; f() { local -I x; echo \"$x\"; x=2; }; f; echo \"$x\""),
    ("attribute_listing_without_p_format", "q=lq; export q; declare -x | grep -E '(^| )q='; f() { local z=1; local | grep z; }; f"),
]


def w_entries(v):
    return dict(e.split("=", 1) for e in (v or []) if "=" in e) if isinstance(v, list) else {}


def w_classify(context, option, obs, xb, xo, blk_b, blk_o):
    """defect classes met by the sweep, recognised by the observer that shows them and the shape of the difference"""
    eb, eo = w_entries(xb), w_entries(xo)
    diff = [n for n in set(eb) | set(eo) if eb.get(n) != eo.get(n)]
    view = w_entries(blk_o.get("decl") or blk_o.get("all"))          # bash's own view of the variables at this probe
    if obs == "exp":
        # (repaired in /repo, kept as a tripwire) `export -p` printed an exported array as a scalar: the name is in both
        # listings, brush shows a string where bash shows `declare -ax a=(…)`
        if diff and all(n in eo and n in eb and eo[n].split("~")[1][:1] in ("I", "M") and eb[n].split("~")[1][:1] == "s" for n in diff):
            return "export_p_prints_array_as_scalar"
    if option == "set -a" and diff:
        # residue of the allexport repair (1d44d2e): `readonly NAME=value` on an existing ARRAY assigns element 0 without
        # marking the array exported (bash: -arx).  Recognised narrowly: every differing name is, in bash's own view,
        # a readonly array, and the two shells differ on it by the export attribute only (or, in the exported-set
        # observers, brush lacks exactly those names).
        def _ro_array(n):
            v = view.get(n) or eo.get(n) or ""
            return "~" in v and "r" in v.split("~")[0] and v.split("~", 1)[1][:1] in ("I", "M")
        if all(_ro_array(n) for n in diff):
            if obs in ("decl", "all", "lp", "ro"):
                strip1 = lambda v: (v.split("~")[0].replace("x", "") or "-") + "~" + v.split("~", 1)[1] if "~" in v else v
                if all(n in eb and n in eo and strip1(eb[n]) == strip1(eo[n]) and "x" in eo[n].split("~")[0] for n in diff):
                    return "allexport_readonly_assignment_to_array_not_exported"
            if obs in ("exp", "env", "penv") and all(n in eo and n not in eb for n in diff):
                return "allexport_readonly_assignment_to_array_not_exported"
    if option == "set -a":
        # allexport: only the assignment statement and declare/local/export apply it; read / for / printf -v / (( )) /
        # ${v:=} / getopts / mapfile leave the variable unexported
        if obs in ("decl", "all", "lp", "ro"):
            strip = lambda d: {n: (v.split("~")[0].replace("x", "") or "-") + "~" + v.split("~", 1)[1] for n, v in d.items() if "~" in v}
            if strip(eb) == strip(eo):
                return "allexport_not_applied_by_builtin_writers"
        if obs in ("exp", "env", "penv"):
            # …so the exported set (and which binding of a name reaches a child) differs accordingly
            return "allexport_not_applied_by_builtin_writers"
    if obs in ("pfx", "cg"):
        # `${!prefix@}` / `compgen -v` list variables that are declared but unset (bash leaves them out)
        if obs == "cg":
            extra = set(xb or []) - set(xo or [])
            ok = set(xo or []) <= set(xb or [])
        else:
            wb = [w for w in "".join(xb or []).split("|")]
            wo = [w for w in "".join(xo or []).split("|")]
            extra = set(w for w in wb if w) - set(w for w in wo if w)
            ok = all(o in ("", b) for b, o in zip(wb, wo)) and len(wb) == len(wo)
        if ok and extra and all(view.get(n, "").split("~")[-1] in ("U", "Ua", "UA") for n in extra):
            return "declared_unset_variable_enumerated"
    if obs == "tv":
        # `[[ -v name ]]` on an array tests element 0 / key "0" in bash; brush answers for the whole array
        d = set(xb or []) ^ set(xo or [])
        if d and all(view.get(n, "").split("~")[-1][:1] in ("I", "M") or view.get(n, "").split("~")[-1] in ("Ua", "UA") for n in d):
            return "test_v_on_array"
    return None


def w_has_readonly(steps):
    """(or an element unset, whose refusal on a scalar also ends brush — but not bash — in POSIX mode)"""
    return any((st.get("k") in ("readonly", "unset-elem") or " -r" in st.get("sh", "")) or ("call" in st and w_has_readonly(st["body"])) for st in steps)


def w_allexport_quirk(steps):
    """under `set -a` bash marks an array exported for `declare v=(…)` without -a (but not for `declare -a v=(…)` or `v=(…)`), and
    does not for `(( v = n ))` on an array (but does for every other scalar write to it): inconsistencies kept out of the sweep"""
    for st in steps:
        sh = st.get("sh", "")
        if st.get("k") in ("declare", "local", "readonly") and "(" in sh and " -a" not in sh and " -A" not in sh:
            return True
        if st.get("k") == "arith" and Gen.target(st) in ("a", "m"):
            return True
        if "call" in st and w_allexport_quirk(st["body"]):
            return True
    return False


def w_drop_special(steps):
    """without the temporary assignments on the special builtin `:` (POSIX mode: they persist in bash, recorded defect)"""
    out = []
    for st in steps:
        if st.get("k") == "prefix-builtin" and st["sh"].endswith(" :"):
            continue
        if "call" in st:
            st = dict(st, body=w_drop_special(st["body"]) or [{"sh": ":", "ops": ["pu:c", "po:c"], "k": "noop"}])
        out.append(st)
    return out


def replay(ctx, rp):
    lib.cargo_build([BIN])
    case = rp["case"]
    if case.get("mode") == "W":
        rb, ro = lib.run_both(case["script"], mode="file", timeout=30)
        pb, po = w_parse(rb["out"]), w_parse(ro["out"])
        print(case["script"].replace(W_PRELUDE, "(probe functions Q, R)\n"))
        ds = w_diff(pb, po) if case.get("context") != "witness" else ([(0, "output", rb["out"], ro["out"])] if rb["out"] != ro["out"] else [])
        bad = 0
        for i, obs, xb, xo in ds:
            cl = w_classify(case.get("context"), case.get("option"), obs, xb, xo, pb[i] if i < len(pb) else {}, po[i] if i < len(po) else {}) \
                if case.get("context") != "witness" else None
            print("probe %d observer %s: brush %s | bash %s%s" % (i, obs, xb, xo, "  [%s]" % cl if cl else ""))
            bad += 0 if (cl and cl in ctx.known) else 1
        return 1 if bad else 0
    if case.get("mode") == "E":
        line = " ".join(with_probes(case["ops"]))
        _, b, _ = lib.run_vh(BIN, ["E " + line])
        m = lib.run_drv(["C09 " + line])
        print("ops:  ", line)
        print("brush:", b[0] if b else "<none>")
        print("model:", m[0])
        return 1 if (not b or b[0] != m[0]) else 0
    c2 = lib.Ctx(PROP, "quick", 0)
    c2.known = ctx.known
    rc = check_programs(c2, [("replay", case["steps"])], clause_of={id(case["steps"]): case.get("clause")})
    print(case.get("script", ""))
    for v in c2.violations:
        print("FAIL:", v["what"])
        print(json.dumps({k: v["case"][k] for k in v["case"] if k not in ("steps", "script")}, indent=1))
    for k in c2.known_hits:
        print("KNOWN-FINDING clause:", k)
    return 1 if (c2.violations or rc) else 0
