"""C09 — variable scope and attributes: locals, temporary assignments, export, readonly.

Three correspondences per run (brush = /repo's current tree):
  E  op sequences applied to the real `ShellEnvironment` API in-process  vs  the Lean model
  S  generated programs run in an in-process shell with a `__dump` builtin (whole scope stack after
     every step)  vs  the Lean model run on the program's flattened op list
  B  the same programs rendered with `declare -p` / `env` probes, brush binary vs bash (the property
     itself: "as in bash") and vs the model's visible view / child environment
"""
import itertools
import json
import os
import random
import re
import lib
from lib import esc, unesc

BIN = "c09"
PROP = "C09"
NAMES = ["x", "y", "a", "m", "t", "u"]

# ------------------------------------------------------------------------------------------------
# wire helpers (formats of lean/BrushVerif/Drv/C09.lean and harness/src/bin/c09.rs)


def w_lit(l):
    if isinstance(l, str):
        return "s" + esc(l)
    return "A" + ",".join(("-" if k is None else "k" + esc(k)) + "=" + esc(v) for k, v in l)


def sh_lit(l):
    """shell text of a literal (values come from a quoting-free alphabet; empty -> '')"""
    if isinstance(l, str):
        return l if l else "''"
    return "(" + " ".join(("" if k is None else "[%s]=" % k) + (v if v else "''") for k, v in l) + ")"


# ------------------------------------------------------------------------------------------------
# E: API-level op sequences

VALS = ["1", "-3", "ab", "Ab", "", "1+2", "07"]
IDXS = ["0", "1", "3", "-1", "-9", "k", "j"]
KINDS = ["g", "l", "c"]
POLS = ["a", "g", "c", "l"]
VARS = ["-~U", "-~Ua", "-~UA", "-~s1", "x~sab", "r~s1", "xr~s2", "i~s5", "l~sAb", "u~sab", "c~sab", "-~I0=1;2=ab", "r~I0=1;1=2",
        "x~I1=z", "-~Mk=v", "r~Mk=v;0=z", "i~I0=4", "-~I", "-~M", "r~U", "x~U", "xi~U"]
LITS = ["1", "ab", "", "1+2", [(None, "1"), (None, "ab")], [("2", "q"), (None, "r")], [("k", "v")], [(None, "k"), (None, "v"), (None, "j")],
        [], [("k", "v"), ("j", "w")], [(None, "k"), ("j", "w")]]


def rand_api_op(rng, names=("x", "a")):
    n = rng.choice(names)
    r = rng.random()
    if r < 0.17:
        return "pu:" + rng.choice(["l", "l", "c", "g"])
    if r < 0.24:
        return "po:" + rng.choice(["l", "l", "c", "g"])
    if r < 0.34:
        return "un:" + n
    if r < 0.42:
        return "ui:%s:%s" % (n, esc(rng.choice(IDXS)))
    if r < 0.62:
        return "ua:%s:%s:%s:%s:%s" % (n, w_lit(rng.choice(LITS)), rng.choice("nneu"), rng.choice(POLS + ["a", "a"]), rng.choice(KINDS + ["g"]))
    if r < 0.76:
        return "ue:%s:%s:%s:%s:%s" % (n, esc(rng.choice(IDXS)), esc(rng.choice(VALS)), rng.choice(POLS + ["a", "a"]), rng.choice(KINDS + ["g"]))
    return "ad:%s:%s:%s" % (n, rng.choice(VARS), rng.choice(KINDS + ["g", "l"]))


def api_exhaustive():
    """every pair (initial variable, single writer op) in three scope contexts — seed independent"""
    out = []
    ctxs = [[], ["pu:l"], ["pu:l", "pu:c"], ["pu:c"], ["pu:l", "pu:l"]]
    writers = []
    for l in LITS:
        for u in "ne":
            writers.append("ua:x:%s:%s:a:g" % (w_lit(l), u))
    for i in IDXS:
        for v in ["ab", "1+2", ""]:
            writers.append("ue:x:%s:%s:a:g" % (esc(i), esc(v)))
        writers.append("ui:x:%s" % esc(i))
    writers.append("un:x")
    for v in VARS:
        for where in ("g", "l"):
            for ctx in ctxs:
                for wr in writers:
                    out.append(ctx[:1] + ["ad:x:%s:%s" % (v, where)] + ctx[1:] + [wr])
    # policies: a binding in each scope of a five-deep stack, each policy, each creation scope
    stack = ["ad:x:-~sg:g", "pu:l", "ad:x:-~sl1:l", "pu:c", "ad:x:-~sc1:c", "pu:l", "ad:x:-~sl2:l", "pu:c"]
    for drop in range(0, 5):
        st = [t for t in stack if not (t.startswith("ad:") and stack.index(t) // 2 in range(4 - drop + 1, 5))] if drop else stack
        for p in POLS:
            for k in KINDS:
                out.append(st + ["ua:x:sN:n:%s:%s" % (p, k)])
                out.append(st + ["ue:x:1:N:%s:%s" % (p, k)])
        out.append(st + ["un:x", "un:x", "un:x", "un:x"])
        out.append(st + ["po:c", "un:x", "po:l", "un:x", "po:l"])
    return out


def with_probes(ops):
    o = []
    for t in ops:
        o += [t, "D"]
    return o


# ------------------------------------------------------------------------------------------------
# S/B: programs.  A step is a dict {sh: shell text, ops: [model ops], [body: [steps]], ...}.

SVALS = ["1", "2", "-3", "ab", "Ab", "cD", "1+2", "07", ""]
FLAGSETS = [[], [], ["-i"], ["-l"], ["-u"], ["-c"], ["-x"], ["-r"], ["-a"], ["-A"], ["+x"], ["+i"], ["-x", "-i"], ["-r", "-x"],
            ["-l", "-x"], ["+l"], ["-g"], ["-g", "-x"], ["+r"], ["-i", "-r"], ["-a", "-r"], ["-a", "-x"]]


def flags_wire(fl):
    s = ""
    for f in fl:
        c = f[1]
        if c in "aAg":
            s += c
        else:
            s += c + f[0]
    return s or "-"


class Gen:
    def __init__(self, rng, features=()):
        self.rng = rng
        self.nfun = 0
        self.funs = []          # (name, body steps)
        self.feats = set(features)
        self.safe = "safe" in self.feats     # stay inside the guards of the _partial theorems and away from bash-only quirks
        self.ro = set()                      # names that may be readonly somewhere
        self.exp = set()                     # names that may be exported somewhere
        self.bound = set()                   # names certainly assigned at some point
        self.temp = []                       # names of enclosing temporary assignments
        self.locs = set()                    # names that may have a local binding in some frame

    def val(self):
        return self.rng.choice(SVALS)

    def arr(self, keyed=False):
        rng = self.rng
        n = rng.randint(0, 3)
        items = []
        for _ in range(n):
            if keyed or rng.random() < 0.2:
                items.append((rng.choice(["k", "j", "2", "0"]), self.val()))
            else:
                items.append((None, self.val()))
        return items

    def name(self, temp_ok=True):
        r = self.rng.random()
        if r < 0.3:
            return "x"
        if r < 0.45:
            return "y"
        if r < 0.65:
            return "a"
        if r < 0.8:
            return "m"
        return self.rng.choice(["t", "u"]) if temp_ok else "x"

    def idx(self, n):
        if n == "m":
            return self.rng.choice(["k", "j", "0", "k"])
        return self.rng.choice(["0", "1", "3", "-1", "2", "-7"])

    # -- actions ------------------------------------------------------------------------------
    def action(self, depth):
        if not self.safe:
            return self.action0(depth)
        for _ in range(50):
            st = self.action0(depth)
            if self.safe_ok(st, depth):
                self.note(st, depth)
                return st
        st = {"sh": "y=ab", "ops": ["as:y:-:sab:-"], "k": "assign", "n": "y"}
        self.note(st, depth)
        return st

    @staticmethod
    def target(st):
        for t in st["ops"]:
            if not t.startswith(("pu:", "po:", "pt:")):
                return t.split(":")[1]
        return None

    def note(self, st, depth=0):
        n, k, sh = self.target(st), st["k"], st["sh"]
        if k == "readonly" or " -r" in sh:
            self.ro.add(n)
        if k == "export" or " -x" in sh:
            self.exp.add(n)
        if k in ("assign", "for", "read", "printf", "arith", "getopts", "mapfile") or "=" in sh:
            self.bound.add(n)
        if k == "unset":
            self.bound.discard(n)
        if k in ("local", "declare") and depth > 0 and "-g" not in sh.split():
            self.locs.add(n)

    def safe_ok(self, st, depth):
        n, k, sh = self.target(st), st["k"], st["sh"]
        if "1+2" in sh:
            return False                                   # integer attribute: recorded C07 defect
        arrayish = ("[" in sh.split("=")[0]) or "(" in sh or " -a" in sh or " -A" in sh or "read -a" in sh or k == "mapfile" or k in ("elem", "unset-elem")
        if arrayish and n not in ("a", "m"):
            return False                                   # scalars stay scalars
        if n == "m" and k == "mapfile":
            return False
        if "read -a" in sh and n != "a":
            return False                                   # `read -a` into an associative array: bash refuses, brush re-keys
        if "-g" in sh.split() and n in self.locs:
            return False                                   # `declare -g` while a caller has a local of that name: bash re-types the caller's local
        if k == "readonly" and depth > 0 and "(" in sh:
            return False                                   # bash quirk: `readonly v=(…)` on a local array inside a function empties it
        if k == "unset-elem" and n not in self.bound:
            return False                                   # `unset 'v[i]'` on a declared-but-unset v: bash removes v
        if self.safe and re.search(r"\[-\d+\]", sh):
            return False                                   # negative subscripts: bash rejects some that brush accepts
        if n in self.ro and k in ("declare", "local", "readonly", "export") and sh.split()[-1] != n:
            return False                                   # a refused `export x=v` / `declare -i x=v` on a readonly x: bash still applies -x / -i (but not -l)
        if n in self.temp and k not in ("assign", "for", "read", "printf", "arith"):
            return False                                   # attributes of a temporary binding: bash propagates some to the global
        if k in ("local", "declare") and depth > 0 and "-g" not in sh:
            if n in self.temp:
                return False                               # a local over a temporary binding: bash copies the temporary value
            if n in self.exp and n in ("a", "m"):
                return False                               # a local array over an exported scalar: bash's cached child environment may keep the hidden value
        if k in ("declare", "local", "readonly") and (" -a" in sh or " -A" in sh or " +" in sh):
            if "=" not in sh or n in self.bound or n in self.ro:
                return False                               # re-typing an existing variable: long tail of bash quirks
        if k in ("declare", "local", "readonly") and "=" not in sh:
            return False                                   # valueless declarations of possibly unbound names
        if k in ("declare", "local", "readonly") and "=" not in sh and n not in self.bound and depth == 0:
            return True
        if n in ("a", "m") and k in ("assign",) and n not in self.bound and "+=" in sh:
            return True
        return True

    def action0(self, depth):
        rng = self.rng
        inf = "f" if depth > 0 else ""
        r = rng.random()
        n = self.name()
        if r < 0.16:      # plain / append assignment
            ap = rng.random() < 0.3
            if n in ("a", "m") and rng.random() < 0.5:
                l = self.arr(keyed=(n == "m"))
            else:
                l = self.val()
            return {"sh": "%s%s=%s" % (n, "+" if ap else "", sh_lit(l)), "ops": ["as:%s:-:%s:%s" % (n, w_lit(l), "a" if ap else "-")], "k": "assign"}
        if r < 0.26:      # element assignment
            n = rng.choice(["a", "m", "a", "m", "x"])
            i, v, ap = self.idx(n), self.val(), rng.random() < 0.25
            return {"sh": "%s[%s]%s=%s" % (n, i, "+" if ap else "", sh_lit(v)), "ops": ["as:%s:i%s:%s:%s" % (n, esc(i), w_lit(v), "a" if ap else "-")],
                    "k": "elem"}
        if r < 0.31:
            v = self.val() or "e"
            return {"sh": "for %s in %s; do :; done" % (n, v), "ops": ["ua:%s:%s:n:a:g" % (n, w_lit(v))], "k": "for"}
        if r < 0.36:
            if n in ("a", "m") and rng.random() < 0.6:
                vs = [self.val() or "e" for _ in range(rng.randint(1, 2))]
                return {"sh": "read -a %s <<< '%s'" % (n, " ".join(vs)), "ops": ["pu:c", "ua:%s:%s:n:a:g" % (n, w_lit([(None, v) for v in vs])), "po:c"], "k": "read"}
            v = self.val()
            return {"sh": "read %s <<< '%s'" % (n, v), "ops": ["pu:c", "ua:%s:%s:n:a:g" % (n, w_lit(v)), "po:c"], "k": "read"}
        if r < 0.41:
            v = self.val()
            if n in ("a", "m") and rng.random() < 0.6:
                i = self.idx(n)
                return {"sh": "printf -v '%s[%s]' %%s %s" % (n, i, sh_lit(v)), "ops": ["pu:c", "ue:%s:%s:%s:a:g" % (n, esc(i), esc(v)), "po:c"], "k": "printf"}
            return {"sh": "printf -v %s %%s %s" % (n, sh_lit(v)), "ops": ["pu:c", "ua:%s:%s:n:a:g" % (n, w_lit(v)), "po:c"], "k": "printf"}
        if r < 0.46:
            v = str(rng.choice([0, 4, 12, -5]))
            if n in ("a",) and rng.random() < 0.6:
                i = self.idx(n)
                return {"sh": "(( %s[%s] = %s ))" % (n, i, v), "ops": ["ue:%s:%s:%s:a:g" % (n, esc(i), esc(v))], "k": "arith"}
            return {"sh": "(( %s = %s ))" % (n, v), "ops": ["ua:%s:%s:n:a:g" % (n, w_lit(v))], "k": "arith"}
        if r < 0.50:
            v = self.val() or "d"
            return {"sh": ": ${%s:=%s}" % (n, v), "ops": ["df:%s:%s" % (n, esc(v))], "k": "default"}
        if r < 0.53:
            return {"sh": "OPTIND=1; getopts o %s -o" % n, "ops": ["pu:c", "ua:%s:so:n:a:g" % n, "po:c"], "k": "getopts"}
        if r < 0.56:
            n = rng.choice(["a", "a", "x", "y"])
            v = self.val() or "e"
            return {"sh": "mapfile -t %s <<< '%s'" % (n, v), "ops": ["pu:c", "ua:%s:%s:n:a:g" % (n, w_lit([(None, v)])), "po:c"], "k": "mapfile"}
        if r < 0.64:
            if n in ("a", "m") and rng.random() < 0.4:
                i = self.idx(n)
                return {"sh": "unset '%s[%s]'" % (n, i), "ops": ["pu:c", "uj:%s:%s" % (n, esc(i)), "po:c"], "k": "unset-elem"}
            return {"sh": "unset %s" % n, "ops": ["pu:c", "un:%s" % n, "po:c"], "k": "unset"}
        if r < 0.74:      # export forms
            q = rng.random()
            if q < 0.35:
                return {"sh": "export %s" % n, "ops": ["pu:c", "en:%s:e" % n, "po:c"], "k": "export"}
            if q < 0.5:
                return {"sh": "export -n %s" % n, "ops": ["pu:c", "en:%s:u" % n, "po:c"], "k": "export"}
            v, ap = self.val(), rng.random() < 0.2
            return {"sh": "export %s%s=%s" % (n, "+" if ap else "", sh_lit(v)), "ops": ["pu:c", "ea:%s:%s:%s" % (n, w_lit(v), "a" if ap else "-"), "po:c"],
                    "k": "export"}
        # declare / local / readonly
        verb = rng.choice(["declare", "declare", "local", "local", "readonly"] if depth > 0 else ["declare", "declare", "readonly"])
        fl = list(rng.choice(FLAGSETS))
        if verb == "readonly":
            fl = [f for f in fl if f in ("-a", "-A")]
        if verb == "local":
            fl = [f for f in fl if f != "-g"]
        if n == "m" and "-a" in fl:
            fl.remove("-a")
        if n != "m" and "-A" in fl:
            fl.remove("-A")          # `mapfile` refuses associative arrays before it reaches the environment
        q = rng.random()
        lit = None
        if q < 0.55:
            if ("-a" in fl or "-A" in fl or n in ("a", "m")) and rng.random() < 0.6:
                lit = self.arr(keyed=("-A" in fl or n == "m"))
            else:
                lit = self.val()
        arg = n if lit is None else "%s=%s" % (n, sh_lit(lit))
        bits = inf + ("n" if isinstance(lit, list) else "")
        return {"sh": " ".join([verb] + fl + [arg]),
                "ops": ["pu:c", "de:%s:%s:%s:%s:%s" % (n, flags_wire(fl), {"declare": "d", "local": "l", "readonly": "r"}[verb],
                                                      "-" if lit is None else w_lit(lit), bits or "-"), "po:c"],
                "k": verb}

    def prefix(self):
        p = self.prefix0()
        while self.safe and p is not None and "1+2" in p[2]:
            p = self.prefix0()
        return p

    def prefix0(self):
        n = self.rng.choice(["t", "u", "t", "x"])
        if self.safe:
            cand = [c for c in ["t", "u", "x"] if c not in self.temp]
            if not cand:
                return None
            n = self.rng.choice(cand)
        v = self.val()
        return n, v, "%s=%s" % (n, sh_lit(v)), "pt:%s~%s" % (n, w_lit(v))

    def step(self, depth):
        rng = self.rng
        r = rng.random()
        if depth < 3 and r < (0.22 if depth == 0 else 0.16):
            name = "f%d" % self.nfun
            self.nfun += 1
            pre = self.prefix() if rng.random() < 0.4 else None
            if pre:
                self.temp.append(pre[0])
            body = self.steps(depth + 1, rng.randint(1, 4))
            if pre:
                self.temp.pop()
            self.funs.append((name, body))
            return {"call": name, "body": body, "pre": pre, "k": "call" + ("-prefix" if pre else "")}
        if r < 0.30:
            # temporary assignment on a builtin: the builtin's own write happens inside the command scope
            pre = self.prefix()
            if pre is None:
                return self.action(depth)
            q = rng.random()
            if q < 0.3:
                return {"sh": pre[2] + " :", "ops": [pre[3], "po:c"], "k": "prefix-builtin"}
            if q < 0.6:
                n, v = self.name(), self.val()
                return {"sh": "%s read %s <<< '%s'" % (pre[2], n, v), "ops": [pre[3], "ua:%s:%s:n:a:g" % (n, w_lit(v)), "po:c"], "k": "prefix-builtin"}
            if q < 0.8:
                return {"probe_pre": pre, "k": "prefix-probe"}
            n, v = self.name(), self.val()
            return {"sh": "%s printf -v %s %%s %s" % (pre[2], n, sh_lit(v)), "ops": [pre[3], "ua:%s:%s:n:a:g" % (n, w_lit(v)), "po:c"], "k": "prefix-builtin"}
        return self.action(depth)

    def steps(self, depth, n):
        out = []
        for _ in range(n):
            st = self.step(depth)
            if self.safe and st["k"] == "prefix-builtin" and self.target(st):
                own = st["ops"][0][3:].split("~")[0]
                if self.target(st) in self.temp or self.target(st) == own or "1+2" in st["sh"]:
                    # (a builtin writing the name of its own prefix: bash lets `x=1 printf -v x …` reach the global)
                    st = self.action(depth)
                else:
                    self.bound.add(self.target(st))
            out.append(st)
        return out

    def program(self, n):
        return self.steps(0, n)


PROBE_NAMES = " ".join(NAMES)


def render(steps, funs_out, mode, wrap=None, path=()):
    """-> (lines, ops).  mode 'S': probes are `__dump`; mode 'B': `declare -p` + `env` probes.
    `wrap`: set of step paths to run inside a subshell (steps the model says fail inside a function:
    brush and bash differ on what a failed write aborts, which is not this property)."""
    lines, ops = [], []
    for i, st in enumerate(steps):
        p = path + (i,)
        if "call" in st:
            blines, bops = render(st["body"], funs_out, mode, wrap, p)
            funs_out.append("%s() {\n%s\n}" % (st["call"], "\n".join(blines)))
            pre = st["pre"]
            lines.append(((pre[2] + " ") if pre else "") + st["call"])
            ops += ([pre[3]] if pre else ["pu:c"]) + ["pu:l"] + bops + ["po:l", "po:c"]
        elif "probe_pre" in st:
            pre = st["probe_pre"]
            if mode == "S":
                lines.append("%s __dump keep" % pre[2])
            else:
                lines.append("echo '#P'; %s declare -p %s 2>/dev/null; echo '#E'; %s env; echo '#Z'" % (pre[2], PROBE_NAMES, pre[2]))
            ops += [pre[3], "D", "po:c"]
            continue
        else:
            if wrap and p in wrap:
                lines.append("( " + st["sh"] + " ) 2>/dev/null")
            else:
                lines.append(st["sh"])
            ops += st["ops"]
        if mode == "S":
            lines.append("__dump")
        else:
            lines.append("echo '#P'; declare -p %s 2>/dev/null; echo '#E'; env; echo '#Z'" % PROBE_NAMES)
        ops.append("D")
    return lines, ops


def script_of(steps, mode, wrap=None):
    funs = []
    lines, ops = render(steps, funs, mode, wrap)
    return "\n".join(funs + lines) + "\n", ops


def step_paths(steps, path=(), depth=0):
    """[(path, depth, step)] for the leaf steps in op order (matching render)"""
    out = []
    for i, st in enumerate(steps):
        p = path + (i,)
        if "call" in st:
            out += step_paths(st["body"], p, depth + 1)
        out.append((p, depth, st))          # a call has a probe of its own, after its body's probes
    return out


def failing_in_function(steps, model_dumps):
    """paths of leaf steps inside a function after which the model reports `S=0` (the step's writer failed)"""
    leaves = step_paths(steps)
    bad = set()
    # one dump per leaf step, in order (calls add no dump of their own)
    for (p, depth, st), d in zip(leaves, model_dumps):
        if depth > 0 and d.startswith("S=0") and "probe_pre" not in st and "call" not in st:
            bad.add(p)
    return bad


def kinds_of(steps):
    ks = []
    for st in steps:
        ks.append(st["k"])
        if "call" in st:
            ks += kinds_of(st["body"])
    return ks


# ------------------------------------------------------------------------------------------------
# B: parsing `declare -p` / `env` probes into the canonical view

DECL = re.compile(r"^declare -([A-Za-z-]+) ([A-Za-z_][A-Za-z0-9_]*)(?:=(.*))?$")
ITEM = re.compile(r'\[([^\]]*)\]="([^"]*)"')


def canon_decl(line):
    m = DECL.match(line)
    if not m:
        return None
    fl, name, val = m.groups()
    attrs = "".join(c for c in "xri" if c in fl) + "".join(c for c in "luc" if c in fl)
    attrs = attrs or "-"
    if val is None:
        v = "Ua" if "a" in fl else "UA" if "A" in fl else "U"
    elif val.startswith("("):
        items = ITEM.findall(val)
        if "A" in fl:
            items.sort(key=lambda kv: kv[0].encode())
            v = "M" + ";".join("%s=%s" % (esc(k), esc(x)) for k, x in items)
        else:
            items.sort(key=lambda kv: int(kv[0]))
            v = "I" + ";".join("%s=%s" % (k, esc(x)) for k, x in items)
    else:
        s = val[1:-1] if len(val) >= 2 and val[0] == '"' else val
        v = "s" + esc(s)
    return name, attrs + "~" + v


def parse_probes(out):
    """stdout of a B-mode run -> list of (view dict, child env dict)"""
    res = []
    cur, part = None, None
    for line in out.split("\n"):
        if line == "#P":
            cur, part = ({}, {}), "P"
        elif line == "#E" and cur is not None:
            part = "E"
        elif line == "#Z" and cur is not None:
            res.append(cur)
            cur, part = None, None
        elif cur is not None and part == "P":
            c = canon_decl(line)
            if c:
                cur[0][c[0]] = c[1]
        elif cur is not None and part == "E":
            k, sep, v = line.partition("=")
            if sep and k in NAMES:
                cur[1][k] = esc(v)
    return res


def show_map(d):
    return ",".join("%s=%s" % (k, d[k]) for k in sorted(d, key=lambda s: s.encode()))


def model_view(dump):
    """`S=. scopes V[...] X[...]` -> (scopes, view text, child text)"""
    parts = dump.split(" ")
    if len(parts) != 4:
        return dump, "?", "?"
    return parts[1], parts[2][2:-1], parts[3][2:-1]


# classification of brush-vs-bash differences: each clause names one recorded defect class and is
# recognised by the feature that triggers it (computed from the model's own scope dump).

def scopes_of(dump_scopes):
    out = []
    for sc in dump_scopes.split("/"):
        kind, body = sc[0], sc[2:-1]
        d = {}
        if body:
            for ent in body.split(","):
                k, _, v = ent.partition("=")
                d[k] = v
        out.append((kind, d))
    return out


def clauses_for(scopes_text, ops_so_far, script):
    """defect classes whose trigger is present in the model state / op history at this probe"""
    cl = set()
    sc = scopes_of(scopes_text)
    names = set(k for _, d in sc for k in d)
    for n in names:
        binds = [(kind, d[n]) for kind, d in sc if n in d]        # bottom -> top
        attrs = [b[1].split("~")[0] for b in binds]
        kinds = [b[0] for b in binds]
        if len(binds) >= 2:
            # a binding shadows another one of the same name
            for lo in range(len(binds) - 1):
                if "r" in attrs[lo]:
                    cl.add("readonly_shadowed_by_inner_scope")
                if "x" in attrs[lo] and any("x" not in a for a in attrs[lo + 1:]):
                    cl.add("shadowed_export_reaches_child")
                if "x" in attrs[lo] and kinds[lo + 1] == "L":
                    cl.add("local_does_not_inherit_export")
    return cl


# ------------------------------------------------------------------------------------------------

def load_corpus():
    cases = []
    cdir = os.path.join(os.environ.get("VERIF_CORPUS") or os.path.join(lib.ROOT, "corpus"), PROP)
    if os.path.isdir(cdir):
        for f in sorted(os.listdir(cdir)):
            if f.endswith(".json"):
                for rec in json.load(open(os.path.join(cdir, f))):
                    cases.append(rec)
    return cases


def run(ctx):
    ok, out = lib.cargo_build([BIN])
    if not ok:
        lib.log(out[-4000:])
        ctx.broken.append("harness c09 does not build against the current tree: " + lib._first_errors(out))
    ctx.proof_stage()
    if not ok:
        return
    corpus = load_corpus()
    run_api(ctx, corpus)
    run_programs(ctx, corpus)
    ctx.cov["rule"] = ("E: every (initial variable x single writer op) pair in five scope contexts and every lookup policy x creation scope "
                       "on a five-deep scope stack (seed independent), plus seeded random op sequences (length 4-24) over "
                       "push/pop/unset/unset_index/update_or_add/update_or_add_array_element/add on names {x,a}, dumped after every op; "
                       "S/B: seeded random programs of declare/local/export/readonly/unset/assignment/+=/a[i]=/for/read/printf -v/(( ))/"
                       "${v:=}/getopts/mapfile steps with function calls to depth 3 and temporary-assignment prefixes on builtins, functions "
                       "and `env`, probed after every step; non-trivial = at least 3 ops / 3 distinct step kinds")
    ctx.assumptions += ["values are ASCII and integers stay inside i64; `set -a` is off; no namerefs / dynamic variables",
                        "bash 5.2.15 is the oracle for the rendered programs",
                        "what a failed write aborts (rest of the function / line) differs between brush and bash and is not part of C09: "
                        "steps the model says fail inside a function run in a subshell in both shells"]


def run_api(ctx, corpus):
    cases = [("corpus", rec["ops"]) for rec in corpus if rec.get("mode") == "E"]
    for ops in api_exhaustive():
        cases.append(("exh", ops))
    rng = ctx.rng
    for _ in range(ctx.size(6000, 120000)):
        k = rng.randint(4, 24)
        names = rng.choice([("x",), ("x", "a"), ("x", "a")])
        cases.append(("rand", [rand_api_op(rng, names) for _ in range(k)]))
    lines = [" ".join(with_probes(ops)) for _, ops in cases]
    okh, bouts, errs = lib.run_vh_parallel(BIN, ["E " + l for l in lines], workers=8)
    if not okh:
        ctx.broken.append("harness c09 died: " + errs[:500])
    mouts = lib.run_drv_parallel(["C09 " + l for l in lines], workers=8)
    nviol = 0
    for (tag, ops), b, m in zip(cases, bouts, mouts):
        ctx.count(("E",) + tuple(ops), nontrivial=len(ops) >= 3, bucket="api_" + tag)
        ctx.impl_validated += 1
        if b != m and nviol < 10:
            nviol += 1
            bs, ms = b.split(" | "), m.split(" | ")
            at = next((i for i, (x, y) in enumerate(zip(bs, ms)) if x != y), min(len(bs), len(ms)))
            ctx.violation("environment model and brush's ShellEnvironment disagree (correspondence broken)",
                          {"mode": "E", "ops": ops[:at + 1], "brush": bs[at:at + 1], "model": ms[at:at + 1]}, kind="correspondence")
    ctx.sample({"mode": "E", "ops": cases[len(cases) // 2][1], "brush": bouts[len(cases) // 2]})


def run_programs(ctx, corpus):
    rng = ctx.rng
    progs = [("corpus", rec["steps"]) for rec in corpus if rec.get("mode") == "P"]
    clause_of = {id(rec["steps"]): rec["clause"] for rec in corpus if rec.get("mode") == "P" and rec.get("clause")}
    for _ in range(ctx.size(500, 8000)):
        g = Gen(random.Random(rng.getrandbits(48)), features=("safe",))
        progs.append(("rand-guarded", g.program(rng.randint(3, 9))))
    for _ in range(ctx.size(1500, 30000)):
        g = Gen(random.Random(rng.getrandbits(48)))
        progs.append(("rand-full", g.program(rng.randint(3, 9))))
    check_programs(ctx, progs, clause_of=clause_of)


def prune(steps, bad, path=()):
    out = []
    for i, st in enumerate(steps):
        p = path + (i,)
        if p in bad:
            continue
        if "call" in st:
            st = dict(st, body=prune(st["body"], bad, p) or [{"sh": ":", "ops": ["pu:c", "po:c"], "k": "noop"}])
        out.append(st)
    return out


def check_programs(ctx, progs, verbose=False, clause_of=None):
    clause_of = clause_of or {}
    # pass 1: the model alone, to find the steps whose writer fails inside a function.  What such a failure
    # aborts (the rest of the function, in brush; nothing or the whole call, in bash) is not this property,
    # so those steps are removed (a failed write leaves the model state unchanged) — failing writes stay at top level.
    progs = list(progs)

    def model_pass(ps):
        fl = [script_of(steps, "S")[1] for _, steps in ps]
        ms = lib.run_drv_parallel(["C09 " + " ".join(ops) for ops in fl], workers=8)
        bs = []
        for (_, steps), m in zip(ps, ms):
            d = m.split(" | ")
            if len(d) != len(step_paths(steps)):
                bs.append(None)             # a prefix assignment itself failed (the command is skipped): not aligned, dropped
            else:
                bs.append(failing_in_function(steps, d))
        return fl, ms, bs

    for _round in range(6):
        flat, m1, bads = model_pass(progs)
        if not any(bads):
            break
        newp = []
        for (tag, steps), bad in zip(progs, bads):
            if bad:
                ns = prune(steps, bad)
                if id(steps) in clause_of:
                    clause_of[id(ns)] = clause_of[id(steps)]
                steps = ns
            newp.append((tag, steps))
        progs = newp
    flat, m1, bads = model_pass(progs)
    keep = [i for i, b in enumerate(bads) if b is not None and not b]
    ctx.bucket("prog_dropped_failing_write_in_function", len(progs) - len(keep))
    progs = [progs[i] for i in keep]
    flat = [flat[i] for i in keep]
    m1 = [m1[i] for i in keep]
    wraps = [set() for _ in progs]
    s_scripts = [script_of(steps, "S", w)[0] for (_, steps), w in zip(progs, wraps)]
    b_scripts = [script_of(steps, "B", w)[0] for (_, steps), w in zip(progs, wraps)]
    okh, souts, errs = lib.run_vh_parallel(BIN, ["S " + esc(s) for s in s_scripts], workers=8)
    if not okh:
        ctx.broken.append("harness c09 died: " + errs[:500])
    def both(arg):
        (tag, _), s = arg
        if tag == "rand-full":
            return None, None          # full grammar: scope-stack correspondence only (outside the bash-comparable domain)
        return lib.run_both(s, mode="file", timeout=30)
    res = lib.pmap(both, list(zip(progs, b_scripts)), workers=8)
    rc = 0
    nviol = 0
    for (tag, steps), ops, m, w, ss, bs, so, (rb, ro) in zip(progs, flat, m1, wraps, s_scripts, b_scripts, souts, res):
        ks = kinds_of(steps)
        ctx.count(("P", bs), nontrivial=len(set(ks)) >= 3, bucket="prog_" + tag)
        for k in set(ks):
            ctx.bucket("uses_" + k)
        ctx.impl_validated += 1
        md = m.split(" | ")
        sd = so.split(" | ")
        # S: whole scope stack, in-process
        mm = [d[4:] for d in md]
        sm = [d[4:] for d in sd]
        case = {"mode": "P", "steps": steps, "script": bs}
        if mm != sm:
            at = next((i for i, (x, y) in enumerate(zip(mm, sm)) if x != y), min(len(mm), len(sm)))
            if nviol < 10:
                nviol += 1
                ctx.violation("scope-stack model and brush (in-process, __dump) disagree at probe %d (correspondence broken)" % at,
                              dict(case, in_process_script=ss, brush=sm[at:at + 1], model=mm[at:at + 1]), kind="correspondence")
            rc = 1
            continue
        if rb is None:
            continue
        # B: brush binary vs bash vs model view
        if rb["timeout"] or ro["timeout"] or lib.is_panic(rb):
            ctx.violation("brush timed out / panicked on a C09 program", dict(case, brush_stderr=rb["err"][-300:]))
            rc = 1
            continue
        pb, po = parse_probes(rb["out"]), parse_probes(ro["out"])
        clause = clause_of.get(id(steps))
        if len(pb) != len(md):
            ctx.violation("probe count differs (brush %d, model %d): a step aborted the script in brush" % (len(pb), len(md)),
                          dict(case, brush_stderr=rb["err"][-300:]), kind="correspondence")
            rc = 1
            continue
        if len(po) != len(md):
            what = "bash ran %d probes, brush %d: a step that bash refuses (and aborts on) succeeds in brush" % (len(po), len(pb))
            if clause:
                ctx.known_or_violation(clause, what, dict(case))
                rc = rc or (0 if clause in ctx.known else 1)
            else:
                ctx.violation(what, dict(case, bash_stderr=ro["err"][-400:]))
                rc = 1
            continue
        for i, ((vb, eb), (vo, eo), d) in enumerate(zip(pb, po, md)):
            scopes_t, mv, mx = model_view(d)
            tb, to_ = show_map(vb), show_map(vo)
            xb, xo = show_map(eb), show_map(eo)
            if tb != mv or xb != mx:
                if nviol < 10:
                    nviol += 1
                    ctx.violation("model's visible view / child environment and the brush binary disagree at probe %d (correspondence broken)" % i,
                                  dict(case, brush_view=tb, model_view=mv, brush_child=xb, model_child=mx, bash_view=to_, bash_child=xo),
                                  kind="property" if (tb != to_ or xb != xo) else "correspondence")
                rc = 1
                break
            if tb != to_ or xb != xo:
                # the property fails on brush here (brush == model): which recorded defect class explains it?
                cl = clause
                what = "brush and bash differ at probe %d: view %s vs %s; child env %s vs %s" % (i, tb, to_, xb, xo)
                if cl:
                    ctx.known_or_violation(cl, what, dict(case, probe=i, brush_view=tb, bash_view=to_, brush_child=xb, bash_child=xo))
                    if cl not in ctx.known:
                        rc = 1
                else:
                    if nviol < 10:
                        nviol += 1
                        ctx.violation(what + " (no recorded defect class explains it)",
                                      dict(case, probe=i, brush_view=tb, bash_view=to_, brush_child=xb, bash_child=xo, model_scopes=scopes_t))
                    rc = 1
                break
    if progs:
        ctx.sample({"mode": "P", "script": b_scripts[0][:600]})
    return rc


def replay(ctx, rp):
    lib.cargo_build([BIN])
    case = rp["case"]
    if case.get("mode") == "E":
        line = " ".join(with_probes(case["ops"]))
        _, b, _ = lib.run_vh(BIN, ["E " + line])
        m = lib.run_drv(["C09 " + line])
        print("ops:  ", line)
        print("brush:", b[0] if b else "<none>")
        print("model:", m[0])
        return 1 if (not b or b[0] != m[0]) else 0
    c2 = lib.Ctx(PROP, "quick", 0)
    c2.known = ctx.known
    rc = check_programs(c2, [("replay", case["steps"])], clause_of={id(case["steps"]): case.get("clause")})
    print(case.get("script", ""))
    for v in c2.violations:
        print("FAIL:", v["what"])
        print(json.dumps({k: v["case"][k] for k in v["case"] if k not in ("steps", "script")}, indent=1))
    for k in c2.known_hits:
        print("KNOWN-FINDING clause:", k)
    return 1 if (c2.violations or rc) else 0
