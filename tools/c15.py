"""C15 — a program means the same however it is delivered and whatever was parsed before."""
import itertools
import json
import os
import re
import subprocess
import tempfile
import lib
from lib import esc, unesc

BIN = "c15"

# ------------------------------------------------------------------------------------------------
# translators


def _read(rel):
    p = os.path.join(lib.REPO, rel)
    if not os.path.exists(p):
        raise ValueError("%s not found" % rel)
    return open(p, encoding="utf-8").read()


def _strip_comments(src):
    return re.sub(r"//[^\n]*", "", src)


def _balanced(src, i, open_ch="(", close_ch=")"):
    """src[i] == open_ch; returns index just after the matching close (string literals respected)."""
    depth, n = 0, len(src)
    while i < n:
        c = src[i]
        if c == '"':
            # raw strings r#"…"#
            j = i - 1
            hashes = 0
            while j >= 0 and src[j] == "#":
                hashes += 1
                j -= 1
            if j >= 0 and src[j] == "r" and (hashes or True) and src[j + 1:i] == "#" * hashes and (j == 0 or not src[j - 1].isalnum()):
                end = src.find('"' + "#" * hashes, i + 1)
                if end < 0:
                    raise ValueError("unterminated raw string")
                i = end + 1 + hashes
                continue
            i += 1
            while i < n and src[i] != '"':
                i += 2 if src[i] == "\\" else 1
            i += 1
            continue
        if c == open_ch:
            depth += 1
        elif c == close_ch:
            depth -= 1
            if depth == 0:
                return i + 1
        i += 1
    raise ValueError("unbalanced %s" % open_ch)


def _split_top(s, sep=","):
    out, depth, cur = [], 0, ""
    for ch in s:
        if ch in "([{<":
            depth += 1
        elif ch in ")]}>":
            depth -= 1
        if ch == sep and depth == 0:
            out.append(cur)
            cur = ""
        else:
            cur += ch
    if cur.strip():
        out.append(cur)
    return [x.strip() for x in out]


_STRUCT_FILES = {"ParserOptions": "brush-parser/src/parser/mod.rs", "TokenizerOptions": "brush-parser/src/tokenizer.rs"}


def _struct_fields(name):
    """Fields of an options struct, provided equality and hashing are derived (so they cover every field)."""
    src = _strip_comments(_read(_STRUCT_FILES[name]))
    m = re.search(r"((?:#\[[^\]]*\]\s*)+)pub struct %s\s*\{" % name, src)
    if not m:
        raise ValueError("struct %s not found in %s" % (name, _STRUCT_FILES[name]))
    attrs = m.group(1)
    derives = set(x.strip() for d in re.findall(r"derive\(([^)]*)\)", attrs) for x in d.split(","))
    for need in ("Hash", "PartialEq", "Eq"):
        if need not in derives:
            raise ValueError("%s no longer derives %s: a hand-written impl may ignore a field, cache keys built "
                             "from it cannot be shown to cover it" % (name, need))
    end = _balanced(src, m.end() - 1, "{", "}")
    body = src[m.end():end - 1]
    fields = re.findall(r"pub\s+(\w+)\s*:", body)
    if not fields:
        raise ValueError("struct %s has no parsable fields" % name)
    return fields


def _type_struct(ty):
    ty = ty.replace("&", "").strip()
    base = ty.split("::")[-1]
    return base if base in _STRUCT_FILES else None


def _expand(name, ty):
    st = _type_struct(ty)
    if st:
        return ["%s.%s" % (name, f) for f in _struct_fields(st)]
    return [name]


def _component_path(expr):
    e = expr.strip()
    e = re.sub(r"^[&*]+", "", e)
    while True:
        e2 = re.sub(r"\.(to_owned|clone|to_string|into|as_str|to_vec)\(\)$", "", e)
        if e2 == e:
            break
        e = e2
    if not re.fullmatch(r"\w+(\.\w+)*", e):
        raise ValueError("cache key component %r is not a plain parameter path" % expr)
    return e


def _cached_fns(rel):
    """All `#[cached(...)] fn` items of one file -> list of dicts."""
    src = _strip_comments(_read(rel))
    out = []
    for m in re.finditer(r"#\[\s*(?:cached::macros::)?cached\s*(\()?", src):
        attr_args = ""
        j = m.end()
        if m.group(1):
            j = _balanced(src, m.end() - 1)
            attr_args = src[m.end():j - 1]
        fm = re.compile(r"\s*\]\s*(?:#\[[^\]]*\]\s*)*(?:pub(?:\([^)]*\))?\s+)?(?:async\s+)?fn\s+(\w+)\s*(?:<[^>]*>)?\s*\(").match(src, j)
        if not fm:
            raise ValueError("%s: #[cached] attribute not followed by a fn item" % rel)
        pe = _balanced(src, fm.end() - 1)
        params = []
        for p in _split_top(src[fm.end():pe - 1]):
            if not p:
                continue
            pm = re.fullmatch(r"(?:mut\s+)?(\w+)\s*:\s*(.+)", p, re.S)
            if not pm:
                raise ValueError("%s: cannot parse parameter %r of %s" % (rel, p, fm.group(1)))
            params.append((pm.group(1), pm.group(2).strip()))
        cap = re.search(r"\b(?:max_size|size)\s*=\s*(\d+)", attr_args)
        conv = re.search(r'convert\s*=\s*r(#*)"(.*?)"\1', attr_args, re.S)
        if conv:
            body = conv.group(2).strip()
            if body.startswith("{") and body.endswith("}"):
                body = body[1:-1].strip()
            if body.startswith("(") and _balanced(body, 0) == len(body):
                comps = _split_top(body[1:-1])
            else:
                comps = [body]
            keyc = [_component_path(c) for c in comps if c]
        else:
            keyc = [n for n, _ in params]          # the macro's default key: every argument
        types = dict(params)
        pnames, knames = [], []
        for n, t in params:
            pnames += _expand(n, t)
        for k in keyc:
            root = k.split(".")[0]
            if root not in types:
                raise ValueError("%s: key of %s mentions %r which is not a parameter" % (rel, fm.group(1), k))
            knames += _expand(k, types[k]) if k in types else [k]
        name_m = re.search(r'\bname\s*=\s*"(\w+)"', attr_args)
        out.append({"fn": fm.group(1), "file": rel, "cap": int(cap.group(1)) if cap else 0,
                    "params": pnames, "key": knames, "cache": name_m.group(1) if name_m else fm.group(1).upper()})
    return out


def _regex_cache():
    rel = "brush-core/src/regex.rs"
    src = _strip_comments(_read(rel))
    fm = re.search(r"fn\s+compile_regex\s*\(", src)
    if not fm:
        raise ValueError("regex.rs: compile_regex not found")
    pe = _balanced(src, fm.end() - 1)
    params = [re.fullmatch(r"(?:mut\s+)?(\w+)\s*:\s*(.+)", p, re.S).group(1) for p in _split_top(src[fm.end():pe - 1]) if p]
    bs = src.index("{", pe)
    body = src[bs:_balanced(src, bs, "{", "}")]
    km = re.search(r"let\s+key\s*=\s*\(([^;]*)\)\s*;", body)
    if not km or "cache_get(&key)" not in body or not re.search(r"cache_set\(\s*key\s*,", body):
        raise ValueError("regex.rs: compile_regex no longer builds `key` and uses it for cache_get/cache_set")
    keyc = [_component_path(c) for c in _split_top(km.group(1))]
    cap = re.search(r"REGEX_CACHE[^;]*?max_size\((\d+)\)", src, re.S)
    if not cap:
        raise ValueError("regex.rs: REGEX_CACHE capacity not found")
    return {"fn": "compile_regex", "file": rel, "cap": int(cap.group(1)), "params": params, "key": keyc, "cache": "REGEX_CACHE"}


ANCHOR_CACHES = {("brush-parser/src/tokenizer.rs", "uncached_tokenize_string"), ("brush-parser/src/word.rs", "cacheable_parse"),
                 ("brush-parser/src/arithmetic.rs", "cacheable_parse"), ("brush-core/src/shell/parsing.rs", "parse_string_impl")}


def extract_caches():
    found = []
    for crate in ("brush-parser", "brush-core", "brush-builtins", "brush-interactive", "brush-shell"):
        root = os.path.join(lib.REPO, crate, "src")
        for dp, dn, fn in os.walk(root):
            for f in sorted(fn):
                if f.endswith(".rs"):
                    rel = os.path.relpath(os.path.join(dp, f), lib.REPO)
                    txt = open(os.path.join(dp, f), encoding="utf-8").read()
                    if re.search(r"#\[\s*(?:cached::macros::)?cached\b", txt):
                        found += _cached_fns(rel)
    have = {(c["file"], c["fn"]) for c in found}
    missing = ANCHOR_CACHES - have
    if missing:
        raise ValueError("memoised functions named by the property not found: %s" % sorted(missing))
    found.append(_regex_cache())
    found.sort(key=lambda c: (c["file"], c["fn"]))
    return found


def _lean_strs(xs):
    return "[" + ", ".join('"%s"' % x for x in xs) + "]"


def _write_gen(name, text):
    d = os.path.join(lib.LEAN, "BrushVerif", "Gen")
    os.makedirs(d, exist_ok=True)
    p = os.path.join(d, name)
    if not os.path.exists(p) or open(p, encoding="utf-8").read() != text:
        open(p, "w", encoding="utf-8").write(text)


def gen_caches():
    cs = extract_caches()
    out = ["/-! GENERATED by tools/c15.py from the `#[cached]` functions of brush-parser / brush-core and the regex LRU",
           "(brush-core/src/regex.rs) — do not edit.  Struct-typed parameters and key components are expanded into",
           "their fields (the structs derive Hash/Eq/PartialEq, so a key holding the struct holds every field). -/",
           "namespace BrushVerif.Gen.Caches", "",
           "structure CacheDef where", "  fn : String", "  file : String", "  cap : Nat",
           "  params : List String", "  key : List String", "  deriving Repr, DecidableEq", "",
           "def caches : List CacheDef := ["]
    rows = []
    for c in cs:
        rows.append('  { fn := "%s", file := "%s", cap := %d,\n    params := %s,\n    key := %s }'
                    % (c["fn"], c["file"], c["cap"], _lean_strs(c["params"]), _lean_strs(c["key"])))
    out.append(",\n".join(rows))
    out += ["]", "", "end BrushVerif.Gen.Caches", ""]
    _write_gen("Caches.lean", "\n".join(out))


def extract_incomplete():
    rel = "brush-parser/src/tokenizer.rs"
    src = _strip_comments(_read(rel))
    m = re.search(r"pub enum TokenizerError\s*\{", src)
    if not m:
        raise ValueError("tokenizer.rs: enum TokenizerError not found")
    body = src[m.end():_balanced(src, m.end() - 1, "{", "}") - 1]
    variants = []
    for ln in body.split("\n"):
        ln = ln.strip()
        if not ln or ln.startswith("#["):      # attributes (error texts hold brackets and commas)
            continue
        vm = re.fullmatch(r"([A-Z]\w*)\s*(\(.*\)|\{.*\})?\s*,?", ln)
        if not vm:
            raise ValueError("tokenizer.rs: TokenizerError variant line %r not understood" % ln)
        variants.append(vm.group(1))
    if len(variants) < 5:
        raise ValueError("tokenizer.rs: TokenizerError variants not found")
    fm = re.search(r"fn\s+is_incomplete\s*\(\s*&self\s*\)\s*->\s*bool\s*\{", src)
    if not fm:
        raise ValueError("tokenizer.rs: TokenizerError::is_incomplete not found")
    fb = src[fm.end():_balanced(src, fm.end() - 1, "{", "}") - 1]
    mm = re.fullmatch(r"\s*matches!\(\s*self\s*,(.*)\)\s*", fb, re.S)
    if not mm:
        raise ValueError("tokenizer.rs: is_incomplete is no longer a single matches!(self, …) table")
    inc = []
    for alt in mm.group(1).split("|"):
        am = re.fullmatch(r"\s*Self::(\w+)\s*(\(\s*\.\.\s*\)|\{\s*\.\.\s*\})?\s*", alt)
        if not am:
            raise ValueError("tokenizer.rs: is_incomplete alternative %r not understood" % alt.strip())
        if am.group(1) not in variants:
            raise ValueError("tokenizer.rs: is_incomplete names unknown variant %s" % am.group(1))
        inc.append(am.group(1))
    return variants, inc


def gen_incomplete():
    variants, inc = extract_incomplete()
    out = ["/-! GENERATED by tools/c15.py from `TokenizerError` and `TokenizerError::is_incomplete`",
           "(brush-parser/src/tokenizer.rs) — do not edit. -/",
           "namespace BrushVerif.Gen.IncompleteErrors", "",
           "inductive TokErr where"]
    out += ["  | %s" % v for v in variants]
    out += ["  deriving DecidableEq, Repr", "",
            "def TokErr.all : List TokErr := [%s]" % ", ".join("." + v for v in variants), "",
            "def TokErr.name : TokErr → String"]
    out += ['  | .%s => "%s"' % (v, v) for v in variants]
    out += ["", "/-- `TokenizerError::is_incomplete` -/", "def isIncomplete : TokErr → Bool"]
    out += ["  | .%s => %s" % (v, "true" if v in inc else "false") for v in variants]
    out += ["", "end BrushVerif.Gen.IncompleteErrors", ""]
    _write_gen("IncompleteErrors.lean", "\n".join(out))


# ------------------------------------------------------------------------------------------------
# program grammar

PROBE_DELIVERY = "P() { echo p; }"
PROBE_BASH_POS = "P() { grep pos: /proc/self/fdinfo/0; }"
PROBE_CHUNK_VAR = "P() { printf 'pos:\\t%s\\n' $__POS; }"
KNOWN_CASE = "case_pattern_in_cmdsubst"


UCHARS = [("2byte", "\u00e9"), ("3byte", "\u65e5"), ("4byte", "\U0001F600"), ("combining", "e\u0301")]


def needs_extglob(feats):
    return any(f.startswith("u_xg_") for f in feats)


class G:
    """Generates top-level items (lists of lines). Tags are unique per program so outputs identify their source."""

    def __init__(self):
        self.n = 0
        self.feats = set()

    def tag(self):
        self.n += 1
        return self.n

    # leaves: (name, lines)
    def leaves(self):
        t = self.tag()
        return [
            ("echo", ["echo t%d $LINENO; P" % t]),
            ("status", ["(exit %d); echo s%d $? $LINENO" % (3 + t % 5, t)]),
            ("bang", ["! true; echo b%d $?" % t, "P"]),
            ("semi", ["echo a%d; echo b%d $LINENO; P; echo c%d" % (t, t, t)]),
            ("cont_word", ["echo c%d a\\" % t, "b; P"]),
            ("cont_op", ["true && \\", "echo co%d; P" % t]),
            ("cont_multi", ["echo cm%d \\" % t, "x \\", "y", "P"]),
            ("cont_lineno", ["echo ml%d \\" % t, "$LINENO", "echo after%d $LINENO" % t]),
            ("cont_in_dq", ['echo "dq%d a\\' % t, 'b"; P']),
            ("bs_bs", ["echo bb%d a\\\\" % t, "P"]),
            ("bs_in_sq", ["echo 'sq%d a\\'" % t, "P"]),
            ("heredoc", ["cat <<E", "h%d $LINENO body" % t, "E", "P"]),
            ("heredoc_dash", ["cat <<-E", "\th%d tabbed" % t, "\tE", "P"]),
            ("heredoc_quoted", ["cat <<'E'", "h%d $LINENO $( ' \" `" % t, "fi", ")", "E", "P"]),
            ("heredoc_pipe", ["cat <<E | tr a-z A-Z; P", "h%d" % t, "E"]),
            ("heredoc_two", ["cat <<A; cat <<B", "a%d" % t, "A", "b%d" % t, "B", "P"]),
            ("heredoc_syntaxy", ["cat <<E", "fi", "done", "}", "E", "echo hs%d $LINENO" % t]),
            ("heredoc_bs", ["cat <<E", "h%d a\\" % t, "b", "E", "P"]),
            ("heredoc_empty", ["cat <<E", "E", "echo he%d $LINENO; P" % t]),
            ("comment", ["# comment %d" % t, "echo k%d $LINENO; P" % t]),
            ("comment_quote", ["# it's a \"comment %d" % t, "echo k%d $LINENO; P" % t]),
            ("comment_bs", ["# ends with backslash %d \\" % t, "echo k%d $LINENO; P" % t]),
            ("comment_trailing", ["echo k%d $LINENO # trailing 'quote \\" % t, "P"]),
            ("hash_word", ["echo k%d a#b \\" % t, "c; P"]),
            ("blank", ["", "   ", "\t", "echo bl%d $LINENO; P" % t]),
            ("sq_multi", ["echo 'q%d" % t, "second'; P"]),
            ("dq_multi", ['echo "d%d' % t, 'second"; P']),
            ("dq_multi_lineno", ['echo ml%d "a\\' % t, '$LINENO"; P']),
            ("sq_multi_lineno", ["echo ml%d $(echo 'a" % t, "b') $LINENO; P"]),
            ("cmdsub_multi", ["x=$(echo a%d" % t, "echo b)", "echo $x; P"]),
            ("cmdsub_if", ["x=$(if true; then", "echo ci%d" % t, "fi)", "echo $x; P"]),
            ("arith_multi", ["echo ar%d $(( 1 +" % t, "2 )); P"]),
            ("backquote_multi", ["echo `echo bq%d" % t, "`; P"]),
            ("and_eol", ["true &&", "echo and%d; P" % t]),
            ("or_eol", ["false ||", "echo or%d; P" % t]),
            ("and_eol_comment", ["true &&", "# between", "", "echo andc%d; P" % t]),
            ("pipe_eol", ["echo pipe%d |" % t, "cat", "P"]),
            ("dbracket", ["[[ a == a &&", "b == b ]] && echo db%d $LINENO; P" % t]),
            ("arith_cmd", ["(( 1 + 1 )) && echo ac%d $LINENO; P" % t]),
            ("array_multi", ["arr=(1 2", "3)", "echo ${arr[2]} ay%d $LINENO; P" % t]),
            ("brace_param", ["v%d=abc" % t, "echo ${v%d:-" % t, "}x; P"]),
            ("assign_only", ["v%d=1" % t, "echo $v%d $LINENO; P" % (t, )]),
            ("dollar_sq", ["echo $'ds%d\\n" % t, "x'; P"]),
            ("cont_blank", ["echo cb%d joined \\" % t, "", "echo after%d $LINENO; P" % t]),
            ("cont_blank2", ["echo cb%d joined \\" % t, "", "", "", "echo after%d $LINENO; P" % t]),
            ("cont_cont_blank", ["echo cx%d \\" % t, "\\", "", "echo after%d $LINENO; P" % t]),
            ("cont_ws_blank", ["echo cw%d \\" % t, "   ", "echo after%d $LINENO; P" % t]),
            ("cont_comment", ["echo cc%d \\" % t, "# comment after a continuation", "echo after%d $LINENO; P" % t]),
            ("cont_comment_blank", ["echo cc%d \\" % t, "", "# comment", "", "echo after%d $LINENO; P" % t]),
            ("cont_op_blank", ["true && \\", "", "echo cob%d $LINENO; P" % t, "echo after%d $LINENO" % t]),
            ("blank_inside_if", ["if true", "", "then", "", "echo bi%d $LINENO; P" % t, "", "fi", "echo after%d $LINENO" % t]),
            ("blank_inside_group", ["{", "", "echo bg%d $LINENO" % t, "", "", "}", "echo after%d $LINENO; P" % t]),
            ("blank_in_heredoc", ["cat <<E", "", "hb%d" % t, "", "E", "echo after%d $LINENO; P" % t]),
            ("blank_in_sq", ["echo 'bq%d" % t, "", "' | tr -d '\\n'; echo", "echo after%d $LINENO; P" % t]),
            ("case_in_cmdsub_paren", ["v=$(case x in (x) echo cp%d;; esac); echo $v; P" % t]),
        ]

    # two recorded brush defects that show as a delivery difference (file/-c/source/eval vs standard input)
    def known_leaves(self):
        t = self.tag()
        return [
            ("paren_paren_heredoc", ["((echo np%d) | cat)" % t, "cat <<E", "body%d" % t, "E", "P"]),
            ("stray_break", ["break 2>/dev/null", "echo sb%d $LINENO; P" % t]),
        ]

    def uleaves(self, full):
        """Every construct that is incomplete at the tokenizer level at a line break, with a non-ASCII character
        (2, 3, 4 bytes, and a combining mark) before the open token on its line, inside it, after it, on an earlier
        line, or in a comment line before it; grammar-level constructs as controls. `full`: every character in every
        position; otherwise a Latin square (every construct sees every character, every position every character)."""
        t = self.tag()
        out = []
        cons = [
            ("sq", lambda a, i, z: ["echo %s 'u%d%s" % (a, t, i), "second'%s; P" % z]),
            ("dq", lambda a, i, z: ['echo %s "u%d%s' % (a, t, i), 'second"%s; P' % z]),
            ("dsq", lambda a, i, z: ["echo %s $'u%d%s\\n" % (a, t, i), "x'%s; P" % z]),
            ("heredoc", lambda a, i, z: ["echo h%d %s; cat <<E; echo %s" % (t, a, z), "u%d%s body $LINENO" % (t, i), "E", "P"]),
            ("heredoc_q", lambda a, i, z: ["echo h%d %s; cat <<'E'; echo %s" % (t, a, z), "u%d%s body $x" % (t, i), "E", "P"]),
            ("heredoc_dash", lambda a, i, z: ["echo h%d %s; cat <<-E; echo %s" % (t, a, z), "\tu%d%s body" % (t, i), "\tE", "P"]),
            ("cmdsub", lambda a, i, z: ["echo %s $(echo u%d%s" % (a, t, i), "echo b)%s; P" % z]),
            ("dq_cmdsub", lambda a, i, z: ['echo %s "$(echo u%d%s' % (a, t, i), 'echo b)"%s; P' % z]),
            ("backquote", lambda a, i, z: ["echo %s `echo u%d%s" % (a, t, i), "`%s; P" % z]),
            ("arith", lambda a, i, z: ["echo u%d %s $(( 1 +" % (t, a), "2 ))%s; P" % z]),
            ("brace", lambda a, i, z: ["echo %s ${nov%d:-d%s" % (a, t, i), "}x%s; P" % z]),
            ("xg_case", lambda a, i, z: ["echo %s; case ab in @(ab|%sq" % (a, i), "zz)) echo u%d %s;; esac; P" % (t, z)]),
            ("xg_echo", lambda a, i, z: ["echo u%d %s +(a|%s" % (t, a, i), "b)%s | tr '\\n' ' '; echo; P" % z]),
        ]
        positions = ["pretok", "in", "post", "preline", "comment"]
        for ci, (cn, f) in enumerate(cons):
            for pi, pos in enumerate(positions):
                if cn == "arith" and pos == "in":
                    continue
                for ki, (kn, ch) in enumerate(UCHARS):
                    if not full and ki != (ci + pi) % len(UCHARS):
                        continue
                    if pos == "pretok":
                        ls = f(ch, "", "")
                    elif pos == "in":
                        ls = f("", ch, "")
                    elif pos == "post":
                        ls = f("", "", ch)
                    elif pos == "preline":
                        ls = ["echo pl%d %s" % (t, ch)] + f("", "", "")
                    else:
                        ls = ["# comm%snt %d" % (ch, t)] + f("", "", "")
                    out.append(("u_%s_%s_%s" % (cn, pos, kn), ls))
        ctl = [
            ("g_if", lambda ch: ["if echo u%d %s" % (t, ch), "then", "echo %s; P" % ch, "fi"]),
            ("g_and", lambda ch: ["echo u%d %s &&" % (t, ch), "echo %s; P" % ch]),
            ("g_pipe", lambda ch: ["echo u%d %s |" % (t, ch), "cat; P"]),
            ("g_for", lambda ch: ["for ux%d in %s b" % (t, ch), "do", "echo $ux%d" % t, "done; P"]),
            ("g_cont", lambda ch: ["echo u%d %s \\" % (t, ch), "%s; P" % ch]),
            ("g_one", lambda ch: ["echo u%d '%s' \"%s\" $(echo %s) %s; P" % (t, ch, ch, ch, ch)]),
        ]
        for ci, (cn, f) in enumerate(ctl):
            for ki, (kn, ch) in enumerate(UCHARS):
                if full or ki == ci % len(UCHARS):
                    out.append(("u_%s_%s" % (cn, kn), f(ch)))
        return out

    def defect_leaf(self):
        t = self.tag()
        self.feats.add(KNOWN_CASE)
        return ["v=$(case x in x) echo cd%d;; esac); echo $v $LINENO; P" % t]

    def wrappers(self):
        t = self.tag()
        return [
            ("top", lambda b: b),
            ("if", lambda b: ["if true", "then"] + b + ["else", "echo never%d" % t, "fi"]),
            ("if1", lambda b: ["if false; then", "echo never%d" % t, "elif true; then"] + b + ["fi; P"]),
            ("for", lambda b: ["for x%d in a b" % t, "do"] + b + ["echo $x%d" % t, "done"]),
            ("while", lambda b: ["w%d=0" % t, "while [ $w%d -lt 2 ]" % t, "do", "w%d=$((w%d+1))" % (t, t)] + b + ["done", "P"]),
            ("until", lambda b: ["until true; do", "echo never", "done", "until false", "do"] + b + ["break", "done"]),
            ("case", lambda b: ["case w%d in" % t, "  v*) echo never;;", "  w%d)" % t] + b + ["  ;;", "  *) echo never;;", "esac"]),
            ("case_paren", lambda b: ["case w in", "(w)"] + b + [";&", "(z) echo fall%d" % t, "esac; P"]),
            ("func", lambda b: ["f%d() {" % t] + b + ["}", "f%d" % t, "P"]),
            ("func_nl", lambda b: ["f%d()" % t, "{"] + b + ["}", "f%d; f%d" % (t, t)]),
            ("group", lambda b: ["{"] + b + ["}"]),
            ("subshell", lambda b: ["("] + b + [")", "P"]),
            ("group_redirect", lambda b: ["{"] + b + ["} 2>&1", "P"]),
            ("pipe_group", lambda b: ["{"] + b + ["} |", "cat"]),
            ("and_group", lambda b: ["true && {"] + b + ["}"]),
        ]


def indent(lines, rng):
    """Indent body lines that are not here-document material."""
    return lines


def finish(lines, probe, last=None, feats=()):
    body = [probe] + (["shopt -s extglob"] if needs_extglob(feats) else []) + lines + ([last] if last else [])
    return "\n".join(body) + "\n"


def gen_random(rng, depth=0):
    g = G()
    def item(d):
        r = rng.random()
        if d < 2 and r < 0.45:
            ws = g.wrappers()
            name, w = rng.choice(ws)
            body = []
            for _ in range(rng.randint(1, 2)):
                body += item(d + 1)
            return w(body)
        if r > 0.985:
            return g.defect_leaf()
        r2 = rng.random()
        ls = g.uleaves(False) if r2 < 0.25 else g.known_leaves() if r2 < 0.28 else g.leaves()
        nm, body = rng.choice(ls)
        g.feats.add(nm)
        return list(body)
    lines = []
    for _ in range(rng.randint(1, 4)):
        lines += item(0)
        lines.append("echo L%d $LINENO" % g.tag())          # a probe between constructs
    last = rng.choice([None, None, "(exit 7)", "false", "exit 5", "true", "echo ce \\", "echo end $LINENO"])
    return lines, last, g.feats


def gen_exhaustive(level, full=False):
    """Every leaf (ASCII, recorded-defect, non-ASCII) under every wrapper (level 1); every ASCII leaf followed by
    every ASCII leaf at top level (level 2)."""
    out = []
    g = G()
    nl, nw = len(g.leaves()), len(g.wrappers())
    nu, nk = len(g.uleaves(full)), len(g.known_leaves())
    for wi in range(nw):
        for li in range(nl):
            g = G()
            w = g.wrappers()[wi]
            l = g.leaves()[li]
            out.append((("exh1", w[0], l[0]), w[1](list(l[1])), "echo end $? $LINENO", {l[0]}))
        for li in range(nk):
            g = G()
            w = g.wrappers()[wi]
            l = g.known_leaves()[li]
            out.append((("exh1", w[0], l[0]), w[1](list(l[1])), "echo end $? $LINENO", {l[0]}))
        for li in range(nu):
            g = G()
            w = g.wrappers()[wi]
            l = g.uleaves(full)[li]
            out.append((("exhu", w[0], l[0]), w[1](list(l[1])), "echo end $? $LINENO", {l[0]}))
    g = G()
    out.append((("exh1", "top", "defect"), g.defect_leaf(), None, set(g.feats)))
    g = G()
    out.append((("exh1", "if", "defect"), ["if true; then"] + g.defect_leaf() + ["fi"], None, set(g.feats)))
    for li in range(nl):          # a continuation as the very last line of the input
        g = G()
        l = g.leaves()[li]
        out.append((("exh1", "cont_eof", l[0]), list(l[1]) + ["echo mid $LINENO"], "echo ce \\", {l[0]}))
    if level >= 2:
        for a in range(nl):
            for b in range(nl):
                g = G()
                la = g.leaves()[a]
                lb = g.leaves()[b]
                out.append((("exh2", la[0], lb[0]), list(la[1]) + ["echo mid $LINENO"] + list(lb[1]), "echo end $? $LINENO", {la[0], lb[0]}))
    return out


# ------------------------------------------------------------------------------------------------
# running

MODES = ["file", "c", "source", "eval", "stdin"]


def run_mode(which, mode, text, d, timeout=20):
    e = dict(lib.BASE_ENV)
    base = [lib.BRUSH, "--norc", "--noprofile", "--no-config"] if which == "brush" else [lib.BASH, "--norc", "--noprofile"]
    path = os.path.join(d, "prog.sh")
    inp = None
    if mode == "file":
        cmd = base + [path]
    elif mode == "c":
        cmd = base + ["-c", text]
    elif mode == "source":
        cmd = base + ["-c", ". ./prog.sh"]
    elif mode == "eval":
        cmd = base + ["-c", 'eval "$1"', "x", text]
    elif mode == "stdin":
        cmd = base
        inp = text.encode()
    elif mode == "stdin_file":
        cmd = base
    else:
        raise ValueError(mode)
    for attempt in range(3):       # a run that times out is repeated (loaded machine); three timeouts are reported
        r = _run_once(cmd, d, e, inp, mode, path, timeout)
        if r["rc"] != -9:
            break
    return r


def _run_once(cmd, d, e, inp, mode, path, timeout):
    try:
        if mode == "stdin_file":
            with open(path, "rb") as f:
                p = lib.sp_run(cmd, cwd=d, env=e, stdin=f, stdout=subprocess.PIPE, stderr=subprocess.PIPE, timeout=timeout)
        else:
            p = lib.sp_run(cmd, cwd=d, env=e, input=inp, stdin=None if inp is not None else subprocess.DEVNULL,
                               stdout=subprocess.PIPE, stderr=subprocess.PIPE, timeout=timeout)
        return {"rc": p.returncode, "out": p.stdout.decode("utf-8", "replace"), "err": p.stderr.decode("utf-8", "replace")}
    except subprocess.TimeoutExpired:
        return {"rc": -9, "out": "<timeout>", "err": ""}


def deliver(text):
    """All delivery modes under brush and bash -> {shell: {mode: (rc, out)}}."""
    d = tempfile.mkdtemp(prefix="c15-")
    try:
        with open(os.path.join(d, "prog.sh"), "w") as f:
            f.write(text)
        res = {}
        for which in ("brush", "bash"):
            res[which] = {}
            for m in MODES:
                r = run_mode(which, m, text, d)
                res[which][m] = (r["rc"], r["out"], r["err"][-300:])
        return res
    finally:
        import shutil
        shutil.rmtree(d, ignore_errors=True)


def mask_ml(out):
    return "\n".join(l for l in out.split("\n") if not l.startswith("ml"))


def split_lines(t):
    out, cur = [], ""
    for ch in t:
        cur += ch
        if ch == "\n":
            out.append(cur)
            cur = ""
    if cur:
        out.append(cur)
    return out


def esc_list(xs):
    return esc("\n".join(esc(x) for x in xs))


def unesc_list(s):
    u = unesc(s)
    return [unesc(x) for x in u.split("\n")] if u else []


def bash_positions(text_pos, chunks):
    """Oracle for `as soon as, and only when`: (a) bash reading text_pos on standard input, the probe printing how
    far bash had read when each probe ran; (b) bash running brush's chunks as a file, each preceded by an assignment
    of the offset at which the chunk ends. Equal outputs <=> brush hands over at exactly bash's boundaries."""
    d = tempfile.mkdtemp(prefix="c15p-")
    try:
        with open(os.path.join(d, "prog.sh"), "w") as f:
            f.write(text_pos)
        a = run_mode("bash", "stdin_file", text_pos, d)
        pos, parts = 0, []
        for i, c in enumerate(chunks):
            pos += len(c.encode())
            if i == 0 and c == PROBE_BASH_POS + "\n":
                parts.append("__POS=%d; " % pos + PROBE_CHUNK_VAR + "; __k() { return $1; }\n")
            else:
                parts.append("__s=$?; __POS=%d; __k $__s; " % pos + c)       # $? as the chunk would see it
        script = "".join(parts)
        with open(os.path.join(d, "prog.sh"), "w") as f:
            f.write(script)
        b = run_mode("bash", "file", script, d)
        return (a["rc"], a["out"]), (b["rc"], b["out"]), script
    finally:
        import shutil
        shutil.rmtree(d, ignore_errors=True)


# ------------------------------------------------------------------------------------------------
# checks

MAXV = 8


class Lim:
    """Collects the failures of one family; `flush` reports the smallest ones (a minimal failing input first)."""

    def __init__(self, ctx):
        self.ctx, self.items = ctx, []

    def violation(self, what, case, kind="property"):
        self.items.append((0 if kind == "property" else 1, len(str(case.get("text") or case.get("script") or case.get("history") or "")), len(self.items), what, case, kind))

    def flush(self):
        for _, _, _, what, case, kind in sorted(self.items)[:MAXV]:
            self.ctx.violation(what, case, kind=kind)


def acc_all(texts):
    """harness (real read_line loop) and model on every text -> (chunks, model_chunks, tables)"""
    okh, outs, errs = lib.run_vh_parallel(BIN, ["acc " + esc(t) for t in texts])
    reqs, bch, tables = [], [], []
    for t, o in zip(texts, outs):
        parts = o.split(" ")
        if len(parts) != 2 or not parts[0].startswith("CH=") or not parts[1].startswith("T="):
            bch.append(None)
            tables.append(o)
            reqs.append("C15 acc % -")
            continue
        bch.append(unesc_list(parts[0][3:]))
        tables.append(parts[1][2:])
        reqs.append("C15 acc %s %s" % (esc_list(split_lines(t)), parts[1][2:]))
    mouts = lib.run_drv_parallel(reqs)
    mch, moff = [], []
    for m in mouts:
        f = m.split(" ")
        if len(f) == 2 and f[0].startswith("CH=") and f[1].startswith("OFF="):
            mch.append(unesc_list(f[0][3:]))
            moff.append([int(x) for x in f[1][4:].split(",")] if f[1][4:] else [])
        else:
            mch.append(None)
            moff.append(None)
    acc_all.offsets = moff
    return okh, errs, bch, mch, tables


def check_chunks(ctx, progs):
    """`as soon as, and only when`: brush's real reader vs the model vs bash's own reading positions."""
    lim = Lim(ctx)
    texts = [finish(p["lines"], PROBE_BASH_POS, p["last"], p["feats"]) for p in progs]
    okh, errs, bch, mch, tables = acc_all(texts)
    if not okh:
        ctx.broken.append("harness c15 died: " + errs[:400])
    todo = [(t, c) for t, c in zip(texts, bch) if c is not None]
    res = iter(lib.pmap(lambda tc: bash_positions(*tc), todo))
    for p, t, b, m, tb in zip(progs, texts, bch, mch, tables):
        ctx.count(("chunks", t), nontrivial=len(p["lines"]) >= 2, bucket="chunks_" + p["key"][0])
        ctx.impl_validated += 1
        case = {"family": "chunks", "text": t, "feats": sorted(p["feats"])}
        if b is None:
            lim.violation("harness could not run the reader on this input: " + str(tb)[:200], case, kind="correspondence")
            continue
        a_out, b_out, script = next(res)
        why = None
        if "".join(b) != t:
            why = "the programs executed from standard input do not concatenate to the input (text lost, duplicated or reordered)"
        elif a_out != b_out:
            why = "a command from standard input is not handed over exactly when bash has read a complete command"
        case.update({"brush_chunks": b, "model_chunks": m, "bash_stdin": a_out, "bash_on_brush_chunks": b_out})
        if b != m:
            lim.violation("reader model and brush disagree (correspondence broken)" + (": " + why if why else ""), case,
                          kind="property" if why else "correspondence")
        elif why:
            if KNOWN_CASE in p["feats"]:
                ctx.known_or_violation(KNOWN_CASE, why, case)
            elif "paren_paren_heredoc" in p["feats"]:
                # inside one chunk the here-document after `((cmd) | cmd)` is not recognised: its body is read as commands
                ctx.known_or_violation("double_paren_subshell_breaks_later_heredoc", why, case)
            else:
                lim.violation(why, case)
    lim.flush()
    ctx.sample({"family": "chunks", "text": texts[len(texts) // 2], "brush_chunks": bch[len(texts) // 2]})


# recorded defects that show as a delivery difference: (leaf that triggers it, clause, text)
KNOWN_DELIVERY = [
    ("paren_paren_heredoc", "double_paren_subshell_breaks_later_heredoc",
     "after `((cmd) | cmd)` (a subshell written with two adjacent parentheses) a later here-document in the same parsed text "
     "is not recognised; on standard input the next command is tokenised afresh and works"),
    ("stray_break", "stray_break_aborts_rest_of_text",
     "a `break` outside any loop abandons the rest of the text parsed with it (file, -c, source, eval), while on standard "
     "input only its own command; bash reports `only meaningful in a loop` and carries on"),
]


PROBE_LINE = re.compile(r"echo (L\d+|mid|end)( \$\?)? \$LINENO")


def lineno_tie(ctx, lim, p, t, r, bc, mc, mo):
    """The model's line accounting (chunks -> offsets, `$LINENO` = offset + line in chunk) against what brush prints
    for the stand-alone probe lines when the program comes from standard input."""
    if KNOWN_CASE in p["feats"] or bc is None or mc is None or mo is None or bc != mc:
        return
    out = r["brush"]["stdin"][1].split("\n")
    for k, c in enumerate(mc):
        m = PROBE_LINE.fullmatch(c.rstrip("\n"))
        if not m or c.count("\n") != 1:
            continue
        tag = m.group(1)
        got = [l.split(" ")[-1] for l in out if l.split(" ")[0] == tag]
        if len(got) != 1:
            continue                      # the probe did not run exactly once (exit, loop): nothing to compare
        ctx.bucket("lineno_probe_vs_model")
        if got[0] != str(mo[k] + 1):
            same = r["brush"]["stdin"][:2] == r["brush"]["file"][:2]
            lim.violation("line accounting model and brush disagree: `$LINENO` of `%s` on standard input is %s, the model "
                          "(offset %d + 1) says %d%s" % (c.strip(), got[0], mo[k], mo[k] + 1,
                                                       "" if same else "; the same program as a script file prints a different number"),
                          {"family": "deliver", "text": t, "feats": sorted(p["feats"]), "brush_chunks": bc, "model_offsets": mo,
                           "brush": {m_: r["brush"][m_][:2] for m_ in MODES}, "bash": {m_: r["bash"][m_][:2] for m_ in MODES}},
                          kind="correspondence" if same else "property")
            return


def check_delivery(ctx, progs):
    lim = Lim(ctx)
    texts = [finish(p["lines"], PROBE_DELIVERY, p["last"], p["feats"]) for p in progs]
    res = lib.pmap(deliver, texts)
    okh, errs, bch, mch, tables = acc_all(texts)
    moff = acc_all.offsets
    for p, t, r, bc, mc, mo in zip(progs, texts, res, bch, mch, moff):
        lineno_tie(ctx, lim, p, t, r, bc, mc, mo)
        ctx.count(("deliver", t), nontrivial=len(p["lines"]) >= 2, bucket="deliver_" + p["key"][0])
        for f in p["feats"]:
            ctx.bucket("feat_" + f)
        ctx.impl_validated += 1
        br, ba = r["brush"], r["bash"]
        bm = {m: br[m][:2] for m in MODES}
        am = {m: ba[m][:2] for m in MODES}
        case = {"family": "deliver", "text": t, "feats": sorted(p["feats"]), "brush": bm, "bash": am, "brush_stderr": br["file"][2]}
        if len(set(am.values())) > 1:
            ctx.oracle_mismatch += 1        # the generator left the domain where bash itself is delivery independent
            ctx.bucket("deliver_bash_modes_differ")
            ctx.notes.append("bash modes differ: " + repr(t)[:300]) if len(ctx.notes) < 5 else None
            continue
        ref = am["file"]
        if KNOWN_CASE in p["feats"]:
            if any(bm[m] != ref for m in MODES):
                ctx.known_or_violation(KNOWN_CASE, "brush rejects a program bash accepts (unparenthesised case pattern inside $( ))", case)
            continue
        hit = False
        for feat, clause, what in KNOWN_DELIVERY:
            if feat in p["feats"] and any(bm[m] != ref for m in MODES):
                ctx.known_or_violation(clause, what, case)
                hit = True
                break
        if hit:
            continue
        if len(set(bm.values())) > 1:
            lim.violation("the same program gives different output/status/$LINENO depending on how it is delivered", case)
            continue
        b0 = (bm["file"][0], mask_ml(bm["file"][1]))
        a0 = (ref[0], mask_ml(ref[1]))
        if b0 != a0:
            if True:
                lim.violation("every delivery mode agrees in brush but differs from bash", case)
    lim.flush()
    ctx.sample({"family": "deliver", "text": texts[len(texts) // 2], "brush": res[len(texts) // 2]["brush"]["stdin"][:2]})


# ------------------------------------------------------------------------------------------------
# here-document tag spellings x bodies x dependent continuations (family "hdtag")

HD_TAGS = [("plain", "EOF"), ("dash", "-EOF"), ("sq", "'EOF'"), ("dq", '"EOF"'), ("bs", "\\EOF"), ("dash_bs", "-\\EOF"),
           ("part_dq", 'E"O"F'), ("part_sq", "E'OF'"), ("mid_bs", "E\\OF"), ("empty_dq", '""EOF')]
HD_BODIES = ["plain", "dollar", "tagblank", "empty"]
HD_CONTS = ["read", "after", "synerr", "two"]


def _hd(tag, body, n):
    """One here-document with end line EOF: the tag as spelled, the body kind; tab-led for `<<-`."""
    pre = "\t" if tag.startswith("-") else ""
    b = {"plain": ["hd%d body text" % n], "dollar": ["hd%d $x `echo q` \\$x" % n], "tagblank": ["EOF ", " EOF", "hd%d EOF" % n],
         "empty": []}[body]
    return ["cat <<%s" % tag] + [pre + l for l in b] + [pre + "EOF"]


def gen_hdtag():
    out = []
    for tn, tag in HD_TAGS:
        for body in HD_BODIES:
            for cont in HD_CONTS:
                ls = ["x=val"] + _hd(tag, body, 1)
                if cont == "read":
                    ls += ["read v", "echo data line", 'echo "got:$v"']
                elif cont == "after":
                    ls += ["echo after $LINENO"]
                elif cont == "synerr":
                    ls += ["echo after", ")", "echo unreachable"]
                else:
                    ls += _hd(tag, body, 2) + ["read v", "echo data line", 'echo "got:$v"', "echo after $LINENO"]
                out.append({"key": ("hdtag", tn, body, cont), "text": "\n".join(ls) + "\n", "cont": cont})
    return out


def hdtag_bad(cont, r):
    """Reasons the case fails: brush vs bash mode by mode (after a syntax error only standard input is compared:
    brush parses a file / -c text as a whole, bash command by command; that difference is not this family's subject)."""
    modes = ["stdin"] if cont == "synerr" else MODES
    bad = []
    for m in modes:
        b, a = r["brush"][m][:2], r["bash"][m][:2]
        if cont == "synerr":
            b, a = (b[0] != 0, b[1]), (a[0] != 0, a[1])
        if b != a:
            bad.append(m)
    return bad


def check_hdtag(ctx):
    lim = Lim(ctx)
    progs = gen_hdtag()
    res = lib.pmap(deliver, [p["text"] for p in progs])
    for p, r in zip(progs, res):
        ctx.count(("hdtag", p["text"]), nontrivial=True, bucket="hdtag_" + p["cont"])
        ctx.bucket("hdtag_tag_" + p["key"][1])
        ctx.impl_validated += 1
        bad = hdtag_bad(p["cont"], r)
        if bad:
            lim.violation("a here-document whose tag is spelled `<<%s` followed by a dependent line behaves differently from bash "
                          "when delivered as: %s" % (dict(HD_TAGS)[p["key"][1]], ", ".join(bad)),
                          {"family": "hdtag", "text": p["text"], "cont": p["cont"], "feats": list(p["key"][1:]),
                           "brush": {m: r["brush"][m][:2] for m in MODES}, "bash": {m: r["bash"][m][:2] for m in MODES}})
    lim.flush()


BAD_LINES = ["echo ;;", "fi", "done", ")", "echo a )", "esac", "then", ";", "&& echo x", "| cat", "do", "echo a ;; echo b", "}", "elif x", "(( 1 + ", "echo )("]


HEADS = [[], ["echo before $LINENO"], ["if true", "then", "echo y", "fi"], ["cat <<E", "x", "E"], ["echo a\\", "b"]]
OPENS = [[], ["if true; then"], ["{"], ["for i in 1; do"], ["f() {"], ["("], ["while true; do"], ["case a in a)"], ["true &&"], ["echo a |"]]


def gen_invalid(rng, nrandom):
    """A valid head, an opened construct (or none), one line that cannot be completed, and a line after it."""
    out = []
    for h in HEADS:
        for o in OPENS:
            for b in BAD_LINES:
                out.append((("inv", len(h), o[0] if o else "", b), h + o + [b] + ["echo after"], len(h) + len(o) + 2))
    for i in range(nrandom):
        lines, last, feats = gen_random(rng)
        if KNOWN_CASE in feats or "paren_paren_heredoc" in feats:
            continue
        o = rng.choice(OPENS) + rng.choice(OPENS)
        b = rng.choice(BAD_LINES)
        if needs_extglob(feats):
            lines = ["shopt -s extglob"] + lines
        out.append((("invr", i), lines + o + [b, "echo after"], len(lines) + len(o) + 2))
    return out


def check_invalid(ctx, cases):
    """A bad token stays bad whatever follows: brush must hand the text over at the line where bash reports the
    syntax error (not wait for more), and not earlier."""
    lim = Lim(ctx)
    texts = ["\n".join([PROBE_DELIVERY] + ls) + "\n" for _, ls, _ in cases]
    okh, errs, bch, mch, tables = acc_all(texts)
    if not okh:
        ctx.broken.append("harness c15 died: " + errs[:400])

    def bash_err_line(t):
        r = run_mode("bash", "stdin", t, "/tmp")
        m = re.search(r"line (\d+): syntax error(?!: unexpected end of file)", r["err"])   # end of file = incomplete, not invalid
        return (int(m.group(1)) if m else None, r["rc"], r["out"])
    bres = lib.pmap(bash_err_line, texts)
    for (key, ls, badline), t, b, m, (eline, brc, bout) in zip(cases, texts, bch, mch, bres):
        ctx.count(("invalid", t), bucket="invalid")
        ctx.impl_validated += 1
        case = {"family": "invalid", "text": t, "brush_chunks": b, "model_chunks": m, "bash_error_line": eline}
        if b is None:
            lim.violation("harness could not run the reader on this input", case, kind="correspondence")
            continue
        if b != m:
            lim.violation("reader model and brush disagree (correspondence broken)", case, kind="correspondence")
            continue
        if eline is None:
            ctx.oracle_mismatch += 1       # bash accepts it: not an invalid program
            continue
        # the chunk that contains line `eline` must end with that line
        n, end = 0, None
        for c in b:
            n += c.count("\n")
            if n >= eline:
                end = n
                break
        ctx.bucket("invalid_" + ("at_error_line" if end == eline else "other"))
        if end != eline:
            lim.violation("text that can no longer become a command is not handed over at the line where bash reports "
                          "the syntax error (brush's chunk ends at line %s, bash stops at line %s)" % (end, eline), case)
    lim.flush()


# ------------------------------------------------------------------------------------------------
# caches: one long-lived process vs fresh processes

CACHE_TEXTS = [
    "echo a", "echo @(a|b)", "case ab in @(ab|cd)) echo m;; esac", "echo !(x)", "[[ a == +(a) ]]", "echo a |& cat",
    "cat <<< x", "echo a &> f", "[[ a == a ]]", "(( 1 + 1 ))", "a=(1 2)", "case a in a) echo 1;& b) echo 2;; esac",
    "time -p echo", "function f { echo; }", "${!x}", "${a[@]}", "${a[1]}", "~/x", "a:~/x", "@(a|b)", "$((1+2))", "${x^^}",
    "1+2", "x=3", "a[1]++", "1 +", "", "if true; then echo; fi", "echo 'unterminated", "echo <(cat)", "x=~/a:~/b",
    "coproc cat", "for ((i=0;i<2;i++)); do echo; done", "echo ?(a)", "*(a|b)c", "echo $'a'", "select x in a; do echo; done",
]
# which component of a harness `parse` response is served by which memoised function
CACHE_COMPONENTS = {"P": ("parse_string_impl", "brush-core/src/shell/parsing.rs"), "W": ("cacheable_parse", "brush-parser/src/word.rs"),
                    "T": ("uncached_tokenize_string", "brush-parser/src/tokenizer.rs"), "A": ("cacheable_parse", "brush-parser/src/arithmetic.rs")}
SLOT_SUFFIX = {"enable_extended_globbing": 1, "posix_mode": 2, "sh_mode": 3}


def _resp(o):
    d = {}
    for f in o.split(" "):
        if "=" in f:
            k, v = f.split("=", 1)
            d[k] = v
    return d


def check_cache_inproc(ctx, nhist, hlen):
    lim = Lim(ctx)
    rng = ctx.rng
    optsets = ["%d%d%d" % (e, p, s) for e in (0, 1) for p in (0, 1) for s in (0, 1)]
    calls = [(ti, o) for ti in range(len(CACHE_TEXTS)) for o in optsets]
    # fresh: a new process per call
    fres = lib.pmap(lambda c: lib.run_vh(BIN, ["parse %s %s" % (c[1], esc(CACHE_TEXTS[c[0]]))]), calls)
    fresh = {}
    for c, (rc, out, err) in zip(calls, fres):
        if rc != 0 or len(out) != 1 or not out[0].startswith("P="):
            ctx.broken.append("harness c15 (fresh parse) failed: %s %s" % (out[:1], err[:200]))
            return
        fresh[c] = _resp(out[0])
    # value ids per component
    ids = {}
    def vid(comp, v):
        # `Err(_)` results are not stored by the caches: ids >= 1000000 (the driver's `keep`)
        is_err = "err:" in str(v)
        return ids.setdefault((comp, v), len(ids) + 1 + (1000000 if is_err else 0))
    # histories: the exhaustive part parses every text under every ordered pair of option sets; then seeded random
    hists = []
    for ti in range(len(CACHE_TEXTS)):
        h = []
        for o1 in optsets:
            for o2 in optsets:
                if o1 != o2:
                    h += [(ti, o1), (ti, o2)]
        hists.append(h)
    for _ in range(nhist):
        k = rng.randint(4, hlen)
        pool = [rng.choice(calls) for _ in range(rng.randint(2, 12))]
        extra = rng.random() < 0.3
        hists.append([rng.choice(calls) if extra and rng.random() < 0.7 else rng.choice(pool) for _ in range(k)])
    # each history in its own long-lived process
    def run_hist(h):
        return lib.run_vh(BIN, ["parse %s %s" % (o, esc(CACHE_TEXTS[ti])) for ti, o in h])
    lres = lib.pmap(run_hist, hists)
    caches = {(c["fn"], c["file"]): c for c in extract_caches()}
    mreqs, mmeta = [], []
    for h, (rc, out, err) in zip(hists, lres):
        ctx.count(("cache", tuple(h)), nontrivial=len(set(h)) >= 2, bucket="cache_inproc")
        ctx.impl_validated += 1
        if rc != 0 or len(out) != len(h):
            lim.violation("harness died on a parse history: " + err[:200], {"family": "cache", "history": h}, kind="correspondence")
            continue
        resp = [_resp(o) for o in out]
        bad = None
        for i, (c, r) in enumerate(zip(h, resp)):
            for comp in ("P", "U", "W", "T", "A"):
                if r.get(comp) != fresh[c][comp]:
                    bad = (i, comp, "result differs from a fresh process")
                    break
            if not bad and r.get("P") != r.get("U"):
                bad = (i, "P", "cached Shell::parse_string differs from uncached Shell::parse in the same process")
            if bad:
                break
        case = {"family": "cache", "history": [[CACHE_TEXTS[ti], o] for ti, o in h[:(bad[0] + 1) if bad else len(h)]]}
        if bad:
            i, comp, why = bad
            case.update({"step": i, "component": comp, "long_lived": resp[i].get(comp), "fresh": fresh[h[i]][comp]})
            lim.violation("parsing depends on what was parsed earlier in the process: %s (%s)" % (why, comp), case)
        # model: the cache definitions regenerated from the source, fed with the fresh values
        for comp, (fn, file) in CACHE_COMPONENTS.items():
            c = caches.get((fn, file))
            if not c:
                continue
            slots = []
            for pi, pn in enumerate(c["params"]):
                if "." not in pn:
                    slots.append("%s:0" % pn)
                elif pn.split(".")[-1] in SLOT_SUFFIX:
                    slots.append("%s:%d" % (pn, SLOT_SUFFIX[pn.split(".")[-1]]))
            uniq = sorted(set(h))
            F = ";".join("%d.%s=%d" % (ti, ".".join(o), vid(comp, fresh[(ti, o)][comp])) for ti, o in uniq)
            H = ",".join("%d.%s" % (ti, ".".join(o)) for ti, o in h)
            mreqs.append("C15 memo %s %s %d %s %s %s" % (fn, file, c["cap"], ",".join(slots), F, H))
            mmeta.append((h, comp, [vid(comp, r.get(comp)) for r in resp]))
    mouts = lib.run_drv_parallel(mreqs)
    for (h, comp, bids), m in zip(mmeta, mouts):
        if m != ",".join(str(x) for x in bids):
            lim.violation("cache model (key from the current source) and brush disagree on a parse history",
                          {"family": "cache", "component": comp, "history": [[CACHE_TEXTS[ti], o] for ti, o in h],
                           "model": m, "brush": bids}, kind="correspondence")
    lim.flush()
    ctx.sample({"family": "cache", "history": [[CACHE_TEXTS[ti], o] for ti, o in hists[-1][:6]]})


EXEC_TEXTS = [
    "case ab in @(ab|cd)) echo m;; *) echo n;; esac", "[[ ABC =~ abc ]] && echo y || echo n", "[[ ABC == abc ]] && echo y || echo n",
    "x=ab; echo ${x/@(a)/z}", "echo $((1+2))", "[[ ab == +(a|b) ]] && echo y || echo n", "x=AbC; [[ $x =~ ^a.c$ ]]; echo $?",
    "case ABC in abc) echo y;; *) echo n;; esac", "x=abab; echo ${x//+(ab)/z}", "x='a b'; [[ $x =~ 'A B' ]] && echo y || echo n",
]
EXEC_OPTS = [(e, n, p) for e in (0, 1) for n in (0, 1) for p in (0, 1)]


def _opt_cmds(o):
    e, n, p = o
    return "shopt -%s extglob; shopt -%s nocasematch; set %so posix" % ("s" if e else "u", "s" if n else "u", "-" if p else "+")


def _step(o, ti):
    # in a subshell: brush treats a syntax error in eval'd text as fatal to the shell that runs it
    return "%s\n( eval %s )\necho \"rc=$?\"\n" % (_opt_cmds(o), "'" + EXEC_TEXTS[ti].replace("'", "'\\''") + "'")


def check_cache_exec(ctx, nhist):
    """Whole shell: the same texts evaluated under alternating extglob / nocasematch / posix in one process vs fresh ones."""
    lim = Lim(ctx)
    rng = ctx.rng
    calls = [(o, ti) for o in EXEC_OPTS for ti in range(len(EXEC_TEXTS))]

    def run_script(s):
        r = run_mode("brush", "c", s, "/tmp")
        return (r["rc"], r["out"])
    fres = lib.pmap(lambda c: run_script(_step(*c)), calls)
    fresh = dict(zip(calls, fres))
    hists = []
    for ti in range(len(EXEC_TEXTS)):
        hists.append([(o, ti) for o in EXEC_OPTS] + [(o, ti) for o in reversed(EXEC_OPTS)])
    for _ in range(nhist):
        pool = [rng.choice(calls) for _ in range(rng.randint(2, 6))]
        hists.append([rng.choice(pool) for _ in range(rng.randint(3, 12))])
    lres = lib.pmap(lambda h: run_script("".join(_step(*c) for c in h)), hists)
    for h, (rc, out) in zip(hists, lres):
        ctx.count(("cache_exec", tuple(h)), bucket="cache_exec")
        ctx.impl_validated += 1
        want = "".join(fresh[c][1] for c in h)
        if out != want:
            # first differing step
            lim.violation("evaluating a text depends on what was evaluated earlier under other options (one process vs fresh processes)",
                          {"family": "cache_exec", "script": "".join(_step(*c) for c in h), "long_lived": out, "fresh_concatenated": want})
    lim.flush()
    ctx.sample({"family": "cache_exec", "script": "".join(_step(*c) for c in hists[-1][:3])})


# ------------------------------------------------------------------------------------------------

def load_corpus():
    out = []
    cdir = os.path.join(lib.ROOT, "corpus", "C15")
    if os.path.isdir(cdir):
        for f in sorted(os.listdir(cdir)):
            if f.endswith(".sh"):
                txt = open(os.path.join(cdir, f), encoding="utf-8").read()
                lines = txt.split("\n")
                if lines and lines[-1] == "":
                    lines.pop()
                feats = set()
                if lines and lines[0].startswith("#feats:"):
                    feats = set(lines[0][7:].split())
                    lines = lines[1:]
                out.append({"key": ("corpus", f), "lines": lines, "last": None, "feats": feats})
    return out


def run(ctx):
    ok, out = lib.cargo_build([BIN])
    if not ok:
        lib.log(out[-4000:])
        ctx.broken.append("harness c15 does not build against the current tree: " + lib._first_errors(out))
    ctx.proof_stage(gens=[gen_caches, gen_incomplete])
    if not ok:
        return
    rng = ctx.rng
    corpus = load_corpus()
    exh1 = [{"key": k, "lines": l, "last": last, "feats": f} for k, l, last, f in gen_exhaustive(1, full=not ctx.quick)]
    exh2 = [{"key": k, "lines": l, "last": last, "feats": f} for k, l, last, f in gen_exhaustive(2) if k[0] == "exh2"]
    rnd = []
    for i in range(ctx.size(400, 6000)):
        l, last, f = gen_random(rng)
        rnd.append({"key": ("rand", i), "lines": l, "last": last, "feats": f})
    # the reader: everything (cheap: in-process harness + two bash runs)
    exh2c = exh2 if not ctx.quick else [exh2[i] for i in sorted(rng.sample(range(len(exh2)), 2000))]
    check_chunks(ctx, corpus + exh1 + exh2c + rnd)
    # delivery modes: 10 processes per program
    nd = ctx.size(100, 3000)
    sub2 = exh2 if not ctx.quick else [exh2[i] for i in sorted(rng.sample(range(len(exh2)), 60))]
    core = ("top", "if", "func", "for", "case", "subshell", "cont_eof", "defect")
    if ctx.quick:      # every leaf under the core wrappers, a seeded half of the other wrapper x leaf combinations
        rest = [p for p in exh1 if p["key"][1] not in core]
        sub1 = [p for p in exh1 if p["key"][1] in core] + [rest[i] for i in sorted(rng.sample(range(len(rest)), len(rest) // 2))]
    else:
        sub1 = exh1
    check_delivery(ctx, corpus + sub1 + sub2 + rnd[:nd])
    check_hdtag(ctx)
    check_invalid(ctx, gen_invalid(rng, ctx.size(100, 2000)))
    check_cache_inproc(ctx, ctx.size(150, 3000), ctx.size(40, 150))
    check_cache_exec(ctx, ctx.size(60, 1500))
    ctx.cov["rule"] = ("programs = every leaf construct (simple, status, continuation, here-document, comment, blank, multi-line "
                       "quote/substitution, operator at end of line, ...; every tokenizer-level multi-line construct with a 2-, 3-, "
                       "4-byte or combining character before / inside / after the open token, on an earlier line or in a comment; "
                       "grammar-level controls) under every wrapper (if/for/while/until/case/function/"
                       "group/subshell/pipeline), every ordered pair of leaves, plus seeded random nestings; each delivered as "
                       "file, -c, source, eval and standard input to brush and bash; brush's real read_line loop on each text vs "
                       "the model vs bash's own read positions; invalid lines after every head/opened construct; parse histories "
                       "(every text under every ordered pair of extglob/posix/sh settings, plus random) long-lived vs fresh; "
                       "non-trivial = at least two lines / two distinct calls; here-document tags: every spelling (EOF -EOF 'EOF' "
                       "\"EOF\" \\EOF -\\EOF E\"O\"F E'OF' E\\OF \"\"EOF) x body (plain, $x, tag-plus-blank lines, empty) x "
                       "continuation (read of the next program line, echo, later syntax error, two here-documents in a row), "
                       "exhaustive, each under file/-c/source/eval/stdin, brush vs bash mode by mode (not sent to the Lean "
                       "reader model; after a syntax error standard input only)")
    ctx.assumptions += ["bash reading a script from a seekable standard input leaves the descriptor's offset at the end of the "
                        "last line it has parsed when it runs an external command (used as oracle for `as soon as`)",
                        "a fresh harness process has cold caches",
                        "AST / token / word-piece equality is judged on a 64-bit hash of the Debug rendering",
                        "$LINENO of commands that themselves span several lines is compared across brush's delivery modes only "
                        "(bash numbers such commands by their last line)"]


def replay(ctx, rp):
    lib.cargo_build([BIN])
    case = rp["case"]
    fam = case.get("family")
    print(json.dumps({k: v for k, v in case.items() if k in ("family", "text", "feats", "history", "script")}, indent=1, ensure_ascii=False))
    if fam == "deliver":
        r = deliver(case["text"])
        for w in ("brush", "bash"):
            for m in MODES:
                print("%-5s %-6s rc=%s out=%r" % (w, m, r[w][m][0], r[w][m][1]))
        bm = {m: r["brush"][m][:2] for m in MODES}
        ref = r["bash"]["file"][:2]
        bad = len(set(bm.values())) > 1 or (bm["file"][0], mask_ml(bm["file"][1])) != (ref[0], mask_ml(ref[1]))
        print("property on brush:", "FAILS" if bad else "holds")
        return 1 if bad else 0
    if fam == "hdtag":
        r = deliver(case["text"])
        for w in ("brush", "bash"):
            for m in MODES:
                print("%-5s %-6s rc=%s out=%r" % (w, m, r[w][m][0], r[w][m][1]))
        bad = hdtag_bad(case["cont"], r)
        print("property on brush:", "FAILS (%s)" % ", ".join(bad) if bad else "holds")
        return 1 if bad else 0
    if fam in ("chunks", "invalid"):
        t = case["text"]
        okh, errs, bch, mch, tables = acc_all([t])
        print("brush chunks:", bch[0])
        print("model chunks:", mch[0])
        bad = bch[0] != mch[0]
        if fam == "chunks" and bch[0] is not None:
            a, b, script = bash_positions(t, bch[0])
            print("bash on stdin:          ", a)
            print("bash on brush's chunks: ", b)
            bad = bad or a != b or "".join(bch[0]) != t
        elif bch[0] is not None:
            r = run_mode("bash", "stdin", t, "/tmp")
            m = re.search(r"line (\d+): syntax error(?!: unexpected end of file)", r["err"])
            n, end = 0, None
            for c in bch[0]:
                n += c.count("\n")
                if m and n >= int(m.group(1)):
                    end = n
                    break
            print("bash error line:", m.group(1) if m else None, " brush chunk ends at line:", end)
            bad = bad or (m is not None and end != int(m.group(1)))
        print("property on brush:", "FAILS" if bad else "holds")
        return 1 if bad else 0
    if fam == "cache":
        h = case["history"]
        rc, out, err = lib.run_vh(BIN, ["parse %s %s" % (o, esc(t)) for t, o in h])
        bad = False
        for (t, o), l in zip(h, out):
            rc2, f, _ = lib.run_vh(BIN, ["parse %s %s" % (o, esc(t))])
            mark = "" if f and f[0] == l else "   <-- differs from fresh: " + (f[0] if f else "?")
            bad = bad or bool(mark)
            print("%s %-40r %s%s" % (o, t, l, mark))
        print("property on brush:", "FAILS" if bad else "holds")
        return 1 if bad else 0
    if fam == "cache_exec":
        r = run_mode("brush", "c", case["script"], "/tmp")
        print("long-lived:", repr(r["out"]))
        print("fresh:     ", repr(case.get("fresh_concatenated")))
        bad = r["out"] != case.get("fresh_concatenated")
        print("property on brush:", "FAILS" if bad else "holds")
        return 1 if bad else 0
    return 1
