"""C19 — syntax highlighting covers the typed line exactly.

Three things are decided on every run:
  * the property itself on brush's real spans (`highlight_command(..).spans()`), for every line and every
    cursor on a char boundary: ordered, contiguous, non-empty, on char boundaries, covering [0, len), rendering
    reproduces the text; no panic, no hang (watchdog);
  * brush == Lean model (`Model/Highlight.lean`) on the same token/piece tree, spans and kinds, every cursor;
  * the theorems' hypotheses (`wfProg`, no `trap`) on brush's real tokenizer / word-parser output.
"""
import itertools
import json
import os
import re
import lib
from lib import esc, unesc

BIN = "c19"
SEP = " %| "
# the shell's metacharacter alphabet, plus one plain, one 2-byte and one 4-byte character
ALPHA = "a '\"$(){}`\\|&;<>#\né\U0001F680"
ALPHA14 = "a '\"$()`\\|<\né\U0001F680"      # thorough tier: length 6 over these 14
WD_FAST = 3000       # ms; a call into brush normally takes ~20 µs
WD_CONFIRM = 6000


# ------------------------------------------------------------------------------------------------
# running the harness so that a hang costs one process, not the run

def run_requests(reqs, watchdog_ms=WD_FAST, workers=lib.NCPU):
    """Returns (responses, hangs). responses[i] is the response line, 'HANG <esc line> <cursor|tree>',
    'DIED …', or a list of response lines when an `E` request had to be split around a hanging line.
    hangs = [(esc line, cursor)]."""
    res = {}
    hangs = []
    pending = [((i,), r) for i, r in enumerate(reqs)]
    rounds = 0
    while pending:
        rounds += 1
        parts = lib.chunked(pending, workers)
        rs = lib.pmap(lambda part: lib.run_vh(BIN, [r for _, r in part], env={"C19_WATCHDOG_MS": str(watchdog_ms)}),
                      parts, workers)
        nxt = []
        for part, (rc, out, err) in zip(parts, rs):
            for (k, _), o in zip(part, out):
                res.setdefault(k[0], []).append(o)
            if len(out) < len(part):
                k, r = part[len(out)]
                m = re.search(r"HANG (\S+) (\S+) (\d+)", err)
                if rc == 3 and m:
                    hangs.append((m.group(1), m.group(2)))
                    f = r.split(" ")
                    if f[0] == "E":
                        lo, hi, idx = int(f[3]), int(f[4]), int(m.group(3))
                        for a, b in ((lo, idx), (idx + 1, hi)):
                            if b > a:
                                nxt.append((k, "E %s %s %d %d" % (f[1], f[2], a, b)))
                        res.setdefault(k[0], [])
                    else:
                        res.setdefault(k[0], []).append("HANG %s %s" % (m.group(1), m.group(2)))
                else:
                    res.setdefault(k[0], []).append("DIED rc=%d %s" % (rc, err[-300:].replace("\n", " ")))
                nxt.extend(part[len(out) + 1:])
        pending = nxt
        if rounds > 200:
            break
    return [res.get(i, ["DIED never-ran"]) for i in range(len(reqs))], hangs


# ------------------------------------------------------------------------------------------------
# the property's predicate, on what brush returned (independent of the harness's own `tiles`)

def boundaries(line):
    bs, o = {0}, 0
    for ch in line:
        o += len(ch.encode("utf-8"))
        bs.add(o)
    return bs


def parse_spans(txt):
    """'0-4-Builtin,4-5-Comment' -> [(0,4,'Builtin'),…]; returns (spans, render_mismatch)"""
    if txt == "-":
        return [], False
    out, mism = [], False
    for p in txt.split(","):
        if p == "RENDER_MISMATCH":
            mism = True
            continue
        a, b, k = p.split("-", 2)
        out.append((int(a), int(b), k))
    return out, mism


def property_fails(line, shown):
    """None when the property holds for this result, else a short reason."""
    if shown.startswith("PANIC:boundary:"):
        return "panic: span endpoint %s is not on a char boundary (debug assertion of append_span)" % shown[15:]
    if shown.startswith("PANIC"):
        return "panic: " + unesc(shown[6:])
    if shown.startswith("HANG"):
        return "the highlighter does not return (watchdog)"
    spans, mism = parse_spans(shown)
    data = line.encode("utf-8")
    bs = boundaries(line)
    nxt = 0
    for a, b, _ in spans:
        if a != nxt:
            return "spans not contiguous/ordered: span %d..%d follows offset %d" % (a, b, nxt)
        if b <= a:
            return "empty or reversed span %d..%d" % (a, b)
        if b > len(data):
            return "span %d..%d exceeds the line (%d bytes)" % (a, b, len(data))
        if a not in bs or b not in bs:
            return "span %d..%d is not aligned to char boundaries" % (a, b)
        nxt = b
    if nxt != len(data):
        return "spans cover %d of %d bytes" % (nxt, len(data))
    if b"".join(data[a:b] for a, b, _ in spans) != data or mism:
        return "rendering the spans does not reproduce the text"
    return None


# ------------------------------------------------------------------------------------------------
# features that identify the recorded defects (narrow: a different failure stays a VIOLATION)

def feat_heredoc(line):
    """a here-document operator followed later by a newline (a body / end tag can follow)"""
    i = line.find("<<")
    return i >= 0 and "\n" in line[i:]


def feat_heredoc_op(line):
    """a here-document operator anywhere in the line (the tokenizer's end-of-input handling of here tags)"""
    return "<<" in line


def feat_heredoc_in_parens(line):
    """a here-document operator inside `$(` / `<(` / `>(` / `(`"""
    i = line.find("(")
    return i >= 0 and "<<" in line[i:]


def feat_backquote_escape(line):
    """an escaped backquote or backslash inside a backquoted substitution (the word parser unescapes it,
    so offsets inside the nested command no longer map onto the line)"""
    i = line.find("`")
    return i >= 0 and ("\\`" in line[i + 1:])


# ------------------------------------------------------------------------------------------------
# generators

WORDS = ["echo", "ls", "x", "for", "do", "done", "if", "then", "fi", "a=b", "-l", "--opt", "é", "日本", "🚀", "~", "~/x",
         "a\\ b", "\\\n", "#c", "{a,b}", "*", "?(x)", "[", "]]", "!"]
OPS = ["|", "||", "&&", "&", ";", ";;", "<", ">", ">>", "<<", "<<-", "<<<", "<&", ">&", "(", ")", "\n", "{", "}", "<(", ">("]


def gen_word(rng, depth):
    r = rng.random()
    if r < 0.30 or depth > 3:
        return rng.choice(WORDS)
    if r < 0.38:
        return "'" + rng.choice(["", "a b", "é", "$x", "a\nb", "\\"]) + "'"
    if r < 0.50:
        return '"' + "".join(rng.choice([gen_word(rng, depth + 1), " ", "\\\"", "\\$", "é"]) for _ in range(rng.randint(0, 3))) + '"'
    if r < 0.58:
        return rng.choice(["$x", "${x}", "${x:-" + gen_word(rng, depth + 1) + "}", "${#x}", "${x/a/🚀}", "$1", "$?", "${x[1]}", "$", "${"])
    if r < 0.68:
        return "$(" + gen_line(rng, depth + 1) + ")"
    if r < 0.76:
        return "`" + gen_line(rng, depth + 2).replace("`", "\\`") + "`"
    if r < 0.82:
        return rng.choice(["$((1+2))", "$(( x * (2+é) ))", "$[1+2]", "$((", "$(( $(echo 1) + 2 ))"])
    if r < 0.88:
        return rng.choice(["$'a\\nb'", "$'\\''", '$"msg é"', "$'"])
    if r < 0.94:
        return gen_word(rng, depth + 1) + gen_word(rng, depth + 1)
    return rng.choice(["<<E\nbody é\nE\n", "<<'E'\n$x\nE", "<<-E\n\tx\n\tE\n", "<<E", "<<E\nunterminated", "<<''\n\n"])


def gen_line(rng, depth=0):
    parts = []
    for _ in range(rng.randint(1, 4 if depth else 6)):
        r = rng.random()
        if r < 0.65:
            parts.append(gen_word(rng, depth))
        elif r < 0.9:
            parts.append(rng.choice(OPS))
        else:
            parts.append("# comment é")
        if rng.random() < 0.8:
            parts.append(rng.choice([" ", " ", "  ", "\t", ""]))
    return "".join(parts)


def mutate(rng, line):
    cs = list(line)
    for _ in range(rng.randint(1, 3)):
        r = rng.random()
        if cs and r < 0.35:
            del cs[rng.randrange(len(cs))]
        elif r < 0.7:
            cs.insert(rng.randint(0, len(cs)), rng.choice(ALPHA))
        elif cs and r < 0.85:
            cs = cs[:rng.randint(0, len(cs))]          # an intermediate keystroke state
        elif cs:
            i = rng.randrange(len(cs))
            cs[i] = rng.choice(ALPHA)
    return "".join(cs)


def corpus_lines():
    out = []
    cdir = os.path.join(lib.ROOT, "corpus", "C19")
    if os.path.isdir(cdir):
        for f in sorted(os.listdir(cdir)):
            if not f.endswith(".txt"):
                continue
            for l in open(os.path.join(cdir, f), encoding="utf-8"):
                l = l.rstrip("\n")
                if l and not l.startswith("//"):
                    out.append(unesc(l))
    return out


# ------------------------------------------------------------------------------------------------

class Tie:
    """one line through harness `L` mode and the Lean driver"""

    def __init__(self, line, hresp):
        self.line = line
        self.hresp = hresp
        self.hang = hresp.startswith("HANG") or hresp.startswith("DIED")
        self.tree = None
        self.brush = {}      # cursor -> shown spans
        if not self.hang:
            parts = hresp.split(SEP)
            self.tree = parts[0]
            for p in parts[1:]:
                c, s = p.split(" ", 1)
                self.brush[int(c)] = s
        self.wf = None
        self.model = {}      # cursor -> (shown spans, trap)

    def drv_request(self):
        return "C19 %s %s" % (",".join(str(c) for c in sorted(self.brush)), self.tree)

    def set_model(self, mresp):
        parts = mresp.split(SEP)
        if not parts[0].startswith("wf="):
            self.wf = None
            self.model_err = mresp[:200]
            return
        self.wf = parts[0] == "wf=1"
        for p in parts[1:]:
            c, s, t = p.split(" ")
            self.model[int(c)] = (s, None if t == "-" else int(t))


def same(brush_shown, model):
    """brush's result against the model's (spans, trap): equal spans; a debug-assertion panic at N
    corresponds to the model's trap N."""
    mspans, trap = model
    if brush_shown.startswith("PANIC:boundary:"):
        return trap is not None and str(trap) == brush_shown[15:]
    if brush_shown.startswith("PANIC") or brush_shown.startswith("HANG"):
        return False
    b = brush_shown[:-len(",RENDER_MISMATCH")] if brush_shown.endswith(",RENDER_MISMATCH") else brush_shown
    return b == mspans


def tie_lines(ctx, lines):
    """harness L mode + Lean driver for each line; returns [Tie]"""
    reqs = ["L %s *" % esc(l) for l in lines]
    resp, _ = run_requests(reqs)
    ties = [Tie(l, r[0] if r else "DIED") for l, r in zip(lines, resp)]
    live = [t for t in ties if not t.hang and not t.tree.startswith("TREEPANIC")]
    mouts = lib.run_drv_parallel([t.drv_request() for t in live])
    for t, m in zip(live, mouts):
        t.set_model(m)
    return ties


def confirm_hangs(lines):
    """re-run each suspected hanging line alone with a generous watchdog; returns the set that really hangs"""
    if not lines:
        return set()

    def one(l):
        rc, out, err = lib.run_vh(BIN, ["L %s 0" % esc(l)], env={"C19_WATCHDOG_MS": str(WD_CONFIRM)})
        return rc == 3 and "HANG" in err
    return {l for l, h in zip(lines, lib.pmap(one, lines, workers=min(len(lines), 48))) if h}


def known(ctx, clause, why, case):
    """a failure explained by a recorded defect; when the clause is not (or no longer) listed it is a violation,
    recorded once per clause and run (the shortest witness first: callers go through lines in generation order)"""
    if clause in ctx.known:
        ctx.known_hits.setdefault(clause, case)
        ctx.bucket("known_" + clause)
    else:
        seen = ctx.__dict__.setdefault("_c19_unlisted", {})
        seen[clause] = seen.get(clause, 0) + 1
        if seen[clause] <= 3:
            ctx.known_or_violation(clause, why, case)


def classify(ctx, t, state):
    """decide the property on brush's output for every cursor of one line, compare with the model"""
    line = t.line
    case = {"line": line}
    if t.hang:
        if t.hresp.startswith("DIED"):
            state["viol"](ctx, "harness died on this line: " + t.hresp[:200], case, "property")
        elif feat_heredoc_op(line):
            known(ctx, "heredoc_eof_tag_hang", "the highlighter never returns (tokenizer loops)", case)
        else:
            state["viol"](ctx, "the highlighter never returns (watchdog %d ms, confirmed)" % WD_CONFIRM, case, "property")
        return
    if t.tree.startswith("TREEPANIC"):
        # the tokenizer / word parser itself panics: so does highlight_command (same call)
        c0 = min(t.brush) if t.brush else 0
        case = {"line": line, "cursor": c0, "brush": t.brush.get(c0), "tree": unesc(t.tree[4:])}
        if feat_heredoc_in_parens(line) and "Option::unwrap" in unesc(t.tree):
            known(ctx, "heredoc_in_substitution_tokenizer_panic", "the highlighter panics (tokenizer: unwrap on None)", case)
        else:
            state["viol"](ctx, "the highlighter panics in the tokenizer / word parser: " + unesc(t.tree[4:]), case, "property")
        return
    if t.wf is None:
        ctx.broken.append("Lean driver could not read the tree of %r: %s" % (line, getattr(t, "model_err", "?")))
        return
    ctx.bucket("wf_holds" if t.wf else "wf_fails")
    for c in sorted(t.brush):
        b = t.brush[c]
        m = t.model.get(c)
        why = property_fails(line, b)
        case = {"line": line, "cursor": c, "brush": b, "model": m[0] if m else None, "model_trap": m[1] if m else None,
                "wf": t.wf}
        agree = m is not None and same(b, m)
        if not agree:
            state["viol"](ctx, "highlighter model and brush disagree (correspondence broken)" + (": " + why if why else ""),
                          case, "property" if why else "correspondence")
            return
        if why is None:
            continue
        # brush == model and the property fails: which guard of the theorems is not met?
        if not t.wf:
            if feat_heredoc(line):
                known(ctx, "heredoc_tokens_out_of_order", why, case)
            else:
                state["viol"](ctx, why + " (tokens/pieces not ordered and no here-document in the line)", case, "property")
        elif m[1] is not None:
            if feat_backquote_escape(line):
                known(ctx, "backquote_escape_shifts_offsets", why, case)
            else:
                state["viol"](ctx, why + " (off-boundary offset without an escaped backquote)", case, "property")
        else:
            state["viol"](ctx, why + " (inside the proved domain: model and theorem disagree?)", case, "property")
        return



# ------------------------------------------------------------------------------------------------
# CONTEXT SWEEP.  For the highlighter "context" is the state of the shell it consults and of the line editor:
#   * the SAME line highlighted again and again in ONE shell while its state changes between the calls (alias defined /
#     removed, function defined / removed, `shopt -u/-s extglob`, `set -o/+o posix`, PATH so that the command word is
#     found / not found, cwd so that a path word exists / does not) — warm tokenizer / word-parser caches;
#   * every state also reached COLD (a fresh shell in another process that never saw the line);
#   * every byte offset 0..=len as cursor, including offsets inside multi-byte characters;
#   * multi-line buffers: every PREFIX of generated valid scripts (prefix closure);
#   * very long lines (10^4..10^5 chars) and deep nesting, for time.
# In every state the tiling predicate must hold on brush's spans, brush == model on the tree of that state, the answer must be
# a function of (line, state) only (warm == cold, same state twice == same answer), and the span RANGES must not depend on
# cursor / aliases / functions / PATH / cwd at all (theorem `ranges_depend_only_on_geometry`): only the parser's option
# flags (extglob, posix) may move a boundary.

STEPSEP = " %# "
# (label, ops applied before this step's highlight, parser options are the default ones, same state as step 0)
SWEEP_STEPS = [
    ("fresh", [], True, True),
    ("alias_defined", ["alias+"], True, False),
    ("alias_removed_function_defined", ["alias-", "func+"], True, False),
    ("function_removed", ["func-"], True, True),
    ("extglob_off", ["extglob-"], False, False),
    ("extglob_on_posix_on", ["extglob+", "posix+"], False, False),
    ("posix_off", ["posix-"], True, True),
    ("path_finds_name", ["path+"], True, False),
    ("path_empty", ["path0"], True, False),
    ("path_restored_cwd_has_files", ["path=", "cd+"], True, False),
    ("cwd_root", ["cd-"], True, False),
]
NAME_RE = re.compile(r"^[A-Za-z_][A-Za-z0-9_]*$")
STATEFUL_ARGS = ["./x", "sub/x", "é", "?(a)", "!(x|y)", "@(a|b)c", "+(é)", "-opt", "'q'", "\"$(%s ./x)\"", "`%s`", "| %s", "; %s -l",
                 "&& ./x", "$(%s)", "~", "~/x", "a=(1 2)", "x=1", "[[ a == @(a) ]]", "# é", "<(%s)", "/bin/sh", "sub/x/../x", "\\\n%s",
                 "${v:-./x}", "$((1+2))", "*(", "?(", "🚀"]


def sweep_name(line):
    w = line.strip().split(" ")[0].split("\n")[0] if line.strip() else ""
    return w if NAME_RE.match(w) else "zzcmd"


def gen_stateful(rng):
    name = rng.choice(["zzcmd", "ls", "x", "mytool", "echo", "for", "é"])
    parts = [rng.choice(["", "", "x=1 ", "  "]) + name]
    for _ in range(rng.randint(0, 4)):
        a = rng.choice(STATEFUL_ARGS)
        parts.append(a % name if "%s" in a else a)
    return " ".join(parts)


def ranges_of(shown):
    if shown.startswith("PANIC") or shown.startswith("HANG"):
        return shown
    return [(a, b) for a, b, _ in parse_spans(shown)[0]]


def context_sweep(ctx, state, pool):
    rng = ctx.rng
    n = ctx.size(600, 9000)
    lines = []
    seen = set()
    for l in corpus_lines():
        lines.append(l)
    for _ in range(n // 3):
        lines.append(gen_stateful(rng))
    while len(lines) < n and pool:
        lines.append(rng.choice(pool))
    lines = [l for l in lines if not (l in seen or seen.add(l)) and len(l.encode("utf-8")) <= 400]
    seq_reqs, cold_reqs = [], []
    for l in lines:
        nm = sweep_name(l)
        ops = []
        for j, (_, o, _, _) in enumerate(SWEEP_STEPS):
            ops += o
            cold_reqs.append((j, "S %s %s %s H" % (esc(l), esc(nm), " ".join(ops)) if ops else "S %s %s H" % (esc(l), esc(nm))))
        seq_reqs.append("S %s %s %s" % (esc(l), esc(nm), " ".join(" ".join(o + ["H"]) for _, o, _, _ in SWEEP_STEPS)))
    # cold requests step-major, so that one process never sees a line twice
    order = sorted(range(len(cold_reqs)), key=lambda i: (cold_reqs[i][0], i))
    resp, _ = run_requests(seq_reqs + [cold_reqs[i][1] for i in order])
    seq_resp = [r[0] if r else "DIED" for r in resp[:len(seq_reqs)]]
    cold_resp = [None] * len(cold_reqs)
    for k, i in enumerate(order):
        r = resp[len(seq_reqs) + k]
        cold_resp[i] = r[0] if r else "DIED"
    nst = len(SWEEP_STEPS)
    ties = []          # (line index, step index, Tie)
    for li, (l, sr) in enumerate(zip(lines, seq_resp)):
        if sr.startswith("HANG") or sr.startswith("DIED"):
            t = Tie(l, sr)
            classify(ctx, t, state)
            continue
        steps = sr.split(STEPSEP)
        if len(steps) != nst:
            ctx.broken.append("context sweep: %d steps answered for %r, expected %d" % (len(steps), l, nst))
            continue
        for j, st in enumerate(steps):
            ties.append((li, j, Tie(l, st)))
    live = [t for _, _, t in ties if not t.tree.startswith("TREEPANIC")]
    for t, m in zip(live, lib.run_drv_parallel([t.drv_request() for t in live])):
        t.set_model(m)
    first = {}
    for li, j, t in ties:
        l = t.line
        label, _, dflt, same_as_fresh = SWEEP_STEPS[j]
        ncur = max(1, len(t.brush))
        ctx.count(("sweep", l, j), nontrivial=len(l) >= 2, bucket="sweep_" + label)
        ctx.evals += ncur - 1
        ctx.impl_validated += ncur
        nv = state["n"][0]
        classify(ctx, t, state)                      # the predicate + brush == model, in this state, every byte cursor
        if state["n"][0] != nv:
            continue
        case = {"line": l, "state": label, "ops": [o for _, ops, _, _ in SWEEP_STEPS[:j + 1] for o in ops]}
        # (a) warm == cold: the answer is a function of (line, state), not of what the caches saw before
        cold = cold_resp[li * nst + j]
        if cold != t.hresp:
            c2 = Tie(l, cold) if not (cold.startswith("HANG") or cold.startswith("DIED")) else None
            diff = next((c for c in sorted(t.brush) if c2 is None or c2.brush.get(c) != t.brush[c]), None)
            case.update({"cursor": diff, "brush": t.brush.get(diff) if diff is not None else t.tree,
                         "brush_cold": (c2.brush.get(diff) if c2 and diff is not None else cold[:300])})
            state["viol"](ctx, "the same line in the same shell state is highlighted differently after the shell went through other "
                          "states than in a fresh shell (stale cache / leaked state)", case, "property")
            continue
        # (b) ranges do not depend on the cursor …
        rs = {c: ranges_of(s) for c, s in t.brush.items()}
        r0 = rs[min(rs)]
        bad = next((c for c in sorted(rs) if rs[c] != r0), None)
        if bad is not None and not any(isinstance(v, str) for v in rs.values()):
            case.update({"cursor": bad, "brush": t.brush[bad], "brush_cursor0": t.brush[min(rs)]})
            state["viol"](ctx, "span boundaries depend on the cursor position", case, "property")
            continue
        # (c) … nor on aliases / functions / PATH / cwd: every default-option step has the ranges of step 0,
        #     and a state reached twice gives the identical answer (kinds included)
        if j == 0:
            first[li] = t
        elif li in first:
            f = first[li]
            if dflt and not isinstance(r0, str) and ranges_of(f.brush[min(f.brush)]) != r0:
                case.update({"cursor": min(rs), "brush": t.brush[min(rs)], "brush_fresh": f.brush[min(f.brush)]})
                state["viol"](ctx, "span boundaries changed with shell state that the tokenizer does not take (alias/function/PATH/cwd)",
                              case, "property")
            elif same_as_fresh and f.hresp != t.hresp:
                diff = next((c for c in sorted(t.brush) if f.brush.get(c) != t.brush[c]), None)
                case.update({"cursor": diff, "brush": t.brush.get(diff), "brush_fresh": f.brush.get(diff)})
                state["viol"](ctx, "back in the initial shell state the line is highlighted differently than at first", case, "property")
            elif not same_as_fresh and dflt and f.hresp != t.hresp:
                ctx.bucket("sweep_kinds_changed_with_state")
    ctx.bucket("sweep_lines", len(lines))
    return len(lines)


SCRIPT_STMTS = [
    "echo \"héllo $USER\" # commentaire é\n",
    "cat <<EOF\nbody $(date) é\nEOF\n",
    "cat <<-'E' | tr a b\n\tlit $x\n\tE\n",
    "for f in *.txt; do\n  echo \"$f\" \\\n    --long-opt\ndone\n",
    "x=$(( 1 + $[2*3] ))\n",
    "y=$(echo $(echo $(echo deep \"q $(date)\")))\n",
    "if [[ $a == @(x|y) ]]; then echo `uname -s`; fi\n",
    "f() { local v='single é'; printf '%s\\n' \"${v:-def}\" ; }\n",
    "case $x in a) echo 1;; *) echo $'t\\tq';; esac\n",
    "echo ${arr[@]:1:2} ${#s} ${s/é/e} ~/dir ~+\n",
    "ls | grep x && echo ok || echo 'no' > /dev/null 2>&1 &\n",
    "# 日本語 コメント 🚀\n",
    "while read -r l; do :; done < <(printf 'a\\nb\\n')\n",
    "echo \"multi\nline é\nstring\" 'and\nsingle'\n",
    "arr=(a \"b c\" $(ls) [5]=x)\n",
    "echo $\"gettext é\" $'\\u00e9' \\\n\t$(( $(echo 1) + `echo 2` ))\n",
    "( cd /tmp && { echo a; echo b; } | sort ) 2>&1 | tee log\n",
    "select i in a b; do break; done; until false; do break; done\n",
    "echo a\\\nb\\\nc # continuation inside a word\n",
    "\n\n   \t\n",
]


def prefix_closure(ctx, state):
    """every prefix of generated valid multi-line scripts must tile (an editor buffer while a script is typed / pasted)"""
    rng = ctx.rng
    scripts = []
    for _ in range(ctx.size(40, 900)):
        parts = []
        for _ in range(rng.randint(2, 6)):
            r = rng.random()
            parts.append(rng.choice(SCRIPT_STMTS) if r < 0.85 else gen_line(rng) + "\n")
        scripts.append("".join(parts))
    resp, hangs = run_requests(["X " + esc(s) for s in scripts], watchdog_ms=WD_CONFIRM)
    rejected, sample = [], []
    nprefix = ncalls = 0
    for s, r in zip(scripts, resp):
        ctx.count(("script", s), bucket="prefix_scripts")
        o = r[0] if r else "DIED"
        head = o.split(" ")
        if not head[0].startswith("n="):
            t = Tie(s, o)       # HANG / DIED on some prefix
            m = re.match(r"HANG (\S+) ", o)
            if m:
                t = Tie(unesc(m.group(1)), "HANG %s tree" % m.group(1))
            classify(ctx, t, state)
            continue
        nprefix += int(head[0][2:])
        ncalls += int(head[1][6:])
        data = s.encode("utf-8")
        for ent in head[3:]:
            cut = int(ent.split("\t")[0])
            rejected.append(data[:cut].decode("utf-8"))
        for _ in range(ctx.size(4, 12)):
            sample.append(s[:rng.randint(0, len(s))])
    ctx.evals += ncalls
    ctx.impl_validated += ncalls
    ctx.bucket("prefix_closure_prefixes", nprefix)
    seen = set()
    todo = [l for l in rejected + sample if not (l in seen or seen.add(l))]
    nrej = len(set(rejected))
    for t in tie_lines(ctx, todo):
        ctx.count(("prefix", t.line), bucket="prefix_rejected" if t.line in set(rejected) else "prefix_sampled")
        classify(ctx, t, state)
    return nprefix, nrej


def nest_depth(line):
    d = m = 0
    for ch in line:
        if ch in "({":
            d += 1
            m = max(m, d)
        elif ch in ")}":
            d = max(0, d - 1)
    return m


T_LIMIT_S = 20.0     # one call on a line of <= 10^5 chars, nesting <= 1000 (measured: <= 1.2 s)


def long_lines(ctx, state):
    def shapes(n):
        return {
            "word": "a" * n, "words": "echo " + "ab " * (n // 3), "squote": "echo '" + "x" * n + "'",
            "dquote_params": 'echo "' + "$x " * (n // 3) + '"', "comment_mb": "# " + "é" * (n // 2),
            "arith": "echo $((" + "1+" * (n // 2) + "1))", "pipes": "a|" * (n // 2) + "a",
            "heredoc_open": "cat <<E\n" + "line\n" * (n // 5), "continuations": "echo " + "a\\\n" * (n // 3),
            "rockets": "echo " + "\U0001F680" * (n // 4), "newlines": "a\n" * (n // 2), "params": "echo " + "${x:-y} " * (n // 8),
            "cmdsubs": "echo " + "$(a) " * (n // 5), "backq": "echo " + "`a` " * (n // 4), "escapes": "echo " + "\\a" * (n // 2),
            "braces": "echo " + "{a,b}" * (n // 5),
            "script": "for f in *.txt; do\n  echo \"$f é\" \\\n    --long $(date) # c\ndone\n" * (n // 60),
        }

    def nests(k):
        return {
            "nest_cmdsub": "echo " + "$(a " * k + ")" * k, "nest_cmdsub_open": "echo " + "$(a " * k,
            "nest_paren": "(" * k + "a" + ")" * k, "nest_dq_cmdsub": "echo " + '"$(a ' * k + ')"' * k,
            "nest_param": "echo " + "${x:-" * k + "}" * k, "nest_arith": "echo $((" + "(" * k + "1" + ")" * k + "))",
            "nest_brace": "{ " * k + "a" + "; }" * k, "nest_legacy_arith": "echo " + "$[1+" * k + "1" + "]" * k,
            "nest_subscript": "echo $((" + "a[" * k + "1" + "]" * k + "))",
        }
    cases = [("%s_1e4" % k, v) for k, v in shapes(10000).items()]
    big = shapes(100000)
    cases += [("%s_1e5" % k, big[k]) for k in (big if not ctx.quick else ["words", "cmdsubs", "script", "pipes"])]
    for k in ((20, 300) if ctx.quick else (20, 100, 300, 1000)):
        cases += [("%s_%d" % (nm, k), v) for nm, v in nests(k).items()]
    cases.append(("nest_param_4000", nests(4000)["nest_param"]))        # beyond the recursion the parsers survive

    def one(c):
        rc, out, err = lib.run_vh(BIN, ["T " + esc(c[1])], env={"C19_WATCHDOG_MS": str(int(T_LIMIT_S * 2000))})
        return rc, (out[0] if out else ""), err[-200:]
    worst = (0.0, "")
    for (nm, line), (rc, o, err) in zip(cases, lib.pmap(one, cases, workers=8)):
        ctx.count(("long", nm), bucket="long_lines")
        ctx.impl_validated += 1
        case = {"line_shape": nm, "line_chars": len(line), "line": line if len(line) <= 300 else line[:120] + " … " + line[-60:],
                "harness": o or err.strip()}
        m = re.match(r"us=(\d+) ok=(\d) nspans=(\d+)", o)
        if not m:
            if "overflowed its stack" in err and nest_depth(line) >= 1000:
                known(ctx, "deep_nesting_stack_overflow", "the highlighter overflows the stack and the process aborts", case)
            elif rc == 3:
                state["viol"](ctx, "one highlight call takes more than %.0f s" % (T_LIMIT_S * 2), case, "property")
            else:
                state["viol"](ctx, "the highlighter crashed the process (rc %s): %s" % (rc, err.strip()[-120:]), case, "property")
            continue
        secs = int(m.group(1)) / 1e6
        if secs > worst[0]:
            worst = (secs, nm)
        if m.group(2) != "1":
            state["viol"](ctx, "spans of a long line do not tile it", case, "property")
        elif secs > T_LIMIT_S:
            state["viol"](ctx, "one highlight call takes %.1f s" % secs, case, "property")
    ctx.notes.append("long lines: slowest call %.2f s (%s)" % worst)
    return len(cases)


def run(ctx):
    ok, out = lib.cargo_build([BIN])
    if not ok:
        lib.log(out[-4000:])
        ctx.broken.append("harness c19 does not build against the current tree: " + lib._first_errors(out))
    ctx.proof_stage()
    if not ok:
        return
    nviol = [0]

    def viol(ctx, what, case, kind):
        if nviol[0] < 25:
            ctx.violation(what, case, kind=kind)
        nviol[0] += 1
    state = {"viol": viol, "n": nviol}
    rng = ctx.rng

    # ---- 1. exhaustive enumeration in the harness: the predicate on brush's spans, every cursor ----
    maxlen = 5
    reqs = []
    plan = [(ALPHA, n) for n in range(0, maxlen + 1)]
    if not ctx.quick:
        plan.append((ALPHA14, 6))
    for alpha, n in plan:
        tot = len(alpha) ** n
        parts = max(1, min(tot // 2000, 1024))
        for i in range(parts):
            lo, hi = tot * i // parts, tot * (i + 1) // parts
            if hi > lo:
                reqs.append("E %s %d %d %d" % (esc(alpha), n, lo, hi))
    resp, hangs = run_requests(reqs)
    failing = {}
    nlines = ncalls = 0
    for r in resp:
        for o in r:
            head = o.split(" ")
            if not head[0].startswith("n="):
                ctx.broken.append("harness c19 enumeration request failed: " + o[:200])
                continue
            nlines += int(head[0][2:])
            ncalls += int(head[1][6:])
            for ent in head[4:]:
                l, c, s = ent.split("\t")
                failing.setdefault(unesc(l), []).append((int(c), s))
    ctx.evals += ncalls
    ctx.impl_validated += ncalls
    ctx.bucket("exhaustive_lines_len_le_%d" % maxlen, nlines)
    ctx.bucket("exhaustive_calls", ncalls)
    hang_lines = sorted({unesc(l) for l, _ in hangs})

    # ---- 2. the tie: corpus, exhaustive-small, sampled, grammar-generated, mutated; plus what step 1 rejected ----
    lines, kinds = [], []

    def add(kind, l):
        lines.append(l)
        kinds.append(kind)
    for l in corpus_lines():
        add("corpus", l)
    small = ctx.size(3, 4)
    for n in range(0, small + 1):
        for tup in itertools.product(ALPHA, repeat=n):
            add("exh", "".join(tup))
    known = set(lines)
    for l in sorted(failing, key=lambda x: (len(x), x)):      # shortest failing inputs first
        if l not in known:
            add("exh_rejected", l)
    for _ in range(ctx.size(12000, 60000)):
        n = rng.randint(small + 1, 8)
        add("rand", "".join(rng.choice(ALPHA) for _ in range(n)))
    gl = []
    for _ in range(ctx.size(8000, 50000)):
        g = gen_line(rng)
        gl.append(g)
        add("grammar", g)
    for _ in range(ctx.size(8000, 50000)):
        add("mutated", mutate(rng, rng.choice(gl)))
    known = set(lines)
    # lines that hang are tied separately (they would stall the batch): confirm, then classify
    ties = tie_lines(ctx, lines)
    suspected = sorted(set(hang_lines) | {t.line for t in ties if t.hresp.startswith("HANG")})
    really = confirm_hangs(suspected)
    false_hangs = [l for l in suspected if l not in really]
    if false_hangs:
        # starved, not hanging: run them again on their own
        again = {t.line: t for t in tie_lines(ctx, false_hangs)}
        ties = [again.get(t.line, t) if t.hresp.startswith("HANG") else t for t in ties]
        for l in false_hangs:
            if l not in known and l in again:
                ties.append(again[l]); kinds.append("exh_rejected")
    tied = {t.line for t in ties}
    for l in sorted(really):
        if l not in tied:
            t = Tie(l, "HANG %s tree" % esc(l))
            ties.append(t); kinds.append("exh_rejected")
    # every failure the enumeration saw must be seen again by the tie (same spans): cross-check
    by_line = {t.line: t for t in ties}
    for l, fs in failing.items():
        t = by_line.get(l)
        if t is None or t.hang:
            continue
        for c, s in fs:
            if t.brush.get(c) != s:
                ctx.notes.append("enumeration and single run differ on %r cursor %d" % (l, c))
    for t, kind in zip(ties, kinds):
        ncur = max(1, len(t.brush))
        nontriv = len(t.line) >= 2
        ctx.count(("tie", t.line), nontrivial=nontriv, bucket=kind)
        ctx.evals += ncur - 1
        ctx.impl_validated += ncur
        ctx.bucket("chars_%d" % min(len(t.line), 12))
        if any(ord(ch) > 127 for ch in t.line):
            ctx.bucket("has_multibyte")
        if "\n" in t.line:
            ctx.bucket("has_newline")
        if t.tree and (" B " in t.tree or " C " in t.tree):
            ctx.bucket("has_command_substitution")
        if t.tree and " F" in t.tree:
            ctx.bucket("has_tokenizer_failure")
        classify(ctx, t, state)
    # ---- 3. context sweep: shell state, byte cursors, prefix closure, long lines ----
    import time as _t
    t0 = _t.time()
    pool = [l for l, k in zip(lines, kinds) if k in ("grammar", "mutated", "rand")]
    nsw = context_sweep(ctx, state, pool)
    t1 = _t.time()
    npre, nrej = prefix_closure(ctx, state)
    t2 = _t.time()
    nlong = long_lines(ctx, state)
    ctx.notes.append("context sweep: %d lines x %d shell states warm+cold %.1fs; prefix closure: %d prefixes (%d rejected) %.1fs; "
                     "long lines: %d shapes %.1fs" % (nsw, len(SWEEP_STEPS), t1 - t0, npre, nrej, t2 - t1, nlong, _t.time() - t2))
    if nviol[0] > 25:
        ctx.notes.append("%d violations in total, first 25 recorded" % nviol[0])
    for i in (len(ties) // 3, len(ties) // 2, len(ties) - 1):
        t = ties[i]
        if not t.hang:
            c = max(t.brush)
            ctx.sample({"line": t.line, "cursor": c, "brush": t.brush[c], "model": t.model.get(c, ("?",))[0], "wf": t.wf})
    ctx.cov["rule"] = ("(1) every line of length 0..%d over the %d-symbol alphabet %r (thorough: also length 6 over 14 of them), every cursor on a char boundary: the tiling "
                       "predicate evaluated on brush's spans inside the harness; (2) the tie (brush spans == Lean model spans on the "
                       "tree rebuilt from tokenize_str_with_options / word::parse, every cursor, predicate re-evaluated in python): "
                       "corpus, all lines of length <= %d, seeded random lines to length 8, grammar-generated lines (quotes, "
                       "expansions, nested substitutions, arithmetic, here-documents, comments, continuations, multi-byte), "
                       "mutated/truncated lines, and every line rejected in (1); (3) context sweep: a seeded sample of those lines plus "
                       "state-sensitive lines, each highlighted in one shell through %d states (alias/function defined and removed, "
                       "extglob off, posix on, PATH finding/not finding the command, cwd with/without the path words) and cold in a "
                       "fresh process per state, every byte offset as cursor; every prefix of generated multi-line scripts; "
                       "lines of 10^4..10^5 chars and nesting to depth 1000 for time; non-trivial = at least 2 chars; distinct by line"
                       % (maxlen, len(ALPHA), ALPHA, small, len(SWEEP_STEPS)))
    ctx.assumptions += ["the tokenizer's and the word parser's output is an input of the model (hypothesis wfProg / trap of the "
                        "theorems, evaluated on every generated line), not modelled",
                        "command classification (keyword/alias/function/builtin/PATH lookup) is read from the shell through the same "
                        "public functions the highlighter uses",
                        "harness and brush are debug builds: a span off a char boundary shows up as the debug assertion of append_span "
                        "(model: trap); a release build returns the span and renders it as empty text",
                        "hang = one call into brush takes more than %d ms, confirmed alone with %d ms" % (WD_FAST, WD_CONFIRM)]


def replay(ctx, rp):
    ok, out = lib.cargo_build([BIN])
    case = rp.get("case") or {}
    line = case.get("line")
    if line is None:
        print(json.dumps(rp, indent=1, ensure_ascii=False))
        return 1
    ok2, _ = lib.lake_build(["drv"])
    if case.get("ops") is not None and "state" in case:
        # a context-sweep case: the line in one shell through the states, and cold in the failing state
        j = next(i for i, st in enumerate(SWEEP_STEPS) if st[0] == case["state"])
        nm = sweep_name(line)
        seq = "S %s %s %s" % (esc(line), esc(nm), " ".join(" ".join(o + ["H"]) for _, o, _, _ in SWEEP_STEPS[:j + 1]))
        ops = [o for _, os_, _, _ in SWEEP_STEPS[:j + 1] for o in os_]
        cold = "S %s %s %s H" % (esc(line), esc(nm), " ".join(ops))
        _, o1, _ = lib.run_vh(BIN, [seq])
        _, o2, _ = lib.run_vh(BIN, [cold])
        warm = (o1[0].split(STEPSEP)[-1] if o1 else "<none>")
        coldr = o2[0] if o2 else "<none>"
        print("line:  %r" % line)
        print("state: %s (ops %s)" % (case["state"], " ".join(ops)))
        print("brush, after going through the earlier states: %s" % warm)
        print("brush, fresh shell put into that state:        %s" % coldr)
        t = Tie(line, warm)
        bad = 0 if warm == coldr else 1
        for c in sorted(t.brush):
            why = property_fails(line, t.brush[c])
            if why:
                print("property on brush (cursor %d): %s" % (c, why))
                bad = 1
                break
        print("same answer in the same state: %s" % (warm == coldr))
        return bad
    if "line_shape" in case:
        print(json.dumps(case, indent=1, ensure_ascii=False)[:1500])
        return 1
    really = confirm_hangs([line])
    if really:
        print("line:  %r" % line)
        print("brush: does not return within %d ms (highlighter / tokenizer loops)" % WD_CONFIRM)
        return 1
    t = tie_lines(ctx, [line])[0]
    cs = [case["cursor"]] if "cursor" in case and case["cursor"] in t.brush else sorted(t.brush)
    print("line:  %r" % line)
    print("tree:  %s" % t.tree)
    print("wfProg (tokens/pieces ordered and nested): %s" % t.wf)
    bad = 0
    for c in cs:
        b = t.brush.get(c, "?")
        m = t.model.get(c, ("?", None))
        why = property_fails(line, b)
        print("cursor %d" % c)
        print("  brush: %s" % b)
        print("  model: %s%s" % (m[0], "" if m[1] is None else "  (debug assertion would fire at offset %d)" % m[1]))
        print("  property on brush: %s" % (why or "holds"))
        if why or not same(b, m):
            bad = 1
    return bad
