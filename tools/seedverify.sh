#!/bin/bash
# tools/seedverify.sh <seed-id> <worktree> <property>  : confirm the demo (passes unmodified, fails modified), record, clean up
id=$1; wt=$2; prop=$3
h=$(python3 -c "import hashlib,os,sys; print(hashlib.md5(os.path.abspath(sys.argv[1]).encode()).hexdigest()[:8])" "$wt")
mod=/verif/.build/target-$h/debug/brush
unm=/verif/.build/target/debug/brush
bash /verif/seeded/$id/demo.sh $unm >/tmp/sv-unm.out 2>&1; r1=$?
bash /verif/seeded/$id/demo.sh $mod >/tmp/sv-mod.out 2>&1; r2=$?
python3 - "$id" "$prop" "$r1" "$r2" <<'PY'
import json,sys
id,prop,r1,r2=sys.argv[1:5]
p='/verif/seeded/%s/meta.json'%id
m=json.load(open(p))
old=m.get('verified_by_coordinator',{}) if isinstance(m.get('verified_by_coordinator'),dict) else {}
m['verified_by_coordinator']={'demo_on_unmodified_build_rc':int(r1),'demo_on_modified_build_rc':int(r2),
  'check_run':'VERIF_REPO=<worktree with patch> ./check %s  → VIOLATION (see DESIGN.md 13.5)'%prop,
  'suite':'builder agent ran the full nextest suite before/after (same 21 failures)'}
if 'history' in old: m['verified_by_coordinator']['history']=old['history']
json.dump(m,open(p,'w'),indent=1,ensure_ascii=False)
print(id,'demo unmodified rc',r1,'modified rc',r2)
PY
