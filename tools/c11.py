"""C11 — pipelines and command substitutions move all data, in order, without deadlock.

Three streams of cases, each compared three ways (brush, the Lean model `Model/Pipe.lean`, bash):

* `pipe`  — real pipelines of 2-4 stages run by the brush binary and by bash under a deadline:
            every stage form {external, builtin, function, brace group, subshell, while-read loop} in
            every position, payloads on both sides of the kernel pipe capacity, early-exit readers,
            stage-start orders forced through the `stage_spawned:i` pause points.  The model is run
            twice (flags as brush starts the stages / every stage concurrent = what bash does) and
            predicts completes-or-deadlocks, the output (length + hash) and PIPESTATUS.
* `wait`  — `$?` / PIPESTATUS / pipefail / `!` for stages exiting with given codes (in-process harness).
* `subst` — `$(cmd)` output minus trailing newlines and its status (in-process harness).
* `read`  — k `read`s followed by `cat` on one shared descriptor (in-process harness).
"""
import contextlib
import fcntl
import itertools
import json
import os
import shutil
import signal
import subprocess
import tempfile
import time
import lib
from lib import esc, unesc

BIN = "c11"

# ----------------------------------------------------------------------------------------------
# payloads (same generator in Drv/C11.lean)


MB = {2: bytes([195, 169]), 3: bytes([226, 130, 172]), 4: bytes([240, 159, 152, 128])}   # é € 😀


def payload_fast(n, w, seed):
    """Lines of w bytes, last byte newline.  seed < 100: letters a..y.  seed = 100*m + s (m = 2, 3, 4): each
    line is (line number % m) letters `a` followed by m-byte UTF-8 characters, padded with `x` where a whole
    character no longer fits before the newline (so characters sit at every phase relative to any boundary)."""
    m = seed // 100
    out = bytearray()
    i = 0
    while i < n:
        ln = min(w, n - i)
        q = i // w
        if m == 0:
            line = bytes(97 + (((i + j) * 7 + q * 3 + seed) % 25) for j in range(ln - 1))
        else:
            content = ln - 1
            off = min(q % m, content)
            k = (content - off) // m
            line = b"a" * off + MB[m] * k + b"x" * (content - off - k * m)
        out += line + b"\n"
        i += ln
    return bytes(out)


def hash_bytes(data):
    h = 7
    for b in data:
        h = (h * 31 + b) % 1000000007
    return h


_TR = bytes((b + 1 if 97 <= b <= 121 else b) for b in range(256))

# ----------------------------------------------------------------------------------------------
# stage forms

LOOP = 'while IFS= read -r l; do printf "%s\\n" "$l"; done'
LOOPB = 'while IFS= read -r l; do printf "%s\\n" "$l"; break; done'
PRELUDE = ("fcat() { cat; }; ftr() { tr a-y b-z; }; fhead() { head -n 1; }; floop() { %s; }\n" % LOOP)

# name: (text, class, inline, map, limited ('-' none, 'L' first line, '0' zero), emit, sigpipe in brush, where)
# where: 'any' | 'last' | 'first'
FORMS = {
    "cat":      ("cat", "external", 0, 0, "-", 1, 1, "any"),
    "tr":       ("tr a-y b-z", "external", 0, 1, "-", 1, 1, "any"),
    "head":     ("head -n 1", "external", 0, 0, "L", 1, 1, "any"),
    "evalcat":  ("eval cat", "builtin", 0, 0, "-", 1, 1, "any"),
    "cmdtr":    ("command tr a-y b-z", "builtin", 0, 1, "-", 1, 1, "any"),
    "evalloop": ("eval '%s'" % LOOP, "builtin", 0, 0, "-", 1, 0, "any"),
    "read":     ("IFS= read -r x", "builtin", 0, 0, "L", 0, 1, "last"),
    "colon":    (":", "builtin", 0, 0, "0", 0, 1, "last"),
    "bprintf":  ('printf "%s\\n" "$P"', "builtin", 0, 0, "-", 1, 1, "first"),
    "fcat":     ("fcat", "function", 1, 0, "-", 1, 1, "any"),
    "ftr":      ("ftr", "function", 1, 1, "-", 1, 1, "any"),
    "floop":    ("floop", "function", 1, 0, "-", 1, 1, "any"),
    "fhead":    ("fhead", "function", 1, 0, "L", 1, 1, "any"),
    "gcat":     ("{ cat; }", "brace", 1, 0, "-", 1, 1, "any"),
    "gtr":      ("{ tr a-y b-z; }", "brace", 1, 1, "-", 1, 1, "any"),
    "ghead":    ("{ head -n 1; }", "brace", 1, 0, "L", 1, 1, "any"),
    "gread":    ('{ IFS= read -r x; printf "%s\\n" "$x"; }', "brace", 1, 0, "L", 1, 1, "any"),
    "scat":     ("( cat )", "subshell", 1, 0, "-", 1, 1, "any"),
    "str":      ("( tr a-y b-z )", "subshell", 1, 1, "-", 1, 1, "any"),
    "shead":    ("( head -n 1 )", "subshell", 1, 0, "L", 1, 1, "any"),
    "loop":     (LOOP, "loop", 1, 0, "-", 1, 1, "any"),
    "loopb":    (LOOPB, "loop", 1, 0, "L", 1, 1, "any"),
}
CLASSES = ["external", "builtin", "function", "brace", "subshell", "loop"]
BY_CLASS = {c: [n for n, f in FORMS.items() if f[1] == c] for c in CLASSES}
SLOW = {"loop", "floop", "evalloop", "loopb", "gread"}   # byte-at-a-time readers
READERS = SLOW | {"read"}   # forms built on the `read` builtin


def forms_for(cls, pos, k):
    out = []
    for n in BY_CLASS[cls]:
        where = FORMS[n][7]
        if where == "last" and pos != k - 1:
            continue
        if where == "first" and pos != 0:
            continue
        out.append(n)
    return out


def script_of(stages):
    parts = []
    for i, n in enumerate(stages):
        t = FORMS[n][0]
        if i == 0 and n != "bprintf":
            t += ' < "$F"'
        if i == len(stages) - 1:
            t += ' > "$O"'
        parts.append(t)
    pre = PRELUDE
    if stages[0] == "bprintf":
        pre += 'P=$(cat "$F")\n'
    return pre + " | ".join(parts) + '\necho "$? ${PIPESTATUS[*]}"\n'


def stage_tokens(stages, first_line, brush):
    toks = []
    for n in stages:
        _, _, inline, mp, lim, emit, sigp, _ = FORMS[n]
        l = "-" if lim == "-" else (str(first_line) if lim == "L" else "0")
        toks.append("%d:%d:%s:%d:%d" % (inline if brush else 0, mp, l, emit, sigp if brush else 1))
    return " ".join(toks)


def has_limit(stages):
    return any(FORMS[n][4] != "-" for n in stages)


# ----------------------------------------------------------------------------------------------
# running a shell under a deadline, killing everything it started

def _kill_session(sid):
    for d in os.listdir("/proc"):
        if not d.isdigit():
            continue
        try:
            with open("/proc/%s/stat" % d) as f:
                st = f.read()
            rest = st[st.rindex(")") + 2:].split()
            if int(rest[3]) == sid:          # field 6: session
                os.kill(int(d), signal.SIGKILL)
        except (OSError, ValueError, IndexError):
            pass


def run_deadline(which, script, env, deadline):
    e = dict(lib.BASE_ENV)
    e.update(env)
    cmd = lib.shell_cmd(which, script)
    t0 = time.time()
    p = subprocess.Popen(cmd, env=e, stdin=subprocess.DEVNULL, stdout=subprocess.PIPE, stderr=subprocess.PIPE,
                         start_new_session=True)
    try:
        out, err = p.communicate(timeout=deadline)
        to = False
    except subprocess.TimeoutExpired:
        to = True
        with contextlib.suppress(Exception):
            os.killpg(p.pid, signal.SIGKILL)
        _kill_session(p.pid)
        with contextlib.suppress(Exception):
            out, err = p.communicate(timeout=5)
        out, err = b"", b""
    with contextlib.suppress(Exception):
        os.killpg(p.pid, signal.SIGKILL)
    return {"rc": p.returncode, "out": out.decode("utf-8", "replace"), "err": err.decode("utf-8", "replace")[-400:],
            "timeout": to, "t": time.time() - t0}


def pipe_capacity():
    r, w = os.pipe()
    try:
        return fcntl.fcntl(w, 1032)     # F_GETPIPE_SZ
    finally:
        os.close(r)
        os.close(w)


class Work:
    def __init__(self):
        self.dir = tempfile.mkdtemp(prefix="c11-")
        self.files = {}
        self.n = 0

    def payload_file(self, n, w, seed):
        key = (n, w, seed)
        if key not in self.files:
            data = payload_fast(n, w, seed)
            p = os.path.join(self.dir, "p-%d-%d-%d" % key)
            with open(p, "wb") as f:
                f.write(data)
            first = data.index(b"\n") + 1
            self.files[key] = (p, first, data)
        return self.files[key]

    def fresh(self, tag):
        self.n += 1
        return os.path.join(self.dir, "%s-%d" % (tag, self.n))

    def close(self):
        shutil.rmtree(self.dir, ignore_errors=True)


def parse_status_line(out):
    toks = out.strip().split()
    if not toks or not all(t.isdigit() for t in toks):
        return None, None
    return int(toks[0]), [int(t) for t in toks[1:]]


def run_pipe_shell(work, which, case, deadline, pauses=None):
    path, first, _ = work.payload_file(case["n"], case["w"], case["seed"])
    o = work.fresh("o")
    env = {"F": path, "O": o}
    if pauses:
        env["BRUSH_VERIF_PAUSES"] = pauses
    r = run_deadline(which, script_of(case["stages"]), env, deadline)
    res = {"timeout": r["timeout"], "t": r["t"], "rc": r["rc"], "err": r["err"]}
    if not r["timeout"]:
        try:
            with open(o, "rb") as f:
                data = f.read()
        except OSError:
            data = b""
        res["len"] = len(data)
        res["hash"] = hash_bytes(data)
        res["st"], res["ps"] = parse_status_line(r["out"])
    with contextlib.suppress(OSError):
        os.unlink(o)
    return res


def parse_model(line):
    """`done 100 123 0,0 | done 100 123 0,0` -> two dicts"""
    out = []
    for part in line.split(" | "):
        t = part.split(" ")
        if len(t) != 4:
            return None
        out.append({"done": t[0] == "done", "len": int(t[1]), "hash": int(t[2]),
                    "ps": [int(x) for x in t[3].split(",")]})
    return out


# ----------------------------------------------------------------------------------------------
# case generation for the pipe stream

def ok_size(n, w):
    # the payload must not end in an empty line (P=$(cat F) would strip two newlines)
    return n == 1 or (n % w) != 1


def gen_pipe_cases(ctx, cap):
    rng = ctx.rng
    small = [1, 63, 4096, 30000]
    below = [cap - 6000]                   # certainly fits whatever the write granularity
    above = [cap + 1, cap + 4000, 4 * cap + 11]
    large = [1 << 20] if ctx.quick else [1 << 20, 4 << 20]
    widths = [64, 100, 7]
    cases = []
    budget = {"big": ctx.size(12, 80), "huge": ctx.size(0, 12)}

    def mk(stages, n, kind):
        if any(FORMS[s_][2] for s_ in stages[:-1]) and cap // 2 < n <= cap:
            # an inline stage that is not last: how much of the pipe is usable depends on the sizes of the
            # individual writes (a write that does not fit the current page starts a new one); at most half
            # the capacity is certain to fit
            n = cap // 2 - 100
        if has_limit(stages) and cap - 6000 < n < (1 << 20):
            # an early-exit reader: with a payload between one pipe and the stages' own buffers the statuses
            # are a matter of timing in bash too; use a payload that decides them
            n = 1 << 20
        if n >= (4 << 20):
            if budget["huge"] <= 0:
                n = 1 << 20
            budget["huge"] -= 1
        if n >= (1 << 20) and not has_limit(stages):
            if budget["big"] <= 0:
                n = 4 * cap + 11
            budget["big"] -= 1
        w = widths[(n + len(stages)) % len(widths)] if n > 1 else 64
        if n >= (1 << 20):
            w = 256 if any(s in SLOW for s in stages) else 64
        while not ok_size(n, w):
            n += 1
        seed = (n + len(cases)) % 23
        if len(cases) % 5 in (1, 2, 3) and n > 1:      # (also through `read`-based stages since fix 71abdb4)
            # multi-byte UTF-8 payload (2-, 3-, 4-byte characters at every phase)
            seed += 100 * (2 + (len(cases) // 5) % 3)
        cases.append({"stages": list(stages), "n": n, "w": w, "seed": seed, "kind": kind})

    # (a) every class in every position, 2 and 3 stages; the form inside a class and the size rotate
    #     deterministically so that the enumeration is seed independent
    idx = 0
    for k in (2, 3):
        for combo in itertools.product(CLASSES, repeat=k):
            stages = []
            for pos, cls in enumerate(combo):
                fs = forms_for(cls, pos, k)
                stages.append(fs[(idx + pos) % len(fs)])
            idx += 1
            sizes = small + below + above + large
            if ctx.quick:
                # two sizes per combination: one not above the capacity, one above
                if k == 2 or idx % 2 == 0:
                    mk(stages, (small + below)[(idx // 2) % 5], "exh%d" % k)
                if k == 2 or idx % 2 == 1:
                    mk(stages, (above + large)[(idx // 2) % 4], "exh%d" % k)
            else:
                for n in (small[idx % 4], below[0], above[idx % 3], large[idx % 2]):
                    mk(stages, n, "exh%d" % k)
    # (b) seeded random, 2-4 stages, any form
    names = list(FORMS)
    for _ in range(ctx.size(60, 500)):
        k = rng.choice([2, 3, 3, 4, 4])
        stages = []
        for pos in range(k):
            while True:
                n_ = rng.choice(names)
                wh = FORMS[n_][7]
                if (wh == "last" and pos != k - 1) or (wh == "first" and pos != 0):
                    continue
                stages.append(n_)
                break
        n = rng.choice(small + below + above + above + large + [rng.randint(1, cap - 6000), rng.randint(cap + 1, 8 * cap)])
        mk(stages, n, "rand")
    return cases


def in_gray_zone(case, cap, first):
    """Outcomes that depend on timing/granularity in bash itself are not generated:
    an early-exit reader whose writers still hold between one pipe and a few buffers of data."""
    return False


# ----------------------------------------------------------------------------------------------

def classify_pipe(ctx, case, cap, bash, brush, impl, spec, label=""):
    """impl/spec: [left-first, right-first] model outcomes with brush's flags / with every stage concurrent."""
    stages = case["stages"]
    what_case = {"stages": stages, "script": script_of(stages), "n": case["n"], "w": case["w"], "seed": case["seed"],
                 "pauses": case.get("pauses"), "brush": {k: brush.get(k) for k in ("timeout", "len", "hash", "st", "ps", "t", "err")},
                 "bash": {k: bash.get(k) for k in ("timeout", "len", "hash", "st", "ps", "t")},
                 "model_brush": impl, "model_concurrent": spec}
    k = len(stages)
    # --- the oracle and the spec model
    if bash["timeout"] or bash.get("ps") is None:
        ctx.oracle_mismatch += 1
        ctx.notes.append("bash did not complete %s" % stages)
        return
    if not (spec[0]["done"] and spec[1]["done"]):
        ctx.violation("the concurrent model deadlocks (contradicts all_concurrent_live)", what_case, kind="correspondence")
        return
    spec_ok = bash["len"] == spec[0]["len"] and bash["hash"] == spec[0]["hash"] and len(bash["ps"]) == k and \
        all(bash["ps"][i] in (spec[0]["ps"][i], spec[1]["ps"][i]) for i in range(k))
    if not spec_ok:
        ctx.oracle_mismatch += 1
        if len(ctx.notes) < 10:
            ctx.notes.append("bash differs from the concurrent model on %s n=%d: bash %s/%s model %s" % (stages, case["n"], bash["len"], bash["ps"], spec))
    det_spec = spec[0]["ps"] == spec[1]["ps"]
    # --- brush
    impl_done = impl[0]["done"] and impl[1]["done"]
    if brush["timeout"]:
        if not impl_done:
            ctx.known_or_violation("inline_stage_blocks_pipeline",
                                   "pipeline does not finish: a compound/function stage that is not last writes more than the pipe holds before its reader is started",
                                   what_case)
        else:
            ctx.violation("pipeline did not finish within the bound (bash did) and the model predicts completion" + label, what_case)
        return
    if brush.get("ps") is None:
        ctx.violation("brush printed no status line" + label, what_case)
        return
    if not impl_done:
        ctx.notes.append("finding_not_reproduced: %s n=%d completed although the model predicts a deadlock" % (stages, case["n"]))
        # the property is then decided directly against bash below
        impl_ps_ok = True
        impl_out_ok = True
    else:
        impl_out_ok = brush["len"] == impl[0]["len"] and brush["hash"] == impl[0]["hash"]
        impl_ps_ok = len(brush["ps"]) == k and all(brush["ps"][i] in (impl[0]["ps"][i], impl[1]["ps"][i]) for i in range(k))
    # the property itself: same bytes as bash, same statuses as bash (where bash's are determined)
    prop_out_ok = brush["len"] == bash["len"] and brush["hash"] == bash["hash"]
    if det_spec:
        prop_ps_ok = brush["ps"] == bash["ps"] and brush["st"] == bash["st"]
    else:
        prop_ps_ok = len(brush["ps"]) == k and all(brush["ps"][i] in (spec[0]["ps"][i], spec[1]["ps"][i], bash["ps"][i]) for i in range(k))
    if not prop_out_ok:
        ctx.violation("pipeline output differs from bash's (bytes lost, duplicated or reordered)" + label, what_case,
                      kind="property")
        return
    if not (impl_out_ok and impl_ps_ok):
        ctx.violation("brush and the pipeline model disagree" + label + ("" if prop_ps_ok else "; PIPESTATUS differs from bash"),
                      what_case, kind="correspondence" if prop_ps_ok else "property")
        return
    if not prop_ps_ok:
        # brush == model, statuses differ from bash: which modelled defect explains it?
        nosig = [i for i, n_ in enumerate(stages) if FORMS[n_][6] == 0]
        if nosig and any(FORMS[n_][4] != "-" for n_ in stages[nosig[0] + 1:]):
            ctx.known_or_violation("epipe_does_not_end_shell_code_stage",
                                   "a stage made of shell code keeps running after its reader left (statuses differ from bash)", what_case)
        else:
            ctx.violation("PIPESTATUS/$? differ from bash" + label, what_case)
        return
    # pipestatus law: $? is the last stage's status (no pipefail here)
    if brush["st"] != brush["ps"][-1]:
        ctx.violation("$? is not the last stage's status" + label, what_case)


def pipe_stream(ctx, work, cap):
    cases = gen_pipe_cases(ctx, cap)
    # corpus
    cdir = os.path.join(lib.ROOT, "corpus", "C11")
    corpus = []
    if os.path.isdir(cdir):
        for f in sorted(os.listdir(cdir)):
            if f.endswith(".json"):
                c = json.load(open(os.path.join(cdir, f)))
                if "stages" in c:
                    c = dict(c)
                    c["kind"] = "corpus"
                    if c["n"] < 0:
                        c["n"] = cap - c["n"]      # "-k" = k bytes above the capacity of this machine
                    corpus.append(c)
    cases = corpus + cases
    # model predictions
    reqs = []
    for c in cases:
        _, first, _ = work.payload_file(c["n"], c["w"], c["seed"])
        c["first"] = first
        head = "C11 pipe %d %d %d %d " % (cap, c["n"], c["w"], c["seed"])
        reqs.append(head + stage_tokens(c["stages"], first, True))
        reqs.append(head + stage_tokens(c["stages"], first, False))
    mouts = lib.run_drv_parallel(reqs, workers=8)
    for i, c in enumerate(cases):
        c["impl"] = parse_model(mouts[2 * i])
        c["spec"] = parse_model(mouts[2 * i + 1])
        if c["impl"] is None or c["spec"] is None:
            ctx.broken.append("driver answered %r / %r for a pipe request" % (mouts[2 * i], mouts[2 * i + 1]))
            return

    def one(c):
        bash = run_pipe_shell(work, "bash", c, 120)
        bound = bash["t"] * 20 + 10
        impl_done = c["impl"][0]["done"] and c["impl"][1]["done"]
        if not impl_done:
            bound = min(bound, bash["t"] * 20 + 2.5)   # a recorded deadlock: do not sit out the full bound
        brush = run_pipe_shell(work, "brush", c, bound)
        tries = 0
        while brush["timeout"] and impl_done and tries < 2:
            # not predicted: make sure it is the pipeline and not the machine (a real hang reproduces)
            tries += 1
            time.sleep(1 + tries)
            bash = run_pipe_shell(work, "bash", c, 120)
            brush = run_pipe_shell(work, "brush", c, bash["t"] * 20 + 10 * (tries + 1))
        return bash, brush

    res = lib.pmap(one, cases, workers=8)
    pause_jobs = []
    for c, (bash, brush) in zip(cases, res):
        impl_done = c["impl"][0]["done"] and c["impl"][1]["done"]
        feats = "+".join(sorted({FORMS[s][1] for s in c["stages"]}))
        ctx.count(("pipe", tuple(c["stages"]), c["n"], c["w"]), nontrivial=c["n"] > 1, bucket="pipe_" + c["kind"])
        ctx.bucket("pipe_size_" + ("le_cap" if c["n"] <= cap else "gt_cap"))
        ctx.bucket("pipe_model_" + ("completes" if impl_done else "deadlocks"))
        ctx.bucket("pipe_payload_" + ("ascii" if c["seed"] < 100 else "utf8_%dbyte" % (c["seed"] // 100)))
        if has_limit(c["stages"]):
            ctx.bucket("pipe_early_exit_reader")
        ctx.impl_validated += 1
        classify_pipe(ctx, c, cap, bash, brush, c["impl"], c["spec"])
        if impl_done and not brush["timeout"]:
            pause_jobs.append((c, bash))
    ctx.sample({"pipe": cases[len(cases) // 2]["stages"], "n": cases[len(cases) // 2]["n"],
                "brush": {k: res[len(cases) // 2][1].get(k) for k in ("timeout", "len", "ps")},
                "model": cases[len(cases) // 2]["impl"][0]})
    # stage-start orders: every single pause point, and all at once, on a sample of completing pipelines
    rng = ctx.rng
    rng.shuffle(pause_jobs)
    pj = []
    for c, bash in pause_jobs[:ctx.size(24, 400)]:
        k = len(c["stages"])
        # a stage made of a shell loop runs one single-command pipeline per simple command, and those hit the
        # pause point `stage_spawned:0` as well: only later indices are usable there
        lo = 1 if any(s_ in SLOW for s_ in c["stages"]) else 0
        confs = ["stage_spawned:%d=60" % i for i in range(lo, k - 1)]
        if k - lo >= 2:
            confs.append(",".join("stage_spawned:%d=30" % i for i in range(lo, k)) + ",cmdsubst_reader_start=30")
        for pz in confs:
            c2 = dict(c)
            c2["pauses"] = pz
            pj.append((c2, bash))

    def onep(j):
        c2, bash = j
        r = run_pipe_shell(work, "brush", c2, bash["t"] * 20 + 10 + 1, pauses=c2["pauses"])
        if r["timeout"]:
            time.sleep(2)
            r = run_pipe_shell(work, "brush", c2, bash["t"] * 20 + 20 + 1, pauses=c2["pauses"])
        return r

    pres = lib.pmap(onep, pj, workers=8)
    for (c2, bash), brush in zip(pj, pres):
        ctx.count(("pause", tuple(c2["stages"]), c2["n"], c2["pauses"]), bucket="pipe_pause_orders")
        ctx.impl_validated += 1
        classify_pipe(ctx, c2, cap, bash, brush, c2["impl"], c2["spec"], label=" (with pause points %s)" % c2["pauses"])
    return cases


# ----------------------------------------------------------------------------------------------
# in-process streams: wait / subst / read

def code_stage(form, code):
    if form == "sub":
        return "(exit %d)" % code
    if form == "ext":
        return "sh -c 'exit %d'" % code
    if form == "fn":
        return "fx %d" % code
    if form == "grp":
        return "{ (exit %d); }" % code
    if form == "eval":
        return "eval '(exit %d)'" % code
    if form == "bi":
        return "true" if code == 0 else "false"
    raise ValueError(form)


CODE_FORMS = ["sub", "ext", "fn", "grp", "eval"]


def gen_wait_cases(ctx):
    rng = ctx.rng
    cases = []
    i = 0
    base = [0, 1, 3]
    for k in (1, 2, 3):
        for codes in itertools.product(base, repeat=k):
            for pf in (0, 1):
                for bang in (0, 1):
                    forms = [CODE_FORMS[(i + j) % len(CODE_FORMS)] for j in range(k)]
                    i += 1
                    cases.append({"pf": pf, "bang": bang, "codes": list(codes), "forms": forms, "kind": "exh"})
    for _ in range(ctx.size(150, 3000)):
        k = rng.randint(2, 4)
        codes = [rng.choice([0, 0, 1, 2, 7, 126, 127, 141, 255]) for _ in range(k)]
        forms = [rng.choice(CODE_FORMS + ["bi"]) for _ in range(k)]
        codes = [(c if f != "bi" else min(c, 1)) for c, f in zip(codes, forms)]
        cases.append({"pf": rng.randint(0, 1), "bang": rng.randint(0, 1), "codes": codes, "forms": forms, "kind": "rand"})
    for c in cases:
        body = " | ".join(code_stage(f, x) for f, x in zip(c["forms"], c["codes"]))
        c["script"] = ("fx() { return $1; }\n" + ("set -o pipefail\n" if c["pf"] else "") + ("! " if c["bang"] else "") + body +
                       '\necho "$? ${PIPESTATUS[*]}" > "$OUT"\n')
        c["req"] = "C11 wait %d %d %s" % (c["pf"], c["bang"], " ".join(map(str, c["codes"])))
    return cases


SUBST_FORMS = [
    ('printf "%s" "$D"', "builtin"),
    ('printf "%s" "$D" | cat', "pipeline"),
    ('{ printf "%s" "$D"; }', "brace"),
    ('fp', "function"),
    ('( printf "%s" "$D" )', "subshell"),
    ('eval \'printf "%s" "$D"\'', "eval"),
    ('cat "$DF"', "external"),
]


def gen_subst_cases(ctx, work, cap):
    rng = ctx.rng
    texts = []
    bodies = ["", "a", "a b", "a\nb", "\na", "a\n\nb", "x" * 70]
    for b in bodies:
        for t in range(0, 4):
            texts.append(b + "\n" * t)
    for n in ([cap - 100, cap + 1, 3 * cap] + ([] if ctx.quick else [1 << 20, 4 << 20])):
        for t in (0, 1, 3):
            texts.append(payload_fast(n, 64, 5).decode().rstrip("\n") + "\n" * t)
    # multi-byte UTF-8: one long line of 2-, 3- or 4-byte characters behind a prefix of 0..m-1 ASCII bytes, so
    # that for every m some character straddles every 4 KiB / 16 KiB / 64 KiB (and power-of-two) offset;
    # sizes from below 4 KiB to several pipe capacities; plus line-structured non-ASCII text
    chars = {2: "\u00e9", 3: "\u20ac", 4: "\U0001F600"}
    mb_sizes = [3000, 5000, 17000, 40000, cap + 5, 3 * cap + 7] + ([] if ctx.quick else [300000, (1 << 20) + 3])
    for m in (2, 3, 4):
        for phase in range(m):
            for n in mb_sizes:
                texts.append("a" * phase + chars[m] * ((n - phase) // m) + "\n" * (phase % 3))
        for n in ([20000, 2 * cap + 1] if ctx.quick else [20000, 2 * cap + 1, 364000]):
            texts.append(payload_fast(n, 64 + m, 100 * m + 1).decode("utf-8"))
    texts.append("caf\u00e9 \u20ac5 \U0001F600\n\u00e9\n\n")
    texts.append("\u00e9")
    for _ in range(ctx.size(60, 1500)):
        k = rng.randint(0, 12)
        texts.append("".join(rng.choice(["a", "b", " ", "\n", "\n", "xyz", "\t", "\u00e9", "\u20ac"]) for _ in range(k)))
    cases = []
    for i, t in enumerate(texts):
        form, fname = SUBST_FORMS[i % len(SUBST_FORMS)]
        code = [0, 0, 3, 141, 255][i % 5]
        df = work.fresh("d")
        with open(df, "w", encoding="utf-8", newline="") as f:
            f.write(t)
        if fname == "external":
            script = "DF=%s\n" % lib_sq(df)
        elif len(t.encode("utf-8")) > 100000:
            script = "DF=%s\n" % lib_sq(df)
            form, fname = 'cat "$DF" | cat', "pipeline"
        else:
            script = "D=%s\n" % lib_sq(t)
        script += 'fp() { printf "%s" "$D"; }\n'
        script += "X=$( %s; exit %d )\n" % (form, code) if code else "X=$( %s )\n" % form
        script += 'st=$?; printf "%s" "$X" > "$OUT"; (exit $st)\n'
        cases.append({"text": t, "code": code, "form": fname, "script": script, "req": "C11 strip " + esc(t), "kind": "subst"})
    return cases


def _first_diff(a, b):
    ab, bb = a.encode("utf-8", "replace"), b.encode("utf-8", "replace")
    for i, (x, y) in enumerate(zip(ab, bb)):
        if x != y:
            return i
    return None if len(ab) == len(bb) else min(len(ab), len(bb))


def lib_sq(s):
    return "'" + s.replace("'", "'\\''") + "'"


def gen_read_cases(ctx, work):
    rng = ctx.rng
    texts = ["", "\n", "a", "a\n", "a\nb", "a\nb\n", "\n\nx\n", "l1\nl2\nl3\nl4\n", "  sp  \n\ttab\nlast"]
    for _ in range(ctx.size(80, 2000)):
        k = rng.randint(0, 6)
        lines = ["".join(rng.choice("abc xyz") for _ in range(rng.randint(0, 9))) for _ in range(k)]
        t = "\n".join(lines)
        if rng.random() < 0.7 and t:
            t += "\n"
        texts.append(t)
    texts += ["caf\u00e9\nz\n", "\u20ac5\n\U0001F600 b\nrest\u00e9\n"]
    cases = []
    i = 0
    for t in texts:
        for k in ([0, 1, 2, 3] if len(texts) < 400 else [rng.randint(0, 4)]):
            via = ["pipe", "file", "herestr-free"][i % 3]
            i += 1
            reads = "".join('IFS= read -r v%d; ' % j for j in range(k))
            shows = "".join('printf "<%%s>" "$v%d"; ' % j for j in range(k))
            group = "{ %s printf 'R['; cat; printf ']'; %s}" % (reads, shows)
            if via == "pipe":
                script = "D=%s\nprintf '%%s' \"$D\" | %s > \"$OUT\"\n" % (lib_sq(t), group)
            else:
                df = work.fresh("r")
                with open(df, "w", encoding="utf-8", newline="") as f:
                    f.write(t)
                if via == "file":
                    script = "%s < %s > \"$OUT\"\n" % (group, lib_sq(df))
                else:
                    script = "exec 7< %s\n%s <&7 > \"$OUT\"\n" % (lib_sq(df), group)
            cases.append({"text": t, "k": k, "via": via, "script": script, "req": "C11 read %d %s" % (k, esc(t)), "kind": "read"})
    return cases


def run_inproc(scripts):
    """c11 harness over all scripts; hung/skipped cases are re-submitted to fresh processes."""
    n = len(scripts)
    outs = [None] * n
    todo = list(range(n))
    rounds = 0
    while todo and rounds < 6:
        rounds += 1
        ok, res, errs = lib.run_vh_parallel(BIN, [esc(scripts[i]) for i in todo], workers=8 if rounds == 1 else 4,
                                            env={"C11_CASE_TIMEOUT_MS": "20000"})
        nxt = []
        for i, r in zip(todo, res):
            if r in ("SKIPPED", "<harness-died>"):
                nxt.append(i)
            else:
                outs[i] = r
        if len(nxt) == len(todo):
            break
        todo = nxt
    outs = [o if o is not None else "HANG" for o in outs]
    # a real hang reproduces; an overloaded machine does not: every HANG is tried again, alone, with a long limit
    for i, o in enumerate(outs):
        if o == "HANG":
            time.sleep(1)
            rc, res, _ = lib.run_vh(BIN, [esc(scripts[i])], env={"C11_CASE_TIMEOUT_MS": "60000"}, timeout=120)
            if res and res[0] not in ("SKIPPED",):
                outs[i] = res[0]
    return outs


def parse_vh(r):
    d = {}
    for t in r.split(" "):
        if "=" in t:
            k, v = t.split("=", 1)
            d[k] = v
    return d


def run_bash_scripts(work, scripts):
    def one(s):
        o = work.fresh("bo")
        r = lib.run_shell("bash", s, env={"OUT": o, "TMPD": work.dir}, timeout=60)
        try:
            with open(o, "rb") as f:
                r["file"] = f.read().decode("utf-8", "replace")
        except OSError:
            r["file"] = ""
        with contextlib.suppress(OSError):
            os.unlink(o)
        return r
    return lib.pmap(one, scripts, workers=8)


BAD_UTF8 = ["a\\xffb", "\\x80", "ab\\xe2\\x82", "\\xc3\\x28 ok\\n\\n"]


def bad_utf8_stream(ctx):
    """`$(cmd)` whose output is not valid UTF-8, through the binaries.  brush today: the reader fails with
    'stream did not contain valid UTF-8' and the whole script is abandoned (deterministic)."""
    for spec in BAD_UTF8:
        script = "x=$(printf '%s'); st=$?; printf '%%s' \"$x\" | od -An -v -tx1 | tr -d ' \\n'; echo \" $st\"" % spec
        b, o = lib.run_both(script, timeout=30)
        ctx.count(("badutf8", spec), bucket="subst_invalid_utf8")
        ctx.impl_validated += 1
        case = {"script": script, "kind": "badutf8", "brush": {"rc": b["rc"], "out": b["out"], "err": b["err"][-200:]},
                "bash": {"rc": o["rc"], "out": o["out"]}}
        if b["timeout"]:
            ctx.violation("command substitution with non-UTF-8 output hangs", case)
        elif b["out"] == o["out"] and b["rc"] == o["rc"]:
            ctx.notes.append("finding_not_reproduced: $(printf '%s') is byte-exact" % spec)
        elif b["out"] == "" and "valid UTF-8" in b["err"]:
            ctx.known_or_violation("cmdsubst_invalid_utf8_aborts",
                                   "$(cmd) whose output is not valid UTF-8 fails with an i/o error and abandons the script", case)
        else:
            ctx.violation("$(cmd) with non-UTF-8 output differs from bash in an unrecorded way", case)


def inproc_streams(ctx, work, cap):
    wc = gen_wait_cases(ctx)
    sc = gen_subst_cases(ctx, work, cap)
    rc = gen_read_cases(ctx, work)
    allc = wc + sc + rc
    vouts = run_inproc([c["script"] for c in allc])
    mouts = lib.run_drv_parallel([c["req"] for c in allc], workers=8)
    bouts = run_bash_scripts(work, [c["script"] for c in allc])
    nv = 0
    for c, v, m, b in zip(allc, vouts, mouts, bouts):
        kind = c["kind"] if c["kind"] in ("subst", "read") else "wait"
        ctx.impl_validated += 1
        small = {k_: (val if not isinstance(val, str) or len(val) < 300 else val[:120] + "...(%d chars)" % len(val)) for k_, val in c.items() if k_ != "req"}
        if v in ("HANG", "PANIC") or v.startswith("bad"):
            ctx.violation("in-process brush %s on a %s case" % (v, kind), small)
            continue
        d = parse_vh(v)
        if kind == "wait":
            ctx.count(("wait", c["pf"], c["bang"], tuple(c["codes"]), tuple(c["forms"])), nontrivial=len(c["codes"]) > 1, bucket="wait_" + c["kind"])
            br = "%s %s" % (unesc(d.get("out", "%")).strip().split(" ")[0] if d.get("out") else "", d.get("ps", "-"))
            file_line = unesc(d.get("out", "%")).strip()          # what the script itself saw
            api = "%s" % d.get("ps", "-")
            mst, mps = m.split(" ")
            brush_seen = file_line.split(" ")
            brush_st = brush_seen[0] if brush_seen else ""
            brush_ps = ",".join(brush_seen[1:])
            bash_seen = b["file"].strip().split(" ")
            bash_st, bash_ps = (bash_seen[0] if bash_seen else ""), ",".join(bash_seen[1:])
            want_ps = ",".join(map(str, c["codes"]))
            # the property, directly: all stages listed, in order; $? as bash
            direct = None
            if brush_ps != want_ps:
                direct = "PIPESTATUS does not list the stages' statuses in order"
            elif (brush_st, brush_ps) != (bash_st, bash_ps):
                direct = "$?/PIPESTATUS differ from bash"
            if (bash_st, bash_ps) != (mst, mps):
                ctx.oracle_mismatch += 1
            if (brush_st, brush_ps) != (mst, mps):
                if nv < 10:
                    nv += 1
                    ctx.violation("status collection: brush and the model disagree" + (": " + direct if direct else ""),
                                  dict(small, brush=file_line, brush_api_pipestatus=api, model=m, bash=b["file"].strip()),
                                  kind="property" if direct else "correspondence")
            elif direct and nv < 10:
                nv += 1
                ctx.violation(direct, dict(small, brush=file_line, model=m, bash=b["file"].strip()))
        elif kind == "subst":
            ctx.count(("subst", c["text"][:200], len(c["text"]), c["code"], c["form"]), nontrivial=c["text"].endswith("\n"), bucket="subst_" + c["form"])
            nb = len(c["text"].encode("utf-8"))
            ctx.bucket("subst_" + ("gt_cap" if nb > cap else "le_cap"))
            if nb != len(c["text"]):
                ctx.bucket("subst_multibyte_" + ("gt_16k" if nb > 16384 else "le_16k"))
            x = unesc(d.get("x", "%"))
            want = c["text"].rstrip("\n")
            mx = unesc(m)
            st = d.get("st")
            direct = None
            if x != want:
                direct = "$(cmd) is not cmd's output minus the trailing newlines"
            elif st != str(c["code"]):
                direct = "$(cmd) lost the command's status"
            elif x != b["file"] or str(b["rc"]) != st:
                direct = "$(cmd) differs from bash"
            if mx != want or b["file"] != want or b["rc"] != c["code"]:
                ctx.oracle_mismatch += 1
            if x != mx:
                if nv < 10:
                    nv += 1
                    ctx.violation("command substitution: brush and the model disagree" + (": " + direct if direct else ""),
                                  dict(small, brush_bytes=len(x.encode("utf-8", "replace")), expected_bytes=len(want.encode("utf-8")),
                                       first_difference_at_byte=_first_diff(x, want), brush_hash=hash_bytes(x.encode("utf-8", "replace")),
                                       expected_hash=hash_bytes(want.encode("utf-8")), st=st),
                                  kind="property" if direct else "correspondence")
            elif direct and nv < 10:
                nv += 1
                ctx.violation(direct, dict(small, brush_len=len(x), st=st, bash_rc=b["rc"], bash_len=len(b["file"])))
        else:
            ctx.count(("read", c["text"], c["k"], c["via"]), nontrivial=c["k"] > 0 and "\n" in c["text"], bucket="read_" + c["via"])
            got = unesc(d.get("out", "%"))
            mt = m.split(" ")
            lines = [unesc(t) for t in mt[:-1]]
            rest = unesc(mt[-1])
            want = "R[" + rest + "]" + "".join("<%s>" % l for l in lines)
            direct = None
            if got != b["file"]:
                direct = "`read` on a shared descriptor consumed something else than bash's (not exactly one line each)"
            if b["file"] != want:
                ctx.oracle_mismatch += 1
            moji = "R[" + rest + "]" + "".join("<%s>" % l.encode("utf-8").decode("latin-1") for l in lines)
            if got != want and got == moji and b["file"] == want:
                # outside the model (it speaks about characters): the line comes back with every byte of a
                # multi-byte character turned into a character of its own
                ctx.known_or_violation("read_decodes_bytes_as_latin1",
                                       "`read` returns non-ASCII input with each byte re-encoded as a Latin-1 character", dict(small, brush=got, bash=b["file"]))
            elif got != want:
                if nv < 10:
                    nv += 1
                    ctx.violation("read: brush and the model disagree" + (": " + direct if direct else ""),
                                  dict(small, brush=got, model=want, bash=b["file"]), kind="property" if direct else "correspondence")
            elif direct and nv < 10:
                nv += 1
                ctx.violation(direct, dict(small, brush=got, bash=b["file"]))
    ctx.sample({"wait": wc[len(wc) // 2]["script"], "brush": vouts[len(wc) // 2], "model": mouts[len(wc) // 2]})
    ctx.sample({"read": rc[len(rc) // 2]["script"], "brush": vouts[len(wc) + len(sc) + len(rc) // 2], "model": mouts[len(wc) + len(sc) + len(rc) // 2]})



# ----------------------------------------------------------------------------------------------
# cstat stream: `$?` / PIPESTATUS after commands whose words contain command substitutions,
# for every (prior `$?`, substitution status) pair

STATUSES = [0, 1, 2, 3, 127, 255]
CSTAT_PRELUDE = ('fx() { return $1; }\n'
                 'gl() { (exit $1); local v=$(exit $2); echo "$3 $? ${PIPESTATUS[*]}"; }\n')


def prior_cmd(form, p):
    """a command that leaves `$?` = p"""
    if form == "bang" and p in (0, 1):
        return "! (exit %d)" % (1 - p)
    if form == "andor":
        return "(exit %d) && true" % p
    if form == "subst":
        return "z0=$(exit %d)" % p
    if form == "fn":
        return "fx %d" % p
    return "(exit %d)" % p


PRIOR_FORMS = ["plain", "bang", "andor", "subst", "fn"]


def subst_text(form, c):
    return {"exit": "$(exit %d)", "out": "$(echo hi; exit %d)", "ext": "$(sh -c 'exit %d')", "fn": "$(fx %d)",
            "tick": "`exit %d`", "quoted": "\"$(exit %d)\""}[form] % c


SUBST_BODY_FORMS = ["exit", "out", "fn", "tick", "quoted", "ext"]

# name: (command template with {S} = the substitution with status c, {S2} = one with status 2, {P} = one with the
#        prior status; model request kind; statuses of the substitutions performed, as a function of (p, c);
#        how the line reports: "plain" | "bang" | "if" | "or")
CARRIERS = [
    ("assign",        "x={S}",                 "a",  lambda p, c: [c],    "plain"),
    ("assign_two_in_word", "x={S2}{S}",        "a",  lambda p, c: [2, c], "plain"),
    ("assign_prior_then", "x={P}{S}",          "a",  lambda p, c: [p, c], "plain"),
    ("assign_two_words", "x={S2} y={S}",       "a",  lambda p, c: [2, c], "plain"),
    ("assign_then_plain", "x={S} y=plain",     "a",  lambda p, c: [c],    "plain"),
    ("assign_plain",  "x=plain$((1+1))",       "a",  lambda p, c: [],     "plain"),
    ("assign_default", "x=${{nope:-{S}}}",     "a",  lambda p, c: [c],    "plain"),
    ("assign_array",  "arr=({S})",             "a",  lambda p, c: [c],    "plain"),
    ("assign_elem",   "arr[1]={S}",            "a",  lambda p, c: [c],    "plain"),
    ("assign_append", "x+={S}",                "a",  lambda p, c: [c],    "plain"),
    ("declare",       "declare x={S}",         "c0", lambda p, c: [c],    "plain"),
    ("export",        "export x={S}",          "c0", lambda p, c: [c],    "plain"),
    ("arg_true",      "true {S}",              "c0", lambda p, c: [c],    "plain"),
    ("arg_false",     "false {S}",             "c1", lambda p, c: [c],    "plain"),
    ("temp_assign",   "x={S} true",            "c0", lambda p, c: [c],    "plain"),
    ("bang_assign",   "! x={S}",               "a",  lambda p, c: [c],    "bang"),
    ("if_assign",     "if x={S}; then echo \"{ID} T\"; else echo \"{ID} F $?\"; fi", "a", lambda p, c: [c], "if"),
    ("or_assign",     "x={S} || echo \"{ID} or $?\"", "a", lambda p, c: [c], "or"),
]


def gen_cstat_lines(ctx):
    """one shell line per (carrier, prior form, p, c); returns list of dicts with the line, its id, the model
    request and how to read the answer"""
    lines = []
    n = 0
    for ci, (name, tmpl, kind, codes, report) in enumerate(CARRIERS):
        for pi, pform in enumerate(PRIOR_FORMS):
            for a, p in enumerate(STATUSES):
                for b, c in enumerate(STATUSES):
                    n += 1
                    ident = "L%d" % n
                    body = SUBST_BODY_FORMS[(n + ci) % len(SUBST_BODY_FORMS)]
                    cmd = tmpl.format(S=subst_text(body, c), S2=subst_text("exit", 2), P=subst_text("exit", p), ID=ident)
                    line = prior_cmd(pform, p) + "; " + cmd
                    if report in ("plain", "bang"):
                        line += '; echo "%s $? ${PIPESTATUS[*]}"' % ident
                    elif report == "or":
                        line += '; echo "%s end"' % ident
                    lines.append({"id": ident, "carrier": name, "prior_form": pform, "p": p, "c": c, "line": line, "report": report,
                                  "req": "C11 cstat %d %s %s" % (p, kind, " ".join(map(str, codes(p, c))))})
    # `local` needs a function; pipelines after an equal status
    for a, p in enumerate(STATUSES):
        for b, c in enumerate(STATUSES):
            n += 1
            lines.append({"id": "L%d" % n, "carrier": "local", "prior_form": "plain", "p": p, "c": c, "report": "plain",
                          "line": "gl %d %d L%d" % (p, c, n), "req": "C11 cstat %d c0 %d" % (p, c)})
            for name, tmpl, want in (("pipe_equal", "(exit {c}) | (exit {c})", [c, c]), ("pipe_assign_first", "x=$(exit {p}) | (exit {c})", [p, c]),
                                     ("pipe_true_last", "(exit {c}) | true", [c, 0])):
                n += 1
                pform = PRIOR_FORMS[(a + b + n) % len(PRIOR_FORMS)]
                lines.append({"id": "L%d" % n, "carrier": name, "prior_form": pform, "p": p, "c": c, "report": "pipe",
                              "line": prior_cmd(pform, p) + "; " + tmpl.format(p=p, c=c) + '; echo "L%d $? ${PIPESTATUS[*]}"' % n,
                              "req": "C11 wait 0 0 " + " ".join(map(str, want))})
    return lines


def expected_report(l, m):
    """the text the line prints, given the model's answer"""
    ident = l["id"]
    if l["report"] == "pipe":
        st, ps = m.split(" ")
        return ["%s %s %s" % (ident, st, ps.replace(",", " "))]
    st = int(m)
    if l["report"] == "plain":
        return ["%s %d %d" % (ident, st, st)]
    if l["report"] == "bang":
        return ["%s %d %d" % (ident, 1 if st == 0 else 0, st)]
    if l["report"] == "if":
        return ["%s T" % ident] if st == 0 else ["%s F %d" % (ident, st)]
    if l["report"] == "or":
        return (["%s or %d" % (ident, st)] if st != 0 else []) + ["%s end" % ident]
    raise ValueError(l["report"])


def cstat_stream(ctx, work):
    lines = gen_cstat_lines(ctx)
    mouts = lib.run_drv_parallel([l["req"] for l in lines], workers=8)
    # batches of lines per script (one shell each for brush in-process and for bash)
    per = 48
    batches = [lines[i:i + per] for i in range(0, len(lines), per)]
    scripts = [CSTAT_PRELUDE + 'exec > "$OUT"\n' + "\n".join(l["line"] for l in bt) + "\n" for bt in batches]
    vouts = run_inproc(scripts)
    bouts = run_bash_scripts(work, scripts)

    def by_id(text):
        d = {}
        for ln in text.split("\n"):
            if ln.startswith("L") and " " in ln:
                d.setdefault(ln.split(" ")[0], []).append(ln)
        return d

    nv = 0
    k = 0
    for bt, v, b in zip(batches, vouts, bouts):
        if v in ("HANG", "PANIC") or v.startswith("bad"):
            ctx.violation("in-process brush %s on a batch of status lines" % v, {"script": CSTAT_PRELUDE + 'exec > "$OUT"\n' + bt[0]["line"] + "\n", "kind": "cstat"})
            k += len(bt)
            continue
        got = by_id(unesc(parse_vh(v).get("out", "%")))
        ref = by_id(b["file"])
        for l in bt:
            m = mouts[k]
            k += 1
            ctx.count(("cstat", l["carrier"], l["prior_form"], l["p"], l["c"]), nontrivial=l["p"] == l["c"] or l["c"] != 0, bucket="cstat_" + l["carrier"])
            if l["p"] == l["c"] and l["c"] != 0:
                ctx.bucket("cstat_prior_equals_substitution_status")
            ctx.impl_validated += 1
            want = expected_report(l, m)
            gb, gr = got.get(l["id"], []), ref.get(l["id"], [])
            if gr != want:
                ctx.oracle_mismatch += 1
            direct = None if gb == gr else "`$?`/PIPESTATUS after `%s` differ from bash (prior $? %d, substitution status %d)" % (l["carrier"], l["p"], l["c"])
            if gb != want or direct:
                if nv < 12:
                    nv += 1
                    case = {"kind": "cstat", "carrier": l["carrier"], "prior_form": l["prior_form"], "prior": l["p"], "substitution_status": l["c"],
                            "script": CSTAT_PRELUDE + 'exec > "$OUT"\n' + l["line"] + "\n", "brush": gb, "bash": gr, "model": want}
                    ctx.violation(direct or "status after a command with substitutions: brush and the model disagree", case,
                                  kind="property" if direct else "correspondence")
    ctx.sample({"cstat": lines[7]["line"], "model": mouts[7]})


# ----------------------------------------------------------------------------------------------
# rsrc stream: consumers sharing one descriptor, over every kind of descriptor source
# (run by the binaries: FIFOs, background writers, inherited stdin)

RS_TEXTS = [
    ("lines4", "l1\nl2\nl3\nl4\n"),
    ("delims", "a:b\nc:d:e\nf\n"),
    ("multibyte", "café\n€5 \U0001F600\nrésté\n"),
    ("long_first", "x" * 1500 + "\n" + "y" * 10 + "\nz\n"),
    ("long_second", "s\n" + "L" * 5000 + "\nend\n"),
    ("many_short", "".join("n%d\n" % i for i in range(400))),
    ("no_final_newline", "a\nbb\nccc"),
    ("blank_lines", "\n\nx\n"),
    ("empty", ""),
]

# name: (ops, fd, special)
RS_CONSUMERS = [
    ("read1", ["l"], 0, None),
    ("read3", ["l", "l", "l"], 0, None),
    ("read_n", ["n3", "l"], 0, None),
    ("read_d", ["d::", "l"], 0, None),
    ("read_u7", ["l", "l"], 7, None),
    ("read_n_u7", ["n2", "n1", "l"], 7, None),
    ("mapfile1", ["m", "l"], 0, None),
    ("loop", None, 0, "loop"),
    ("head1", None, 0, "head"),
]

RS_SOURCES = ["file", "exec_file", "fifo_prefilled", "fifo_external_writer", "fifo_slow_writer", "fifo_exec", "pipe_builtin",
              "pipe_external", "pipe_slow_writer", "heredoc", "herestring", "procsubst", "devstdin_file", "devstdin_pipe",
              "devfd", "stdin_pipe", "stdin_file", "devnull"]
RS_SEEKABLE = {"file", "exec_file", "devstdin_file", "devfd", "stdin_file"}   # `head -n 1` gives back what it over-read only there


def rs_group(cons, sleep_first):
    name, ops, fd, special = cons
    u = " -u 7" if fd == 7 else ""
    pre = "sleep 0.05; " if sleep_first else ""
    if special == "loop":
        body = pre + 'while IFS= read -r l; do printf "got:%s\\n" "$l"; done; printf "end"'
    elif special == "head":
        body = pre + "head -n 1; printf 'R['; cat; printf ']'"
    else:
        parts = []
        for i, o in enumerate(ops):
            if o == "l":
                parts.append("IFS= read -r%s v%d" % (u, i))
            elif o.startswith("n"):
                parts.append("IFS= read -r -n %s%s v%d" % (o[1:], u, i))
            elif o.startswith("d:"):
                parts.append("IFS= read -r -d '%s'%s v%d" % (o[2:], u, i))
            elif o == "m":
                parts.append("mapfile -n 1%s a%d; v%d=${a%d[0]}" % (u, i, i, i))
        shows = "".join('printf "<%%s>" "$v%d"; ' % i for i in range(len(ops)))
        body = pre + "; ".join(parts) + "; printf 'R['; cat%s; printf ']'; %s" % (" <&7" if fd == 7 else "", shows)
    return "{ " + body.rstrip("; ") + "; }", (" 7<&0" if fd == 7 else "")


def rs_script(source, cons, text):
    """-> (script, effective text, stdin mode: None | 'pipe' | 'file')"""
    fifo = source.startswith("fifo")
    g, dup = rs_group(cons, sleep_first=fifo or source == "pipe_external")
    eff = text
    half = len(text) // 2
    # do not cut inside a line's first bytes only: any split point is legal for a byte stream
    d = "D=%s\nD1=%s\nD2=%s\n" % (lib_sq(text), lib_sq(text[:half]), lib_sq(text[half:]))
    stdin = None
    if source == "file":
        sc = '%s < "$DF"%s\n' % (g, dup)
    elif source == "exec_file":
        sc = 'exec 8< "$DF"\n%s <&8%s\n' % (g, dup)
    elif source == "fifo_prefilled":
        sc = 'mkfifo "$FIFO"\nprintf "%%s" "$D" > "$FIFO" &\n%s < "$FIFO"%s\nwait\n' % (g, dup)
    elif source == "fifo_external_writer":
        sc = 'mkfifo "$FIFO"\ncat "$DF" > "$FIFO" &\n%s < "$FIFO"%s\nwait\n' % (g, dup)
    elif source == "fifo_slow_writer":
        sc = 'mkfifo "$FIFO"\n{ printf "%%s" "$D1"; sleep 0.15; printf "%%s" "$D2"; } > "$FIFO" &\n%s < "$FIFO"%s\nwait\n' % (g, dup)
    elif source == "fifo_exec":
        sc = 'mkfifo "$FIFO"\nprintf "%%s" "$D" > "$FIFO" &\nexec 8< "$FIFO"\n%s <&8%s\nwait\n' % (g, dup)
    elif source == "pipe_builtin":
        sc = 'printf "%%s" "$D" | %s%s\n' % (g, dup)
    elif source == "pipe_external":
        sc = 'cat "$DF" | %s%s\n' % (g, dup)
    elif source == "pipe_slow_writer":
        sc = '{ printf "%%s" "$D1"; sleep 0.15; printf "%%s" "$D2"; } | %s%s\n' % (g, dup)
    elif source == "heredoc":
        eff = text if (text == "" or text.endswith("\n")) else text + "\n"
        sc = "%s <<'EOF_C11'%s\n%sEOF_C11\n" % (g, dup, eff)
    elif source == "herestring":
        eff = text + "\n"
        sc = '%s <<< "$D"%s\n' % (g, dup)
    elif source == "procsubst":
        sc = '%s < <(printf "%%s" "$D")%s\n' % (g, dup)
    elif source == "devstdin_file":
        sc = '{ %s < /dev/stdin%s; } < "$DF"\n' % (g, dup)
    elif source == "devstdin_pipe":
        sc = 'printf "%%s" "$D" | { %s < /dev/stdin%s; }\n' % (g, dup)
    elif source == "devfd":
        sc = 'exec 8< "$DF"\n%s < /dev/fd/8%s\n' % (g, dup)
    elif source == "stdin_pipe":
        sc, stdin = "%s%s\n" % (g, dup), "pipe"
    elif source == "stdin_file":
        sc, stdin = "%s%s\n" % (g, dup), "file"
    elif source == "devnull":
        eff = ""
        sc = "%s < /dev/null%s\n" % (g, dup)
    else:
        raise ValueError(source)
    return d + sc, eff, stdin


def rs_request(cons, eff):
    name, ops, fd, special = cons
    if special == "loop":
        ops = ["l"] * (eff.count("\n") + 1)
    elif special == "head":
        ops = ["l"]
    return "C11 rops %s %s" % (esc(eff), " ".join(ops))


def rs_expected(cons, eff, m):
    name, ops, fd, special = cons
    toks = [unesc(t) for t in m.split(" ")]
    vals, rest = toks[:-1], toks[-1]
    if special == "loop":
        n = eff.count("\n")
        return "".join("got:%s\n" % v for v in vals[:n]) + "end"
    if special == "head":
        first = vals[0] + ("\n" if eff.startswith(vals[0] + "\n") else "")
        return first + "R[" + rest + "]"
    return "R[" + rest + "]" + "".join("<%s>" % v for v in vals)


def rs_run(work, which, case, timeout):
    df = work.fresh("rsd")
    with open(df, "w", encoding="utf-8", newline="") as f:
        f.write(case["text"])
    fifo = work.fresh("fifo")
    env = dict(lib.BASE_ENV)
    env.update({"DF": df, "FIFO": fifo})
    cmd = lib.shell_cmd(which, case["script"])
    fin = None
    try:
        if case["stdin"] == "file":
            fin = open(df, "rb")
            sin, data = fin, None
        elif case["stdin"] == "pipe":
            sin, data = subprocess.PIPE, case["text"].encode("utf-8")
        else:
            sin, data = subprocess.DEVNULL, None
        p = subprocess.Popen(cmd, env=env, stdin=sin, stdout=subprocess.PIPE, stderr=subprocess.PIPE, start_new_session=True)
        try:
            out, err = p.communicate(data, timeout=timeout)
            r = {"timeout": False, "rc": p.returncode, "out": out.decode("utf-8", "replace"), "err": err.decode("utf-8", "replace")[-300:]}
        except subprocess.TimeoutExpired:
            with contextlib.suppress(Exception):
                os.killpg(p.pid, signal.SIGKILL)
            _kill_session(p.pid)
            with contextlib.suppress(Exception):
                p.communicate(timeout=5)
            r = {"timeout": True, "rc": -9, "out": "", "err": ""}
            _kill_session(p.pid)
        with contextlib.suppress(Exception):
            os.killpg(p.pid, signal.SIGKILL)      # a background writer that outlived the script (none when it ended normally)
        return r
    finally:
        if fin:
            fin.close()
        for f_ in (df, fifo):
            with contextlib.suppress(OSError):
                os.unlink(f_)


def gen_rs_cases(ctx):
    cases = []
    n = 0
    for si, source in enumerate(RS_SOURCES):
        for ci, cons in enumerate(RS_CONSUMERS):
            if cons[3] == "head" and source not in RS_SEEKABLE:
                continue
            for ti, (tname, text) in enumerate(RS_TEXTS):
                # quick: three texts per (source, consumer), rotating so that every text meets every source and consumer
                if ctx.quick and (ti - si - 2 * ci) % 3 != 0:
                    continue
                n += 1
                script, eff, stdin = rs_script(source, cons, text)
                cases.append({"kind": "rsrc", "source": source, "consumer": cons[0], "text_name": tname, "text": text, "script": script,
                              "stdin": stdin, "eff": eff, "cons": cons, "req": rs_request(cons, eff)})
    return cases


def rsrc_stream(ctx, work):
    cases = gen_rs_cases(ctx)
    mouts = lib.run_drv_parallel([c["req"] for c in cases], workers=8)

    def one(c):
        o = rs_run(work, "bash", c, 20)
        b = rs_run(work, "brush", c, 15)
        if b["timeout"]:            # a FIFO open or a background writer under load? a real hang reproduces
            time.sleep(1)
            b = rs_run(work, "brush", c, 40)
        return b, o

    res = lib.pmap(one, cases, workers=8)
    nv = 0
    for c, m, (b, o) in zip(cases, mouts, res):
        ctx.count(("rsrc", c["source"], c["consumer"], c["text_name"]), nontrivial=c["eff"].count("\n") >= 2, bucket="rsrc_src_" + c["source"])
        ctx.bucket("rsrc_consumer_" + c["consumer"])
        ctx.impl_validated += 1
        want = rs_expected(c["cons"], c["eff"], m)
        small = {"kind": "rsrc", "source": c["source"], "consumer": c["consumer"], "text_name": c["text_name"], "script": c["script"],
                 "stdin": c["stdin"], "text": c["text"] if len(c["text"]) < 300 else c["text"][:100] + "...(%d chars)" % len(c["text"])}
        if o["timeout"]:
            ctx.oracle_mismatch += 1
            continue
        if o["out"] != want:
            ctx.oracle_mismatch += 1
        clip = lambda t: t if len(t) < 400 else t[:150] + "...(%d chars)..." % len(t) + t[-100:]
        if b["timeout"]:
            ctx.violation("consumers of a shared descriptor (%s via %s): brush does not finish, bash does" % (c["consumer"], c["source"]), small)
            continue
        if c["source"] in ("stdin_pipe", "stdin_file") and b["out"] != o["out"] and c["cons"][3] is None:
            # brush's own stdin is a std::io::Stdin (an 8 KiB BufReader): the first `read` pulls in everything that is
            # available, later `read`s are served from that buffer, a command sharing fd 0 finds nothing
            toks = m.split(" ")
            starved = rs_expected(c["cons"], c["eff"], " ".join(toks[:-1] + ["%"]))
            if b["out"] == starved and len(c["eff"].encode("utf-8")) <= 8192:
                ctx.known_or_violation("inherited_stdin_read_ahead",
                                       "`read` on the shell's inherited stdin reads ahead: the command sharing the descriptor afterwards gets nothing",
                                       dict(small, brush=clip(b["out"]), bash=clip(o["out"])))
                continue
        direct = None
        if b["out"] != o["out"]:
            direct = "consumers of a shared descriptor (%s via %s) got other bytes than under bash: something was lost, repeated or over-read" % (c["consumer"], c["source"])
        if (b["out"] != want or direct) and nv < 12:
            nv += 1
            ctx.violation(direct or "read on a shared descriptor: brush and the model disagree",
                          dict(small, brush=clip(b["out"]), bash=clip(o["out"]), model=clip(want), brush_err=b["err"][-200:]),
                          kind="property" if direct else "correspondence")
    ctx.sample({"rsrc": cases[len(cases) // 3]["script"], "brush": res[len(cases) // 3][0]["out"][:200]})

# ----------------------------------------------------------------------------------------------

def run(ctx):
    ok, out = lib.cargo_build([BIN])
    if not ok:
        lib.log(out[-4000:])
        ctx.broken.append("harness c11 does not build against the current tree: " + lib._first_errors(out))
    ctx.proof_stage()
    if not ok:
        return
    cap = pipe_capacity()
    work = Work()
    try:
        pipe_stream(ctx, work, cap)
        inproc_streams(ctx, work, cap)
        cstat_stream(ctx, work)
        rsrc_stream(ctx, work)
        bad_utf8_stream(ctx)
    finally:
        work.close()
    ctx.cov["rule"] = ("pipe: every stage class {external, builtin, function, brace, subshell, while-read} in every position for 2 and 3 "
                       "stages (form within the class and payload size rotate), seeded random 2-4 stage pipelines over all %d forms; payload "
                       "sizes 1 B .. %s around the measured pipe capacity %d; each run by bash (oracle, timed), brush (deadline bash*20+10 s) and "
                       "the model under two extreme schedules; completing pipelines re-run under each stage_spawned pause point; "
                       "cstat: every (prior $?, substitution status) pair over {0,1,2,3,127,255} in 22 carrier forms (assignment-only, several "
                       "substitutions/assignments, declare/export/local, argument, temporary assignment, !/if/||, pipelines), prior status left by "
                       "a plain command, !, an && operand, an earlier substitution or a function; "
                       "rsrc: consumers of one descriptor (read xk, read -n, read -d, read -u, mapfile -n 1, a while-read loop, head -n 1 as control, then cat) "
                       "over every descriptor source (file, exec N<, FIFO by path with prefilled/external/slow writer, FIFO via exec, pipeline pipes, "
                       "here-document, here-string, process substitution, /dev/stdin, /dev/fd/N, inherited stdin pipe/file, /dev/null) and texts with "
                       "lines over 1024 and 4096 bytes, multi-byte characters, no final newline, through the binaries; "
                       "wait/subst/read: exhaustive small + seeded random through the in-process harness; non-trivial = payload > 1 byte / "
                       "more than one stage / text with trailing newline / at least one read of a multi-line text"
                       % (len(FORMS), "1 MiB" if ctx.quick else "4 MiB", cap))
    ctx.assumptions += [
        "the kernel pipe holds %d bytes (F_GETPIPE_SZ measured at run time); payload sizes between capacity-6000 and capacity are not generated "
        "for inline stages (the usable capacity depends on write granularity)" % cap,
        "scheduler fairness, SIGPIPE delivery timing and pipe write atomicity are outside the model; where the model's two extreme schedules give "
        "different statuses (small payload before an early-exit reader) either is accepted",
        "payload bytes are printable ASCII or valid multi-byte UTF-8 (no NUL, no backslash processing: read -r); stages built on `read` get ASCII only "
        "(read decodes bytes as Latin-1, clause read_decodes_bytes_as_latin1)",
    ]


def replay(ctx, rp):
    lib.cargo_build([BIN])
    case = rp["case"]
    cap = pipe_capacity()
    work = Work()
    try:
        if "stages" in case:
            c = {"stages": case["stages"], "n": case["n"], "w": case["w"], "seed": case["seed"]}
            _, first, _ = work.payload_file(c["n"], c["w"], c["seed"])
            head = "C11 pipe %d %d %d %d " % (cap, c["n"], c["w"], c["seed"])
            m = lib.run_drv([head + stage_tokens(c["stages"], first, True), head + stage_tokens(c["stages"], first, False)])
            bash = run_pipe_shell(work, "bash", c, 120)
            brush = run_pipe_shell(work, "brush", c, bash["t"] * 20 + 10, pauses=case.get("pauses"))
            print("script:\n" + script_of(c["stages"]))
            print("payload: %d bytes, lines of %d, seed %d (F=payload file, O=output file)" % (c["n"], c["w"], c["seed"]))
            print("brush: ", {k: brush.get(k) for k in ("timeout", "len", "hash", "st", "ps")})
            print("bash:  ", {k: bash.get(k) for k in ("timeout", "len", "hash", "st", "ps")})
            print("model (as brush starts stages): ", m[0])
            print("model (all stages concurrent):  ", m[1])
            sub = lib.Ctx("C11", "quick", 0)
            sub.known = {}
            classify_pipe(sub, c, cap, bash, brush, parse_model(m[0]), parse_model(m[1]))
            for v in sub.violations:
                print("property on brush:", v["what"])
            return 1 if sub.violations else 0
        if case.get("kind") == "rsrc":
            c = dict(case)
            src = [x for x in RS_TEXTS if x[0] == case["text_name"]]
            c["text"] = src[0][1] if src else case["text"]
            b = rs_run(work, "brush", c, 30)
            o = rs_run(work, "bash", c, 30)
            print("script (DF = file holding the text, FIFO = a fresh path; stdin: %s):\n%s" % (case.get("stdin"), case["script"]))
            print("brush: ", repr(b["out"][:1500]), "TIMEOUT" if b["timeout"] else "")
            print("bash:  ", repr(o["out"][:1500]))
            print("same as bash:", b["out"] == o["out"] and not b["timeout"])
            return 0 if (b["out"] == o["out"] and not b["timeout"]) else 1
        if "script" in case:
            v = run_inproc([case["script"]])
            b = run_bash_scripts(work, [case["script"]])
            print("script:\n" + case["script"])
            print("brush (in-process): ", v[0][:2000])
            print("bash: rc=%s file=%r" % (b[0]["rc"], b[0]["file"][:2000]))
            d = parse_vh(v[0])
            same = unesc(d.get("out", "%")) == b[0]["file"] if case.get("kind") != "subst" else unesc(d.get("x", "%")) == b[0]["file"]
            print("same as bash:", same)
            return 0 if same else 1
    finally:
        work.close()
    print(json.dumps(case, indent=1)[:3000])
    return 1
