"""C02 — control flow and exit statuses of compound commands equal bash's."""
import itertools
import json
import os
import random
import lib
import flowgen
import flowcheck
from flowcheck import canon

PROP = "C02"
FEATS_IN = ()                                   # inside the domain guard
FEATS_OUT = ("badlevels", "wildbreak", "wildreturn")


def small_programs():
    """exhaustive: every program `<loop> { a ; <jump> ; b }` family and small combinations (seed-independent)"""
    L = lambda i, c: ("L", i, [c])
    out = []
    jumps = [("B", None), ("B", 1), ("B", 2), ("Co", None), ("Co", 1), ("Co", 2), ("X", 3), ("X", None), ("P",)]
    wraps = [lambda c: c, lambda c: ("Gr", c), lambda c: ("Su", c), lambda c: ("N", c),
             lambda c: ("I", L(90, 0), c), lambda c: ("J", L(90, 1), L(91, 0), c),
             lambda c: ("C", [(True, c, "x")]), lambda c: ("C", [(True, L(92, 0), "f"), (False, c, "c"), (True, L(93, 1), "x")]),
             lambda c: ("A", L(94, 0), [(True, c)]), lambda c: ("A", L(94, 1), [(False, c)]),
             lambda c: ("A", L(94, 1), [(True, c), (False, L(95, 0))])]
    loops = [lambda b: ("F", 2, b), lambda b: ("G", 2, b), lambda b: ("W", ("L", 80, [0, 0, 1]), b),
             lambda b: ("U", ("L", 80, [1, 1, 0]), b)]
    for lo, li in itertools.product(loops, loops):
        for j in jumps:
            for w in wraps:
                inner = ("S", [L(1, 0), w(j), L(2, 1)])
                prog = ("S", [lo(("S", [L(3, 0), li(inner), L(4, 2)])), ("P",)])
                out.append(([], prog))
    # functions: return at every position, nested calls
    for code in (None, 0, 3, 256 + 7):
        for w in wraps:
            body = ("S", [L(1, 1), w(("R", code)), L(2, 0)])
            out.append(([body], ("S", [("K", 0), ("P",), ("F", 2, ("K", 0)), ("P",)])))
            out.append(([("S", [("K", 1), ("P",)]), body], ("S", [("K", 0), ("P",)])))
    return out


def run(ctx):
    ok, out = lib.cargo_build([])
    if not ok:
        lib.log(out[-3000:])
        ctx.broken.append("brush does not build from the current tree: " + lib._first_errors(out))
    ctx.proof_stage()
    if not ok:
        return
    cases = []  # (tag, prog, raw_esac)
    cdir = os.path.join(lib.ROOT, "corpus", PROP)
    if os.path.isdir(cdir):
        for f in sorted(os.listdir(cdir)):
            if f.endswith(".json"):
                for rec in json.load(open(os.path.join(cdir, f))):
                    cases.append(("corpus", _untuple(rec["prog"]), rec.get("raw_esac", False)))
    for p in small_programs():
        cases.append(("exh", p, False))
    rng = ctx.rng
    n_in = ctx.size(1100, 20000)
    n_out = ctx.size(250, 4000)
    for i in range(n_in + n_out):
        feats = FEATS_IN if i < n_in else FEATS_OUT
        g = flowgen.Gen(random.Random(rng.getrandbits(48)), feats, budget=rng.choice([4, 6, 10, 14, 20]))
        p = g.program(rng.choice([2, 3, 3, 4]))
        cases.append(("rand-in" if i < n_in else "rand-out", p, rng.random() < 0.5))

    scripts, res = flowcheck.decide(ctx, cases, "C02", fd3=False)
    ctx.sample({"script": scripts[len(scripts) // 2], "brush": canon(res[len(scripts) // 2][0])})
    ctx.sample({"script": scripts[-1], "brush": canon(res[-1][0])})
    ctx.cov["rule"] = ("programs from the typed control-flow grammar (flowgen.py): an exhaustive family of two nested loops x "
                       "jump x wrapper, plus seeded random programs (inside and outside the scope guard), scripted leaves; "
                       "observables: stdout trace of markers and `$?` probes + exit status, brush vs bash vs both Lean models; "
                       "non-trivial = at least 3 distinct construct kinds")
    ctx.assumptions += ["bash 5.2.15 is the oracle; the Lean bash-reference semantics (Spec/FlowBash.lean) is validated against it "
                        "on every case (oracle_mismatch counts disagreements)",
                        "leaf commands are the shell function L (uses local/eval/shift/return), assumed to behave alike in both shells"]


def _untuple(x):
    if isinstance(x, list) and x and isinstance(x[0], str) and x[0] in (
            "L", "P", "S", "A", "N", "I", "J", "W", "U", "F", "G", "C", "Gr", "Su", "K", "B", "Co", "R", "X", "O", "Cs", "Ev"):
        k = x[0]
        if k == "L":
            return ("L", x[1], list(x[2]))
        if k == "S":
            return ("S", [_untuple(y) for y in x[1]])
        if k == "A":
            return ("A", _untuple(x[1]), [(bool(a), _untuple(c)) for a, c in x[2]])
        if k == "C":
            return ("C", [(bool(m), _untuple(bd), t) for m, bd, t in x[1]])
        return tuple([k] + [_untuple(y) for y in x[1:]])
    return x


def replay(ctx, rp):
    lib.cargo_build([])
    case = rp["case"]
    s = case["script"]
    b, o = lib.run_both(s, timeout=20)
    print(s)
    print("brush:", canon(b), b["err"][-200:])
    print("bash: ", canon(o))
    if "wire" in case:
        print("model:", lib.run_drv(["C02 " + case["wire"]])[0])
    return 0 if canon(b) == canon(o) else 1
