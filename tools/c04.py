"""C04 — quoted expansions arrive byte-exact: never re-split, re-globbed or re-parsed.

Two legs:
  A. in-process: brush's real expander (`harness/src/bin/c04.rs`) against the Lean model (`Model/Expand.lean`)
     on word templates x values x IFS x glob options x a scratch directory; on the quoted templates the
     property itself (result == the original strings) is evaluated on brush's output.
  B. end to end: the brush binary runs scripts that deliver each value (received through the process
     environment, so no shell syntax is involved in getting it in) through every expansion context and print
     NUL-delimited records; the records must be the original strings.  bash runs the same scripts (sanity oracle).
"""
import itertools
import json
import os
import shutil
import subprocess
import tempfile
import lib
from lib import esc, unesc

WORKERS = int(os.environ.get("VERIF_WORKERS") or lib.NCPU)

PROP = "C04"
BIN = "c04"

ALPHA = [' ', '\t', '\n', '*', '?', '[', ']', '{', '}', ',', '~', "'", '"', '$', '`', '\\', '!', '-',
         'é', '日', 'a', ':', 'x']
EXTRA = ['.', '/', '(', ')', '|', '@', '+', '#', '=', '%', '^', '&', ';', '<', '>', 'b', '0', 'A', '\r', '\x01', '\x7f', 'ß', '🙂']
DIRNAMES = ['a', 'x', 'aa', 'ax', 'a:x', '*', '?', '[', ']', '[a]', '{a,x}', '{', '}', ',', '~', "'", '"', '$', '`', '\\',
            '!', '-', 'é', '日', 'a b', ' ', '\t', '.h', '.*', '$x', 'a*', '\\*', '-a', '!a', 'é日', '*a', '?a', "a'", 'xa', ':']
IFSES = [("dflt", None), ("empty", ""), ("colon", ":"), ("x", "x")]
OPTSETS = ["e", "en", "ef", "ed", "E", "eg", "End", "efd"]


def opt_flags(o):
    return {"nullglob": "n" in o, "failglob": "f" in o, "dotglob": "d" in o, "extglob": "e" in o, "noglob": "g" in o}


def ifs_first(ifs):
    s = " \t\n" if ifs is None else ifs
    return s[0] if s else ""


def glue_at(p, item, s):
    """bash's "p$@s" for the positional list `item`"""
    if not item:
        return [p + s] if (p + s) else []
    out = list(item)
    out[0] = p + out[0]
    out[-1] = out[-1] + s
    return out


def lit_then_star(x, o, names):
    """expected result of  "$x"*  : the value is literal, only the star is a pattern"""
    fl = opt_flags(o)
    if fl["noglob"]:
        return [x + "*"]
    allow_dot = fl["dotglob"] or x.startswith(".")
    m = sorted(n for n in names if n.startswith(x) and (allow_dot or not n.startswith(".")))
    if m:
        return m
    if fl["failglob"]:
        return None
    return [] if fl["nullglob"] else [x + "*"]


def star_then_lit(x, o, names):
    fl = opt_flags(o)
    if fl["noglob"]:
        return ["*" + x]
    m = sorted(n for n in names if n.endswith(x) and (fl["dotglob"] or not n.startswith(".")))
    if m:
        return m
    if fl["failglob"]:
        return None
    return [] if fl["nullglob"] else ["*" + x]


def bracket_members(x, o, names):
    """expected result of  [a"$x"]  : a bracket expression whose members are `a` and the characters of the value"""
    fl = opt_flags(o)
    if fl["noglob"]:
        return ["[a" + x + "]"]
    m = sorted(n for n in names if len(n) == 1 and (n == "a" or n in x) and n != ".")
    if m:
        return m
    if fl["failglob"]:
        return None
    return [] if fl["nullglob"] else ["[a" + x + "]"]


GLOBCH = set("*?[]()|!+@\\")


def trim_nl(s):
    return s.rstrip("\n")


# name, shell text, model tokens, mode, kind, expectation(item, ifs, opts, names) -> list | None(ERR) ; kind:
#   'q'  every expansion is quoted: intrinsic predicate = expectation
#   'm'  quoted value next to an unquoted glob: expectation computed independently (value literal)
#   'c'  correspondence only (brush == model)
#   'l'  literal text next to an unquoted value: brush == model, and the literal text is not field-split
#   'u'  unquoted: brush == model, plus the weak predicate "every word is a directory entry or a piece of the value"
TEMPLATES = [
    ("dq_x", '"$x"', ["D(", "Vx", "D)"], "w", "q", lambda it, i, o, n: [it[0]]),
    ("dq_xb", '"${x}"', ["D(", "Vx", "D)"], "w", "q", lambda it, i, o, n: [it[0]]),
    ("dq_cmd", '"$(printf %s "$x")"', ["D(", "Yx", "D)"], "w", "q", lambda it, i, o, n: [trim_nl(it[0])]),
    ("dq_xx", '"$x$x"', ["D(", "Vx", "Vx", "D)"], "w", "q", lambda it, i, o, n: [it[0] * 2]),
    ("dq_affix", '"-$x *"', ["D(", "T-", "Vx", "T *", "D)"], "w", "q", lambda it, i, o, n: ["-" + it[0] + " *"]),
    ("sq_dq", "'[a'\"$x\"", ["Q[a", "D(", "Vx", "D)"], "w", "q", lambda it, i, o, n: ["[a" + it[0]]),
    ("esc_dq", '\\*"$x"\\?', ["E*", "D(", "Vx", "D)", "E?"], "w", "q", lambda it, i, o, n: ["*" + it[0] + "?"]),
    ("dq_dflt", '"${u:-$x}"', ["D(", "O-:", "Vu", "Vx", "O)", "D)"], "w", "q", lambda it, i, o, n: [it[0]]),
    ("dflt_dq", '${u:-"$x"}', ["O-:", "Vu", "D(", "Vx", "D)", "O)"], "w", "q", lambda it, i, o, n: [it[0]]),
    ("dq_alt", '"${x:+$x}"', ["D(", "O+:", "Vx", "Vx", "O)", "D)"], "w", "q", lambda it, i, o, n: [it[0]]),
    ("s_x", '$x', ["Ks", "Vx"], "s", "q", lambda it, i, o, n: [it[0]]),
    ("s_dq", '"$x"', ["Ks", "D(", "Vx", "D)"], "s", "q", lambda it, i, o, n: [it[0]]),
    ("s_mix", 'a$x"$x"', ["Ks", "Ta", "Vx", "D(", "Vx", "D)"], "s", "q", lambda it, i, o, n: ["a" + it[0] * 2]),
    ("lit_star", '"$x"*', ["D(", "Vx", "D)", "T*"], "w", "m", lambda it, i, o, n: lit_then_star(it[0], o, n)),
    ("star_lit", '*"$x"', ["T*", "D(", "Vx", "D)"], "w", "m", lambda it, i, o, n: star_then_lit(it[0], o, n)),
    # the quoted value inside a bracket expression that is otherwise unquoted: its characters are literal members
    ("br_lit", '[a"$x"]', ["T[a", "D(", "Vx", "D)", "T]"], "w", "m", lambda it, i, o, n: bracket_members(it[0], o, n)),
    # literal text next to an unquoted expansion: kind 'l' = brush == model, and the literal prefix stays in one piece
    ("uq_lit", 'a:x$x', ["Ta:x", "Vx"], "w", "l", None),
    ("uq_x", '$x', ["Vx"], "w", "u", None),
    ("uq_xb", 'a${x}', ["Ta", "Vx"], "w", "u", None),
    ("uq_cmd", '$(printf %s "$x")', ["Yx"], "w", "u", None),
]
LIST_TEMPLATES = [
    ("dq_at", '"$@"', ["D(", "X@", "D)"], "w", "q", lambda it, i, o, n: list(it)),
    ("dq_arr", '"${k[@]}"', ["D(", "A@k", "D)"], "w", "q", lambda it, i, o, n: list(it)),
    ("dq_at_affix", '"p$@ s"', ["D(", "Tp", "X@", "T s", "D)"], "w", "q", lambda it, i, o, n: glue_at("p", it, " s")),
    ("dq_arr_affix", '"${k[@]}"\'*\'', ["D(", "A@k", "D)", "Q*"], "w", "q", lambda it, i, o, n: glue_at("", it, "*")),
    ("at_at", '"$@""$@"', ["D(", "X@", "D)", "D(", "X@", "D)"], "w", "q",
     lambda it, i, o, n: (list(it[:-1]) + [it[-1] + it[0]] + list(it[1:])) if it else []),
    ("dq_star", '"$*"', ["D(", "X*", "D)"], "w", "c", None),   # correspondence only; "$*" belongs to C05
    ("uq_at", '$@', ["X@"], "w", "u", None),
    ("uq_arr", '${k[@]}', ["A@k"], "w", "u", None),
]


def item_fields(item):
    if not item:
        return ["z"]
    return [esc("m" + item[0])] + [esc("+" + s) for s in item[1:]]


def make_line(dirpath, names, ifs, opts, tmpl, items):
    name, text, toks, mode, kind, exp = tmpl
    f = [esc("d" + dirpath)]
    if ifs is not None:
        f.append(esc("i" + ifs))
    f.append(esc("o" + opts))
    f += [esc("n" + n) for n in names]
    for it in items:
        f += item_fields(it)
    f += [esc(t) for t in toks]
    f.append(esc(mode + text))
    return " ".join(f)


def parse_res(r):
    """'OK a b' -> ['a','b'] ; 'ERR' -> None ; anything else -> the raw string"""
    r = r.strip()
    unmod = False
    if r.endswith(" ;U"):
        r, unmod = r[:-3], True
    if r == "ERR":
        return None, unmod
    if r == "OK" or r.startswith("OK "):
        return [unesc(t) for t in r.split(" ")[1:] if t != ""], unmod
    return r, unmod


def substrings_ok(words, item, names):
    nm = set(names)
    return all(w in nm or any(w in "a" + s for s in item) for w in words)


def values_upto(n):
    out = [""]
    for k in range(1, n + 1):
        out += ["".join(t) for t in itertools.product(ALPHA, repeat=k)]
    return out


def rand_value(rng, maxlen=40):
    k = rng.randint(1, maxlen)
    pool = ALPHA * 2 + EXTRA
    return "".join(rng.choice(pool) for _ in range(k)).replace("\x00", "")


def make_dir(root, names):
    os.makedirs(root, exist_ok=True)
    for n in names:
        with open(os.path.join(root, n), "w"):
            pass
    return root


# ------------------------------------------------------------------------------------------------
# leg A

def leg_a(ctx, root, jobs, tag):
    """jobs: list of (tmpl, ifsname, ifs, opts, items). Runs harness + model, classifies."""
    # the model's directory is one level deep: where the value can act as a glob pattern it must not hold '/'
    jobs = [(t, n, i, o, items if t[4] == "q" else [[s.replace("/", "") for s in it] for it in items])
            for (t, n, i, o, items) in jobs]
    lines = [make_line(root, DIRNAMES, ifs, o, t, items) for (t, _, ifs, o, items) in jobs]
    okh, bouts, errs = lib.run_vh_parallel(BIN, lines, workers=WORKERS)
    if not okh:
        ctx.broken.append("harness c04 died: " + errs[:500])
    mouts = lib.run_drv_parallel(["C04 " + l for l in lines], workers=WORKERS)
    nv = 0
    for (t, ifsname, ifs, o, items), b, m in zip(jobs, bouts, mouts):
        name, text, toks, mode, kind, exp = t
        bs, ms = b.split(" %| "), m.split(" %| ")
        if len(bs) != len(items) or len(ms) != len(items):
            ctx.violation("malformed harness/driver response", {"template": name, "brush": b[:300], "model": m[:300]},
                          kind="correspondence")
            continue
        for it, br, mr in zip(items, bs, ms):
            bv, _ = parse_res(br)
            mv, unmod = parse_res(mr)
            case = {"leg": "A", "template": name, "word": text, "tokens": toks, "mode": mode, "ifs": ifs, "opts": o,
                    "item": list(it)}
            ctx.count((name, ifsname, o, tuple(it)), nontrivial=any(len(s) > 0 for s in it) or not it,
                      bucket="A:%s:%s" % (tag, kind))
            ctx.impl_validated += 1
            why = None
            if bv == "PANIC":
                why = "brush panicked"
            elif kind in ("q", "m"):
                want = exp(it, ifs, o, DIRNAMES)
                if bv != want:
                    why = "quoted expansion did not deliver the original string(s): got %r, want %r" % (bv, want)
            elif kind == "l":
                # literal script text is never field-split (only the expansion's value is)
                globby = not opt_flags(o)["noglob"] and any(c in GLOBCH for c in it[0])
                if isinstance(bv, list) and not globby and not (bv and bv[0].startswith("a:x")):
                    lw = "literal text `a:x` next to $x was cut by field splitting: %r" % (bv,)
                    if bv == mv and ifs in (":", "x"):
                        ctx.known_or_violation("literal_text_split_by_ifs", lw, dict(case, brush=bv))
                        continue
                    why = lw
            elif kind == "u":
                if isinstance(bv, list) and not substrings_ok(bv, it, DIRNAMES + ["a"]):
                    why = "unquoted expansion produced a word that is neither a piece of the value nor a directory entry: %r" % (bv,)
            if bv != mv and not unmod:
                if nv < 25:
                    nv += 1
                    ctx.violation("expansion model and brush disagree" + (": " + why if why else ""),
                                  dict(case, brush=bv, model=mv), kind="property" if why else "correspondence")
            elif why:
                if nv < 25:
                    nv += 1
                    ctx.violation(why, dict(case, brush=bv, model=mv))
    return bouts


# ------------------------------------------------------------------------------------------------
# leg B

CONTEXTS = ["argument", "argument-braces", "assignment", "assignment-dq", "array-element", "positional", "cmdsubst",
            "case-word", "case-word-neg", "cond-eq", "cond-eq-neg", "cond-regex", "here-string", "here-string-unquoted"]


def script_for(vals, ifs, o, nonce):
    fl = opt_flags(o)
    L = ["shopt -%s extglob" % ("s" if fl["extglob"] else "u")]
    for k, nm in (("nullglob", "nullglob"), ("failglob", "failglob"), ("dotglob", "dotglob")):
        if fl[k]:
            L.append("shopt -s " + nm)
    if fl["noglob"]:
        L.append("set -f")
    if ifs is not None:
        L.append("IFS=" + lib_sq(ifs))
    for j in range(len(vals)):
        v = "V%d" % j
        L += [
            "printf '%%s\\0' '=MARK-%s-%d='" % (nonce, j),
            'printf \'%%s\\0\' "$%s"' % v,
            'printf \'%%s\\0\' "${%s}"' % v,
            'y=$%s; printf \'%%s\\0\' "$y"' % v,
            'y="$%s"; printf \'%%s\\0\' "$y"' % v,
            'r=("$%s" "${%s}"); printf \'%%s\\0\' "${#r[@]}" "${r[@]}"' % (v, v),
            'set -- "$%s" "$%s"; printf \'%%s\\0\' "$#" "$@"' % (v, v),
            'printf \'%%s\\0\' "$(printf %%s "$%s")"' % v,
            'case $%s in "$%s") printf \'M\\0\';; *) printf \'N\\0\';; esac' % (v, v),
            'case "x$%s" in "$%s") printf \'M\\0\';; *) printf \'N\\0\';; esac' % (v, v),
            '[[ $%s == "$%s" ]] && printf \'M\\0\' || printf \'N\\0\'' % (v, v),
            '[[ x$%s == "$%s" ]] && printf \'M\\0\' || printf \'N\\0\'' % (v, v),
            '[[ $%s =~ "$%s" ]] && printf \'M\\0\' || printf \'N\\0\'' % (v, v),
            # (not `read`: brush's `read` decodes multi-byte input byte by byte — a defect of that builtin, not of expansion)
            'mapfile -d \'\' r <<<"$%s"; printf \'%%s\\0\' "${r[@]}"' % v,
            'mapfile -d \'\' r <<<$%s; printf \'%%s\\0\' "${r[@]}"' % v,
        ]
    return "\n".join(L) + "\n"


def lib_sq(s):
    return "'" + s.replace("'", "'\\''") + "'"


def expected_records(v):
    return [("argument", [v]), ("argument-braces", [v]), ("assignment", [v]), ("assignment-dq", [v]),
            ("array-element", ["2", v, v]), ("positional", ["2", v, v]), ("cmdsubst", [trim_nl(v)]),
            ("case-word", ["M"]), ("case-word-neg", ["N"]), ("cond-eq", ["M"]), ("cond-eq-neg", ["N"]),
            ("cond-regex", ["M"]), ("here-string", [v + "\n"]), ("here-string-unquoted", [v + "\n"])]


def run_script(which, script, vals, cwd):
    env = dict(lib.BASE_ENV)
    for j, v in enumerate(vals):
        env["V%d" % j] = v
    cmd = lib.shell_cmd(which, script)
    try:
        p = lib.sp_run(cmd, cwd=cwd, env={k: v.encode("utf-8", "surrogateescape") for k, v in env.items()},
                           stdin=subprocess.DEVNULL, stdout=subprocess.PIPE, stderr=subprocess.PIPE, timeout=120)
        return p.returncode, p.stdout, p.stderr.decode("utf-8", "replace")
    except subprocess.TimeoutExpired:
        return -9, b"", "timeout"


def split_records(out, nonce, n):
    """stdout -> per value list of records (strings), or None when the marker is missing"""
    recs = out.split(b"\0")
    if recs and recs[-1] == b"":
        recs.pop()
    res = [None] * n
    cur = None
    for r in recs:
        s = r.decode("utf-8", "replace")
        if s.startswith("=MARK-%s-" % nonce) and s.endswith("="):
            try:
                cur = int(s[len("=MARK-%s-" % nonce):-1])
                res[cur] = []
                continue
            except ValueError:
                pass
        if cur is not None:
            res[cur].append(s)
    return res


def judge_records(got, v):
    """-> list of (context, got, want) that fail"""
    bad = []
    exp = expected_records(v)
    flat = [x for _, w in exp for x in w]
    if got is None:
        return [("marker", None, flat)]
    if got == flat:
        return []
    i = 0
    for cx, want in exp:
        g = got[i:i + len(want)]
        if g != want:
            bad.append((cx, g, want))
            break       # after the first failing context the framing is unreliable
        i += len(want)
    if not bad:
        bad.append(("extra-output", got[len(flat):], []))
    return bad


def leg_b(ctx, root, batches, tag):
    """batches: list of (vals, ifsname, ifs, opts)"""
    def one(bt):
        vals, ifsname, ifs, o = bt
        nonce = "%08x" % (hash((tuple(vals), ifsname, o)) & 0xffffffff)
        sc = script_for(vals, ifs, o, nonce)
        rb = run_script("brush", sc, vals, root)
        ro = run_script("bash", sc, vals, root)
        return nonce, sc, rb, ro
    res = lib.pmap(one, batches, workers=WORKERS)
    nv = 0
    for (vals, ifsname, ifs, o), (nonce, sc, rb, ro) in zip(batches, res):
        gb = split_records(rb[1], nonce, len(vals))
        go = split_records(ro[1], nonce, len(vals))
        for j, v in enumerate(vals):
            bad_b = judge_records(gb[j], v)
            bad_o = judge_records(go[j], v)
            ctx.count(("B", ifsname, o, v), nontrivial=len(v) > 0, bucket="B:%s" % tag)
            ctx.impl_validated += 1
            if bad_o:
                ctx.oracle_mismatch += 1
                if len(ctx.notes) < 5:
                    ctx.notes.append("bash itself fails the expectation: %r %r" % (v, bad_o[:1]))
            if not bad_b:
                continue
            cx, g, want = bad_b[0]
            case = {"leg": "B", "value": v, "ifs": ifs, "opts": o, "context": cx, "brush": g, "want": want,
                    "bash_ok": not bad_o}
            clause = classify_b(cx, v, g, want)
            what = "context %s did not deliver the original string: got %r, want %r" % (cx, g, want)
            if clause:
                ctx.known_or_violation(clause, what, case)
            elif bad_o and bad_o[0] == bad_b[0]:
                # bash shows the very same output: the expectation is wrong, not brush
                continue
            elif nv < 25:
                nv += 1
                ctx.violation(what, case)


def classify_b(cx, v, got, want):
    return None


def leg_redirect(ctx, vals, tag):
    """redirection target: `: > "$Vj"` must create a file named exactly v"""
    vals = [v for v in dict.fromkeys(vals) if v and "/" not in v and v not in (".", "..") and len(v.encode()) < 200]
    chunks = lib.chunked(vals, max(1, len(vals) // 200 + 1)) if len(vals) > 400 else [vals]

    def one(vs):
        out = {}
        for which in ("brush", "bash"):
            d = tempfile.mkdtemp(prefix="c04-redir-")
            try:
                sc = "\n".join(': > "$V%d"' % j for j in range(len(vs))) + "\n"
                run_script(which, sc, vs, d)
                out[which] = set(os.listdir(d))
            finally:
                shutil.rmtree(d, ignore_errors=True)
        return out
    res = lib.pmap(one, chunks, workers=WORKERS)
    nv = 0
    for vs, r in zip(chunks, res):
        want = set(vs)
        for v in vs:
            ctx.count(("R", v), bucket="B:redirect:%s" % tag)
            ctx.impl_validated += 1
        if r["bash"] != want:
            ctx.oracle_mismatch += 1
        if r["brush"] != want:
            missing = sorted(want - r["brush"])[:3]
            extra = sorted(r["brush"] - want)[:3]
            if nv < 5:
                nv += 1
                ctx.violation("redirection target \"$v\" did not create the file named by the value",
                              {"leg": "R", "values": missing or vs[:3], "missing": missing, "unexpected": extra})



# ------------------------------------------------------------------------------------------------
# leg C: context sweep — a seeded sample of the values, delivered through every expansion form again, but inside
# other execution contexts and under options that must not matter (Props/C04.lean
# `expansion_reads_only_visible_state`: the model's result depends only on what the environment shows).

SWEEP_CONTEXTS = ["top", "func-local", "func2", "func-args", "subshell", "cmdsubst", "eval", "group", "lastpipe",
                  "for-twice", "while", "source", "trap", "literal-prefix"]
SWEEP_OPTIONS = [None, "set -u", "set -f", "set -e", "set -E", "set -T", "set +h", "set -C", "shopt -s extglob",
                 "shopt -s nullglob", "shopt -s dotglob", "shopt -s failglob", "shopt -s nocaseglob",
                 "shopt -s nocasematch", "shopt -s globstar", "shopt -s expand_aliases", "shopt -s lastpipe",
                 "shopt -s inherit_errexit"]


def probe_lines(nm, export=True):
    """every expansion form of the property, on the variable `nm`.  `export=False`: without the two `export` lines —
    under an IFS holding `x` brush cuts the command word `export` itself in two (finding literal_text_split_by_ifs,
    shown narrowly by the `literal-prefix` observation), which would only blur the other records"""
    q = '"$%s"' % nm
    L = [
        "printf '%%s\\0' %s \"${%s}\" \"x${%s}y\"" % (q, nm, nm),
        "y=$%s; printf '%%s\\0' \"$y\"" % nm,
        "a=(%s \"${%s}\"); printf '%%s\\0' \"${#a[@]}\" \"${a[@]}\"" % (q, nm),
        "printf '%%s\\0' \"$(printf %%s %s)\"" % q,
        "case $%s in %s) printf 'M\\0';; *) printf 'N\\0';; esac" % (nm, q),
        "[[ $%s == %s ]] && printf 'M\\0' || printf 'N\\0'" % (nm, q),
        "for zz in %s \"${%s}\"; do printf '%%s\\0' \"$zz\"; done" % (q, nm),
        "export e1=%s; printf '%%s\\0' \"$e1\"" % q,
        "declare d1=%s; printf '%%s\\0' \"$d1\"" % q,
        "declare d2=$%s; printf '%%s\\0' \"$d2\"" % nm,
        "export e3=$%s; printf '%%s\\0' \"$e3\"" % nm,
        "e2=$%s eval 'printf \"%%s\\0\" \"$e2\"'" % nm,
        "mapfile -d '' r <<<%s; printf '%%s\\0' \"${r[@]}\"" % q,
        "mapfile -d '' r <<EOT\n$%s\nEOT\nprintf '%%s\\0' \"${r[@]}\"" % nm,
    ]
    return L if export else [l for l in L if not l.startswith("export ")]


def probe_expected(v, export=True):
    e = [v, v, "x" + v + "y", v, "2", v, v, trim_nl(v), "M", "M", v, v, v, v, v, v, v, v + "\n", v + "\n"]
    return e if export else e[:12] + e[13:15] + e[16:]


def sweep_script(vals, ifs, o, optline, nonce, srcpath):
    fl = opt_flags(o)
    L = ["exec 3>&1", "shopt -%s extglob" % ("s" if fl["extglob"] else "u")]
    for k in ("nullglob", "failglob", "dotglob"):
        if fl[k]:
            L.append("shopt -s " + k)
    if fl["noglob"]:
        L.append("set -f")
    if ifs is not None:
        L.append("IFS=" + lib_sq(ifs))
    ex = not (ifs is not None and "x" in ifs)
    L.append("fp() {\nlocal v=\"$1\"\n" + "\n".join(probe_lines("v", ex)) + "\n}")
    L.append("fq() { local v=other zz=1; fp \"$@\"; }")
    L.append("fa() { local IFS=:; printf '%s\\0' \"$#\" \"$1\" \"$@\" \"$*\"; }")
    if optline:
        L.append(optline)
    obs = []          # (value index, context, expected records)
    trap_body = []

    def mark(j, cx, exp):
        obs.append((j, cx, exp))
        return "printf '%%s\\0' '=MARK-%s-%d='" % (nonce, len(obs) - 1)
    for j, v in enumerate(vals):
        V = "V%d" % j
        e = probe_expected(v, ex)
        L += [mark(j, "top", e)] + probe_lines(V, ex)
        L += ["v=GLOBAL", mark(j, "func-local", e + ["GLOBAL"]), 'fp "$%s"' % V, "printf '%s\\0' \"$v\""]
        L += [mark(j, "func2", e + ["GLOBAL"]), 'fq "$%s"' % V, "printf '%s\\0' \"$v\""]
        L += ["set -- c1 'c 2'", mark(j, "func-args", ["2", v, v, v, v + ":" + v, "2", "c1", "c1", "c 2"]),
              'fa "$%s" "$%s"' % (V, V), "printf '%s\\0' \"$#\" \"$1\" \"$@\""]
        L += [mark(j, "subshell", e), '( fp "$%s" )' % V]
        L += [mark(j, "cmdsubst", e), 'z=$( fp "$%s" >&3 )' % V]
        L += [mark(j, "eval", e + [v, v]), "eval 'fp \"$%s\"; printf \"%%s\\0\" \"$%s\" \"${%s}\"'" % (V, V, V)]
        L += [mark(j, "group", e), '{ fp "$%s"; } 2>/dev/null' % V]
        L += ["shopt -s lastpipe", mark(j, "lastpipe", e), ': | fp "$%s"' % V]
        L += [mark(j, "for-twice", e + e), 'for i in 1 2; do fp "$%s"; done' % V]
        L += [mark(j, "while", e), 'while :; do fp "$%s"; break; done' % V]
        # (the value goes in through a variable: brush's `.` eats a `--` argument — a defect of that builtin's
        # option parsing, not of expansion)
        L += [mark(j, "source", e), 'sv=$%s; . %s' % (V, lib_sq(srcpath))]
        # literal text next to the unquoted value is never field-split (globbing off for this one)
        L += ["set -f", 'set -- a:x$%s' % V, mark(j, "literal-prefix", ["a:x"]), "printf '%s\\0' \"${1:0:3}\""]
        if not fl["noglob"] and optline != "set -f":
            L.append("set +f")
        trap_body += [mark(j, "trap", e), 'fp "$%s"' % V]
    L.append("trap " + lib_sq("\n".join(trap_body)) + " EXIT")
    return "\n".join(L) + "\n", obs


def leg_c(ctx, root, batches, tag):
    """batches: list of (vals, ifsname, ifs, opts, optline)"""
    srcdir = tempfile.mkdtemp(prefix="c04-src-")
    srcpath = os.path.join(srcdir, "probe.sh")
    with open(srcpath, "w") as fh:
        fh.write('fp "$sv"\n')

    def one(bt):
        vals, ifsname, ifs, o, optline = bt
        nonce = "%08x" % (hash((tuple(vals), ifsname, o, optline)) & 0xffffffff)
        sc, obs = sweep_script(vals, ifs, o, optline, nonce, srcpath)
        rb = run_script("brush", sc, vals, root)
        ro = run_script("bash", sc, vals, root)
        return obs, split_records(rb[1], nonce, len(obs)), split_records(ro[1], nonce, len(obs))
    try:
        res = lib.pmap(one, batches, workers=WORKERS)
    finally:
        shutil.rmtree(srcdir, ignore_errors=True)
    nv = 0
    for (vals, ifsname, ifs, o, optline), (obs, gb, go) in zip(batches, res):
        for k, (j, cx, want) in enumerate(obs):
            v = vals[j]
            ctx.count(("C", ifsname, o, optline, cx, v), nontrivial=len(v) > 0, bucket="C:%s:%s" % (tag, optline or cx))
            ctx.impl_validated += 1
            b_ok, o_ok = gb[k] == want, go[k] == want
            if not o_ok:
                ctx.oracle_mismatch += 1
                if len(ctx.notes) < 8:
                    ctx.notes.append("bash itself fails the expectation in context %s%s: %r got %r want %r" % (
                        cx, " under " + optline if optline else "", v, go[k], want))
            if b_ok:
                continue
            if not o_ok and go[k] == gb[k]:
                continue            # bash prints the very same: the expectation is wrong, not brush
            case = {"leg": "C", "value": v, "ifs": ifs, "opts": o, "option": optline, "context": cx,
                    "brush": gb[k], "want": want, "bash_ok": o_ok}
            what = "in context %s%s the original string was not delivered: got %r, want %r" % (
                cx, " under `%s`" % optline if optline else "", gb[k], want)
            if cx == "literal-prefix" and ifs is not None and any(c in ifs for c in "a:x") and o_ok:
                ctx.known_or_violation("literal_text_split_by_ifs", what, case)
            elif nv < 25:
                nv += 1
                ctx.violation(what, case)


# ------------------------------------------------------------------------------------------------

# ---- leg W: the word parser (brush-parser/src/word.rs) against Model/WordParse.lean
WP_ALPHA = ["a", "é", " ", "'", '"', "\\", "$", "{", "}", "(", ")", "v", "1", "@", "~", "/"]
WP_EXTRA = ['~/a$v"x\\$${u:-"a b"}"', "'a'\\\\b$(echo hi)$((1+2))${v-}${v:-\"a b\"}", '${v:-"a b"}', '"${v:-\'}\'}"',
            '${v:-"}"}', '${v-\\}}x', '${v##${u%%"}"}}', '~+1/$1$@${10}é$é', '~-/x', '~user/x', '~+', '~-2:',
            '"\\a\\$\\`\\"\\\\"', '$1a$12', '${1}', '${12-x}', '$((1 + 2))', '$(a b)', '"$(a)$((1))"', "\\\n", '"\\\n"',
            '$v1_x-', '${v_1:=x}', '${@:+y}', '${*%%z}', '${?#q}', 'a\\', '"$"', '$', '"${v}$@"', '€$€v\U0001f600"\U0001f600"']


def wp_spans_ok(resp, nbytes):
    """the intrinsic predicate on brush's answer: top-level spans tile [0, nbytes), inner spans tile the text between the quotes"""
    t = resp.split(" ")
    i, pos, inner_end = 1, 0, None
    while i < len(t):
        if t[i] == "]":
            if pos != inner_end - 1:
                return False
            pos, inner_end = inner_end, None
            i += 1
            continue
        s, e = int(t[i + 1]), int(t[i + 2])
        if t[i] == "D":
            if s != pos or e < s + 2 or inner_end is not None:
                return False
            pos, inner_end = s + 1, e
            i += 4
            continue
        if s != pos or e <= s:
            return False
        pos = e
        i += 4
    return inner_end is None and pos == nbytes


def wp_words(ctx):
    import itertools
    n = ctx.size(5, 6)
    words = [""]
    for k in range(1, n + 1):
        words += ["".join(t) for t in itertools.product(WP_ALPHA, repeat=k)]
    return words, n


def leg_w(ctx, rng):
    words, n = wp_words(ctx)
    nexh = len(words)
    gen = [t[1] for t in TEMPLATES + LIST_TEMPLATES] + [c[1] for c in CONTEXTS if isinstance(c, tuple) and len(c) > 1 and isinstance(c[1], str)]
    words += WP_EXTRA + gen
    # seeded: longer words over the same alphabet, and generator words spliced together
    for _ in range(ctx.size(20000, 200000)):
        words.append("".join(rng.choice(WP_ALPHA) for _ in range(rng.randrange(n + 1, 13))))
    for _ in range(ctx.size(2000, 20000)):
        words.append("".join(rng.choice(WP_EXTRA + gen[:28]) for _ in range(rng.randrange(2, 4))))
    ok, b, err = lib.run_vh_parallel(BIN, [esc("y" + w) for w in words])
    if not ok:
        ctx.violation("harness died on a word-parse request", {"leg": "W", "err": err[:500]}, kind="correspondence")
        return
    m = lib.run_drv_parallel(["C04 " + esc("y" + w) for w in words])
    nun = nok = nerr = 0
    ctx.evals += len(words)
    for k, (w, x, y) in enumerate(zip(words, b, m)):
        if x.startswith("OK") and not wp_spans_ok(x, len(w.encode("utf-8"))):
            ctx.violation("the pieces word::parse returns do not tile the word (a byte dropped or read twice)",
                          {"leg": "W", "word": w, "brush": x[:400], "model": y[:400]})
            continue
        if y == "UNSUPPORTED":
            nun += 1
            continue
        if x != y:
            ctx.violation("word parser and its model disagree", {"leg": "W", "word": w, "brush": x[:400], "model": y[:400]},
                          kind="correspondence")
        elif x == "ERR":
            nerr += 1
        else:
            nok += 1
    ctx.impl_validated += nok + nerr
    ctx.bucket("W:exhaustive<=%d" % n, nexh)
    ctx.bucket("W:generator+seeded", len(words) - nexh)
    ctx.bucket("W:parsed", nok)
    ctx.bucket("W:parse-error", nerr)
    ctx.bucket("W:outside-fragment(skipped)", nun)
    for w in WP_EXTRA[:3]:
        ctx.sample({"leg": "W", "word": w, "pieces": b[words.index(w)]})


def corpus_cases():
    out = []
    cdir = os.path.join(lib.ROOT, "corpus", PROP)
    if os.path.isdir(cdir):
        for f in sorted(os.listdir(cdir)):
            if f.endswith(".json"):
                out += json.load(open(os.path.join(cdir, f)))
    return out


def combos():
    return [(n, i, o) for (n, i) in IFSES for o in OPTSETS]


def run(ctx):
    ok, out = lib.cargo_build([BIN])
    if not ok:
        lib.log(out[-4000:])
        ctx.broken.append("harness c04 does not build against the current tree: " + lib._first_errors(out))
    ctx.proof_stage()
    if not ok:
        return
    rng = ctx.rng
    root = tempfile.mkdtemp(prefix="c04-dir-")
    try:
        make_dir(root, DIRNAMES)
        _run(ctx, rng, root)
    finally:
        shutil.rmtree(root, ignore_errors=True)


def _run(ctx, rng, root):
    cmb = combos()
    # quoted templates: the glob options cannot matter unless the property is broken; fewer option sets in the quick tier
    cmb_q = cmb if not ctx.quick else [(n, i, o) for (n, i, o) in cmb if o in ("e", "End", "efd")]
    cmb_b = cmb if not ctx.quick else [(n, i, o) for (n, i, o) in cmb if o in ("e", "End", "efd", "eg")]
    corpus = corpus_cases()
    small = values_upto(2)                                 # full cross product
    mid = values_upto(3)[len(small):]                      # rotating (IFS, options)
    big = [] if ctx.quick else values_upto(4)[len(small) + len(mid):]
    rnd = [rand_value(rng) for _ in range(ctx.size(1500, 20000))]
    cvals = [c["value"] for c in corpus if "value" in c]
    citems = [c["item"] for c in corpus if "item" in c]
    core = ("dq_x", "uq_x", "lit_star")

    # ---- leg A
    jobs = []
    CH = 2 * WORKERS
    k = 0
    vs = cvals + small
    for t in TEMPLATES:
        for (n, i, o) in (cmb_q if t[4] == "q" else cmb):
            for ch in lib.chunked(vs, 4):
                jobs.append((t, n, i, o, [[v] for v in ch]))
    tagged = [("exh2", len(jobs))]
    for ti, t in enumerate(TEMPLATES):
        if not ctx.quick:
            # thorough: every length-3 value through every template under every IFS setting (options rotating)
            for ii, (n, i) in enumerate(IFSES):
                for rep in range(1 if t[4] == "q" else 2):
                    o = OPTSETS[(ti + ii + 3 * rep) % len(OPTSETS)]
                    for ch in lib.chunked(mid, CH):
                        jobs.append((t, n, i, o, [[v] for v in ch]))
        else:
            # every length-3 value through the core templates, and through each other template for a third of them
            sub = mid if t[0] in core else mid[ti % 3::3]
            for ch in lib.chunked(sub, CH):
                n, i, o = cmb[k % len(cmb)]
                k += 1
                jobs.append((t, n, i, o, [[v] for v in ch]))
    tagged.append(("exh3", len(jobs)))
    for ti, t in enumerate(TEMPLATES):
        sub = big if t[0] in core else big[ti % 5::5]
        for ch in (lib.chunked(sub, 40 * CH) if sub else []):
            n, i, o = cmb[k % len(cmb)]
            k += 1
            jobs.append((t, n, i, o, [[v] for v in ch]))
    tagged.append(("exh4", len(jobs)))
    for t in TEMPLATES:
        for ch in lib.chunked(rnd, CH):
            n, i, o = cmb[rng.randrange(len(cmb))]
            jobs.append((t, n, i, o, [[v] for v in ch]))
    tagged.append(("rand", len(jobs)))
    # lists of strings for "$@" / "${k[@]}"
    atoms = ["", " ", "\n", "*", "?", "[", "\\", "'", "$", "a", ":", "x", "a b", "é"]
    if not ctx.quick:
        atoms += [c for c in ALPHA if c not in atoms] + [" a ", "*a", "a\n"]
    lists = [[]] + [[a] for a in atoms] + [[a, b] for a in atoms for b in atoms]
    lists += [[rng.choice(atoms + rnd[:50]) for _ in range(rng.randint(3, 6))] for _ in range(ctx.size(200, 5000))]
    lists = citems + lists
    for t in LIST_TEMPLATES:
        for (n, i, o) in (cmb_q if t[4] == "q" else cmb):
            for ch in lib.chunked(lists, 4):
                jobs.append((t, n, i, o, ch))
    tagged.append(("lists", len(jobs)))
    lo = 0
    for tag, hi in tagged:
        if hi > lo:
            bouts = leg_a(ctx, root, jobs[lo:hi], tag)
            if tag in ("exh2", "lists"):
                ctx.sample({"leg": "A", "word": jobs[lo][0][1], "ifs": jobs[lo][2], "opts": jobs[lo][3],
                            "first items": jobs[lo][4][:3], "brush": bouts[0][:120]})
        lo = hi

    # ---- leg B
    batches = []
    vs = cvals + small
    for (n, i, o) in cmb_b:
        for ch in lib.chunked(vs, 8):
            batches.append((ch, n, i, o))
    leg_b(ctx, root, batches, "exh2")
    batches = []
    more = mid[k % 3::3] + rnd[:600] if ctx.quick else mid + big[k % 11::11] + rnd
    for ch in lib.chunked(more, max(CH, len(more) // 80)):
        n, i, o = cmb[k % len(cmb)]
        k += 1
        batches.append((ch, n, i, o))
    leg_b(ctx, root, batches, "rot")
    # long values: a multi-byte character straddling every power-of-two offset up to 64 KiB (pipe and read-buffer
    # boundaries of "$(printf %s "$x")", here-strings, …) for every character width and phase
    batches = []
    for w, ch in ((2, "\u00e9"), (3, "\u20ac"), (4, "\U0001f600")):
        for ph in range(w):
            for total in ((5000, 70000) if ctx.quick else (5000, 17000, 70000, 120000)):
                v = "a" * ph + ch * ((total - ph) // w) + ("\n" if ph == 1 else "")
                n, i, o = cmb[k % len(cmb)]
                k += 1
                batches.append(([v], n, i, o))
    leg_b(ctx, root, batches, "long")
    # ---- leg C: context sweep on a seeded sample
    pool = cvals + small + mid[::5] + rnd
    nper = ctx.size(24, 400)
    batches = []
    for oi, optline in enumerate(SWEEP_OPTIONS):
        vs = [pool[rng.randrange(len(pool))] for _ in range(nper)] + (cvals[:6] if optline is None else [])
        for ch in lib.chunked(vs, max(1, len(vs) // 12)):
            n, i, o = cmb[k % len(cmb)]
            k += 1
            batches.append((ch, n, i, o, optline))
    leg_c(ctx, root, batches, "sweep")
    leg_redirect(ctx, cvals + small + mid + rnd, "all")
    leg_w(ctx, rng)
    ctx.cov["rule"] = (
        "values: every string over a %d-character adversarial alphabet up to length 2 (full cross product with %d word "
        "templates x %d IFS settings x %d glob-option sets), up to length %d with rotating (IFS, options), seeded random to "
        "length 40 over a wider alphabet; lists of 0-6 strings for \"$@\"/\"${k[@]}\"; a scratch directory of %d entries named "
        "after the metacharacters. Leg A: brush's expander in-process vs the Lean model, and the intrinsic predicate on the "
        "quoted templates. Leg B: the brush binary, %d contexts per value, NUL-delimited records, bash as sanity oracle; "
        "plus redirection targets. Leg W: brush_parser::word::parse vs Model/WordParse.lean on every word up to length 5 (6 thorough) "
        "over a 16-character alphabet (a, e-acute, space, both quotes, backslash, $, braces, parentheses, v, 1, @, ~, /), the "
        "generators' own word texts, and seeded longer words; words outside the modelled fragment are skipped and counted; the "
        "tiling predicate is evaluated on brush's own answer. non-trivial = a non-empty value"
        % (len(ALPHA), len(TEMPLATES) + len(LIST_TEMPLATES), len(IFSES), len(OPTSETS), 3 if ctx.quick else 4,
           len(DIRNAMES), len(CONTEXTS)))
    ctx.assumptions += [
        "values reach the shell through the process environment / the harness's variable API (no NUL bytes, valid UTF-8)",
        "the directory holds plain files only (one directory level); values containing '/' are used in quoted contexts only",
        "the word parser (brush-parser/src/word.rs) is modelled on a fragment (Model/WordParse.lean: quotes, escapes, $name/${name}/${name OP word}, "
        "plain $(...)/$((...)), tilde prefix) and tied exhaustively over short words; outside the fragment (backquotes, $'..', "
        "indices, substring/replace operators, non-plain command bodies) the same word still goes to brush as text and to the "
        "expansion model as pieces",
        "command substitution output is supplied to the model as data",
    ]


def replay(ctx, rp):
    lib.cargo_build([BIN])
    case = rp["case"]
    root = tempfile.mkdtemp(prefix="c04-dir-")
    try:
        make_dir(root, DIRNAMES)
        if case.get("leg") == "A":
            t = next(x for x in TEMPLATES + LIST_TEMPLATES if x[0] == case["template"])
            line = make_line(root, DIRNAMES, case["ifs"], case["opts"], t, [case["item"]])
            _, b, _ = lib.run_vh(BIN, [line])
            m = lib.run_drv(["C04 " + line])
            bv, _ = parse_res(b[0]) if b else ("<none>", False)
            mv, unmod = parse_res(m[0])
            want = t[5](case["item"], case["ifs"], case["opts"], DIRNAMES) if t[5] else "(brush == model)"
            print("word:   %s   item=%r IFS=%r opts=%s" % (t[1], case["item"], case["ifs"], case["opts"]))
            print("brush:  %r" % (bv,))
            print("model:  %r" % (mv,))
            print("wanted: %r" % (want,))
            bad = (bv != mv and not unmod) or (t[4] in ("q", "m") and bv != want)
            return 1 if bad else 0
        if case.get("leg") == "W":
            w = case["word"]
            _, b, _ = lib.run_vh(BIN, [esc("y" + w)])
            m = lib.run_drv(["C04 " + esc("y" + w)])
            x = b[0] if b else "<none>"
            print("word:  %r" % (w,))
            print("brush: %s" % x)
            print("model: %s" % m[0])
            tiles = (not x.startswith("OK")) or wp_spans_ok(x, len(w.encode("utf-8")))
            print("brush's spans tile the word: %s" % tiles)
            return 1 if (not tiles or (m[0] != "UNSUPPORTED" and m[0] != x)) else 0
        if case.get("leg") == "B":
            v = case["value"]
            sc = script_for([v], case["ifs"], case["opts"], "r")
            rb = run_script("brush", sc, [v], root)
            ro = run_script("bash", sc, [v], root)
            gb = split_records(rb[1], "r", 1)[0]
            go = split_records(ro[1], "r", 1)[0]
            print("value: %r IFS=%r opts=%s" % (v, case["ifs"], case["opts"]))
            print("brush: %r" % (judge_records(gb, v) or "all contexts deliver the value",))
            print("bash:  %r" % (judge_records(go, v) or "all contexts deliver the value",))
            return 1 if judge_records(gb, v) else 0
        if case.get("leg") == "C":
            v = case["value"]
            srcdir = tempfile.mkdtemp(prefix="c04-src-")
            srcpath = os.path.join(srcdir, "probe.sh")
            open(srcpath, "w").write('fp "$sv"\n')
            sc, obs = sweep_script([v], case["ifs"], case["opts"], case.get("option"), "r", srcpath)
            gb = split_records(run_script("brush", sc, [v], root)[1], "r", len(obs))
            go = split_records(run_script("bash", sc, [v], root)[1], "r", len(obs))
            shutil.rmtree(srcdir, ignore_errors=True)
            bad = 0
            print("value: %r IFS=%r opts=%s option=%r" % (v, case["ifs"], case["opts"], case.get("option")))
            for k, (j, cx, want) in enumerate(obs):
                if gb[k] != want or cx == case.get("context"):
                    print("context %-14s brush %s   bash %s" % (cx, "ok" if gb[k] == want else repr(gb[k]),
                                                               "ok" if go[k] == want else repr(go[k])))
                    if gb[k] != want:
                        print("   wanted %r" % (want,))
                        bad = 1
            return bad
        if case.get("leg") == "R":
            bad = 0
            for v in case["values"]:
                d = tempfile.mkdtemp(prefix="c04-redir-")
                run_script("brush", ': > "$V0"\n', [v], d)
                got = os.listdir(d)
                shutil.rmtree(d, ignore_errors=True)
                print("value %r -> files %r" % (v, got))
                bad |= got != [v]
            return 1 if bad else 0
    finally:
        shutil.rmtree(root, ignore_errors=True)
    print(json.dumps(case, indent=1, ensure_ascii=False))
    return 1
