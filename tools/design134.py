#!/usr/bin/env python3
"""Regenerates the bullet list of DESIGN.md 13.4 from known_findings.json (python3 tools/design134.py)."""
import json, os, re
ROOT = os.path.dirname(os.path.dirname(os.path.abspath(__file__)))
k = json.load(open(os.path.join(ROOT, "known_findings.json")))["findings"]
props = ["C%02d" % i for i in range(1, 21)]
no = sum(1 for f in k if f["status"] == "open"); nf = len(k) - no
lines = ["The file is the authority (`fixed:` entries suppress nothing). Open clauses at this revision, %d in all, %d repaired:" % (no, nf), ""]
for p in props:
    o = [f["clause"] for f in k if f["property"] == p and f["status"] == "open"]
    fx = sum(1 for f in k if f["property"] == p and f["status"] == "fixed")
    if not o and not fx:
        continue
    lines.append("* **%s** (%d open, %d fixed)%s" % (p, len(o), fx, (": " + ", ".join("`%s`" % c for c in o)) if o else ""))
text = "\n".join(lines) + "\n"
path = os.path.join(ROOT, "DESIGN.md")
s = open(path, encoding="utf-8").read()
i = s.index("The file is the authority (`fixed:` entries suppress nothing).")
j = s.index("\nPinned by the repository's own tests", i)
s = s[:i] + text + s[j:]
open(path, "w", encoding="utf-8").write(s)
print(no, "open", nf, "fixed")
