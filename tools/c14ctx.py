"""C14 context sweep: the same function definitions, DEFINED in different places, PRINTED by every printer in
different execution contexts and under options that must not matter, and RE-READ by every reader.

One script per sampled (tree, define-context, option): it defines `f` in the context, runs every printer in every
print context (each output to its own file), then re-reads the printed text with every reader.  The same script text
runs under brush and under bash.  What is checked
  * intrinsic: every (printer, context) output of brush, reduced to the definition of `f`, equals brush's own
    top-level `declare -f f` — unless bash itself shows nothing / something else there (then brush must show
    nothing too, or the pair is skipped as a bash quirk);
  * every reader gives back a function that prints as the baseline (a child shell: the form after import);
  * bash as oracle: bash reads brush's text (sourced, and imported from brush's export) as the function bash itself
    holds for the source.
"""
import os
import re
import shutil
import tempfile
import lib
import c14gen as g

PRELUDE = ('p() { echo "p:$*"; }\nn() { echo "n:$*"; return 1; }\n'
           'pc() { cat >/dev/null; echo "p:$*"; }\nnc() { cat > /dev/null; echo "n:$*"; return 1; }\nx=b; y=2\n'
           'w1() { "$@"; }\nw2() { w1 "$@"; }\n')

# printers: name -> command (no single quotes inside)
PRINTERS = [
    ("declare_f_name", "declare -f f"),
    ("declare_f_all", "declare -f"),
    ("type", "type f"),
    ("typeset_f_name", "typeset -f f"),
    ("declare_pf_name", "declare -pf f"),
    ("set", "set"),
    ("command_V", "command -V f"),
]
PRINTER_CMD = dict(PRINTERS)
# after `export -f f`: bash adds `declare -fx f` behind the definition / lists the exported functions
EXPORT_PRINTERS = [("declare_pf_name", "declare -pf f"), ("declare_xf", "declare -xf"), ("export_f", "export -f"),
                   ("export_pf", "export -pf"), ("declare_F_name", "declare -F f"), ("declare_pF", "declare -pF f"),
                   ("declare_xF", "declare -xF"), ("declare_f_all", "declare -f"), ("command_v", "command -v f"),
                   ("command_V", "command -V f")]
# listing forms used as delivery routes of the printed definition (file written by the printers above, re-read in a
# subshell by the same shell, and brush's file by bash): body AND export attribute must come back
ROUTES = ["export_f", "declare_pf_name", "command_V_body"]

# options that must not change what is printed (name -> setup line)
OPTIONS = [
    ("default", ":"), ("nounset", "set -u"), ("noglob", "set -f"), ("errexit", "set -e"), ("errtrace", "set -E"),
    ("functrace", "set -T"), ("nohash", "set +h"), ("noclobber", "set -C"), ("extglob", "shopt -s extglob"),
    ("nullglob", "shopt -s nullglob"), ("dotglob", "shopt -s dotglob"), ("nocasematch", "shopt -s nocasematch"),
    ("globstar", "shopt -s globstar"), ("expand_aliases", "shopt -s expand_aliases"), ("lastpipe", "shopt -s lastpipe"),
    ("inherit_errexit", "shopt -s inherit_errexit"), ("posix", "set -o posix"), ("alias_in_body", "shopt -s expand_aliases\nalias pa='p aliased'"),
]

DEFINES = ["top", "in_function", "two_deep", "eval", "sourced", "cmdsubst", "subshell", "after_unset", "overwrite",
           "brace_redirect", "for_body", "while_body", "lastpipe_stage", "whole_in_function"]

CONTEXTS = ["top", "function", "two_deep", "subshell", "cmdsubst", "pipe_stage", "last_stage", "eval", "brace_redirect",
            "for_body", "while_body", "sourced", "again"]


def wrap(ctxname, k, cmd, out):
    """one printer run in one print context, output to file `out`; never fails the script (`|| :`)"""
    if ctxname == "top":
        s = "%s > %s" % (cmd, out)
    elif ctxname == "function":
        s = "w1 %s > %s" % (cmd, out)
    elif ctxname == "two_deep":
        s = "w2 %s > %s" % (cmd, out)
    elif ctxname == "subshell":
        s = "( %s ) > %s" % (cmd, out)
    elif ctxname == "cmdsubst":
        s = "printf '%%s\\n' \"$( %s )\" > %s" % (cmd, out)
    elif ctxname == "pipe_stage":
        s = "%s | cat > %s" % (cmd, out)
    elif ctxname == "last_stage":
        s = ": | %s > %s" % (cmd, out)
    elif ctxname == "eval":
        s = "eval '%s' > %s" % (cmd, out)
    elif ctxname == "brace_redirect":
        s = "{ %s; } 2>/dev/null > %s" % (cmd, out)
    elif ctxname == "for_body":
        s = "for _i in 1; do %s; done > %s" % (cmd, out)
    elif ctxname == "while_body":
        s = "_k=0; while [ $_k = 0 ]; do %s; _k=1; done > %s" % (cmd, out)
    elif ctxname == "sourced":
        s = ". ./k_%s.sh > %s" % (k, out)
    elif ctxname == "again":
        s = "{ %s > /dev/null; %s > %s; }" % (cmd, cmd, out)
    else:
        raise ValueError(ctxname)
    return s + " 2>/dev/null || :\n"


def self_tree(t):
    """the same function, able to print its own definition: `test "$1" = SELF && declare -f f && return` first"""
    if t[2][0] != "brace":
        return None
    S = lambda name, *ws: ("simple", [], name, [("w", w) for w in ws])
    first = (((0, False, [S("test", '"$1"', "=", "SELF")]), [("&&", (0, False, [S("declare", "-f", "f")])),
                                                               ("&&", (0, False, [S("return")]))]), ";")
    return ("fdef", "f", ("brace", [first] + list(t[2][1])), t[3])


def alias_tree(t):
    """first simple command `p …` of the top-level list becomes `pa …` (alias pa='p aliased')"""
    if t[2][0] != "brace":
        return None
    items = list(t[2][1])
    for i, (ao, sep) in enumerate(items):
        (timed, bang, seq), more = ao
        c = seq[0]
        if c[0] == "simple" and c[2] == "p" and not c[1]:
            seq2 = [("simple", [], "pa", c[3])] + list(seq[1:])
            items[i] = (((timed, bang, seq2), more), sep)
            return ("fdef", "f", ("brace", items), t[3])
    S = ("simple", [], "pa", [("w", "z")])
    return ("fdef", "f", ("brace", [g.item1(S)] + items), t[3])


def build_script(d, src, define, option, with_self, extglob_child):
    """returns script text with @SELF@/@OTHER@ placeholders for the shell binaries"""
    opt = dict(OPTIONS)[option]
    rest = []
    for k, cmd in PRINTERS:
        open(os.path.join(d, "k_%s.sh" % k), "w").write(cmd + "\n")
        for c in CONTEXTS:
            rest.append(wrap(c, k, cmd, "o_%s_%s" % (k, c)))
    if with_self:
        rest.append("f SELF > o_declare_f_name_self 2>/dev/null || :\n")
    # readers of the printed text
    rest.append("cp o_declare_f_name_top T 2>/dev/null || :\n")
    rest.append('unset -f f; eval "$(cat T)" 2>/dev/null; declare -f f > r_eval 2>/dev/null || :\n')
    rest.append("unset -f f; . ./T 2>/dev/null; declare -f f > r_source 2>/dev/null || :\n")
    rest.append("rd() { unset -f f; . ./T; }; rd 2>/dev/null; declare -f f > r_function 2>/dev/null || :\n")
    rest.append("_r=$(unset -f f; . ./T 2>/dev/null; declare -f f) || :; printf '%s\\n' \"$_r\" > r_cmdsubst\n")
    rest.append("export -f f p n pc nc 2>/dev/null || :\n")
    # printers that show the export attribute / list exported functions
    for k, cmd in EXPORT_PRINTERS:
        rest.append("%s > x_%s 2>/dev/null || :\n" % (cmd, k))
    rest.append("@SELF@ -c 'declare -f f' > r_child_self 2>/dev/null || :\n")
    rest.append("@OTHER@ -c 'declare -f f' > r_child_other 2>/dev/null || :\n")
    rest.append("tail -n +2 x_command_V > x_command_V_body 2>/dev/null || :\n")
    for r in ROUTES:
        rest.append("( unset -f f; . ./x_%s; declare -f f > rr_%s; declare -F f > ra_%s ) 2>/dev/null || :\n" % (r, r, r))
        rest.append("[ -f BRUSH_x_%s ] && ( unset -f f; . ./BRUSH_x_%s; declare -f f > rb_%s; declare -F f > rba_%s ) 2>/dev/null || :\n"
                    % (r, r, r, r))
    # the other shell's print of what it imported, read back here (bash: must be bash's own function again)
    rest.append("[ -s r_child_other ] && { unset -f f; . ./r_child_other 2>/dev/null; declare -f f > r_other_back 2>/dev/null; } || :\n")
    rest.append("[ -f BRUSH_T ] && { unset -f f; . ./BRUSH_T 2>/dev/null; declare -f f > r_brush_text 2>/dev/null; } || :\n")
    rest.append("unset -f f; . ./T 2>/dev/null || :\n")      # the EXIT trap prints the function as first printed
    rest = "".join(rest)
    trap = "trap 'declare -f f > o_declare_f_name_trap' EXIT\n"
    outer = "declare -f f > outer 2>/dev/null && echo rc=0 >> outer || echo rc=1 >> outer\n"
    open(os.path.join(d, "def.sh"), "w").write(src)
    sq = "'" + src.replace("'", "'\\''") + "'"
    if define == "top":
        body = src + rest + trap
    elif define == "in_function":
        body = "d1() {\n" + src + "}\nd1\n" + rest + trap
    elif define == "two_deep":
        body = "d1() {\n" + src + "}\nd2() { d1; }\nd2\n" + rest + trap
    elif define == "eval":
        body = "eval " + sq + "\n" + rest + trap
    elif define == "sourced":
        body = ". ./def.sh\n" + rest + trap
    elif define == "cmdsubst":
        body = ": \"$(\n" + src + rest + ")\"\n" + outer
    elif define == "subshell":
        body = "(\n" + src + rest + ")\n" + outer
    elif define == "after_unset":
        body = "f() { echo old; }\nunset -f f\n" + src + rest + trap
    elif define == "overwrite":
        body = "f() { echo old; } > /dev/null\ndeclare -f f > /dev/null\n" + src + rest + trap
    elif define == "brace_redirect":
        body = "{\n" + src + "} 2>/dev/null\n" + rest + trap
    elif define == "for_body":
        body = "for _j in 1 2; do\n" + src + "done\n" + rest + trap
    elif define == "while_body":
        body = "_m=0; while [ $_m = 0 ]; do _m=1\n" + src + "done\n" + rest + trap
    elif define == "lastpipe_stage":
        body = "shopt -s lastpipe\n: | {\n" + src + "}\n" + rest + trap
    elif define == "whole_in_function":
        body = "m() {\nlocal x=inner\n" + src + rest + "}\nm\n" + trap
    else:
        raise ValueError(define)
    return PRELUDE + opt + "\n" + body


def block_of_f(text):
    """the definition of f inside a listing of several functions / variables"""
    if text is None:
        return None
    lines = text.split("\n")
    try:
        i = lines.index("f () ")
    except ValueError:
        return ""
    out = [lines[i]]
    for l in lines[i + 1:]:
        # the next function of a listing (the scaffolding's own names; nested definitions are g1, g2, …) or the
        # attribute line bash adds for an exported function
        if re.match(r"^(d1|d2|m|n|nc|p|pc|rd|w1|w2) \(\) $", l) or l.startswith("declare -f"):
            break
        out.append(l)
    while out and out[-1] == "":
        out.pop()
    return "\n".join(out) + "\n"


def canon(k, text):
    if text is None:
        return None
    if k in ("type", "command_V"):
        if text.startswith("f is a function\n"):
            text = text[len("f is a function\n"):]
        else:
            return "" if text.strip() == "" else "<not-a-function-report>" + text[:80]
    if k in ("declare_f_all", "set", "declare_pf_name", "declare_f_name", "typeset_f_name"):
        return block_of_f(text)
    while text.endswith("\n\n"):
        text = text[:-1]
    return text


def run_one(args):
    tree, style, hdr, define, option, has_self = args
    d = tempfile.mkdtemp(prefix="c14x-")
    try:
        src = g.source(tree, style, hdr)
        extglob = option == "extglob"
        script = build_script(d, src, define, option, has_self, extglob)
        brush = "'%s' --norc --noprofile --no-config" % lib.BRUSH
        bash = "%s --norc --noprofile" % lib.BASH + (" -O extglob" if extglob else "")
        res = {}
        for which, me, other in (("brush", brush, bash), ("bash", bash, brush)):
            sd = os.path.join(d, which)
            os.mkdir(sd)
            for f in os.listdir(d):
                if f.endswith(".sh"):
                    shutil.copy(os.path.join(d, f), sd)
            if which == "bash" and res["brush"].get("T") is not None:
                open(os.path.join(sd, "BRUSH_T"), "w").write(res["brush"]["T"])
                for rt in ROUTES:
                    if res["brush"].get("x_" + rt) is not None:
                        open(os.path.join(sd, "BRUSH_x_" + rt), "w").write(res["brush"]["x_" + rt])
            text = script.replace("@SELF@", me).replace("@OTHER@", other)
            r = lib.run_shell(which, text, mode="file", timeout=30, cwd=sd)
            files = {}
            for f in os.listdir(sd):
                if not f.endswith(".sh") and not f.startswith("BRUSH_"):
                    try:
                        files[f] = open(os.path.join(sd, f), errors="replace").read()
                    except OSError:
                        pass
            files["_timeout"] = r["timeout"]
            files["_rc"] = r["rc"]
            files["_err"] = r["err"][-300:]
            res[which] = files
        return src, res
    finally:
        shutil.rmtree(d, ignore_errors=True)


# ------------------------------------------------------------------------------------------------
# judging one swept case

def strip_nl(t):
    return None if t is None else t.rstrip("\n")


def bnorm(t):
    """bash prints a nested definition as `function g1 () ` outside posix mode and as `g1 () ` inside it: a child
    bash is never in posix mode, so compare bash's texts without that keyword"""
    return None if t is None else re.sub(r"(?m)\bfunction (\S+ \(\) )$", r"\1", t).rstrip("\n")


def judge_one(res, model_p, model_w, define, option, has_self):
    """returns (failures, notes): failures = list of (kind, clause_feature, what, detail)"""
    bz, bs = res["brush"], res["bash"]
    fails, notes = [], []
    if bz.get("_timeout") or bs.get("_timeout"):
        notes.append("timeout")
        return fails, notes
    base_z = canon("declare_f_name", bz.get("o_declare_f_name_top"))
    base_b = canon("declare_f_name", bs.get("o_declare_f_name_top"))
    if not base_b:
        notes.append("bash_does_not_define_here")
        return fails, notes      # bash rejects this source under this option (e.g. posix mode): outside the sweep
    if not base_z:
        fails.append(("not_defined", None, "the function is not defined (or not printed by declare -f f) in this context; bash has it", bz.get("_err", "")))
        return fails, notes
    if model_p is not None and base_z != model_p + "\n":
        fails.append(("model", None, "declare -f in this context differs from the printer model", base_z[:300]))
    outs = [(k, c) for k, _ in PRINTERS for c in CONTEXTS]
    for k, c in outs:
        key = "o_%s_%s" % (k, c)
        zt, bt = canon(k, bz.get(key)), canon(k, bs.get(key))
        if c == "cmdsubst":
            zt, bt = (zt or "").rstrip("\n") + "\n" if zt else zt, (bt or "").rstrip("\n") + "\n" if bt else bt
        if bt == base_b:
            if zt != base_z:
                fails.append(("printer:%s/context:%s" % (k, c), "printer_" + k,
                              "`%s` (%s) does not show the definition that top-level `declare -f f` shows; bash shows it" % (PRINTER_CMD[k], c),
                              {"brush": (zt or "")[:300], "expected": base_z[:300]}))
        elif not bt:
            if zt:
                notes.append("brush_prints_where_bash_silent:%s" % k)
        else:
            notes.append("bash_quirk:%s/%s" % (k, c))
    for key in ["o_declare_f_name_trap"] + (["o_declare_f_name_self"] if has_self else []):
        if key in bs and canon("declare_f_name", bs.get(key)) == base_b and canon("declare_f_name", bz.get(key)) != base_z:
            fails.append(("context:" + key[len("o_declare_f_name_"):], None, "declare -f f in this context shows something else than at top level",
                          (bz.get(key) or "")[:300]))
    for r in ("r_eval", "r_source", "r_function", "r_cmdsubst"):
        if strip_nl(bs.get(r)) == strip_nl(base_b) and strip_nl(bz.get(r)) != strip_nl(base_z):
            fails.append(("reader:" + r[2:], None, "re-reading the printed text (%s) gives a function that prints differently" % r[2:],
                          {"got": (bz.get(r) or "")[:300], "expected": base_z[:300]}))
    after = (model_w + "\n") if model_w is not None else base_z
    if define not in ("cmdsubst", "subshell") or True:
        if strip_nl(bz.get("r_child_self")) != strip_nl(after):
            fails.append(("reader:child_brush", None, "a child brush that imports the exported function prints it differently",
                          {"got": (bz.get("r_child_self") or "")[:300], "expected": after[:300]}))
        if bnorm(bz.get("r_child_other")) != bnorm(base_b):
            fails.append(("reader:child_bash", None, "a child bash that imports brush's exported text holds a different function than bash's own",
                          {"got": (bz.get("r_child_other") or "")[:300], "expected": base_b[:300]}))
        # bash -> export -> child brush imports and prints -> bash reads that print: bash's own function again
        # (the child brush's print itself legitimately differs from brush's: bash normalises redirect order)
        if not strip_nl(bs.get("r_child_other")):
            fails.append(("reader:brush_child_of_bash", None, "a child brush does not import the function bash exports", ""))
        elif bnorm(bs.get("r_other_back")) != bnorm(base_b):
            fails.append(("reader:brush_child_of_bash", None, "bash exports, a child brush imports and prints: bash reads that text as a different function",
                          {"brush_child_prints": (bs.get("r_child_other") or "")[:300], "bash_reads_it_as": (bs.get("r_other_back") or "")[:300],
                           "expected": base_b[:300]}))
    if bnorm(bs.get("r_brush_text")) != bnorm(base_b):
        fails.append(("reader:bash_source", None, "bash reads brush's printed text as a different function",
                      {"got": (bs.get("r_brush_text") or "")[:300], "expected": base_b[:300]}))
    if "outer" in bs and bz.get("outer") is not None and (bs["outer"].strip() == "rc=1") != (bz["outer"].strip() == "rc=1"):
        fails.append(("leak", None, "a definition made in a subshell / command substitution is (not) visible outside, unlike bash", bz.get("outer")))
    # the listings of an exported function: positive comparison with bash (what is listed, and the attribute lines)
    def shape(t):
        """function headers at column 0 and attribute lines of a listing, in order"""
        return [l for l in (t or "").split("\n") if re.match(r"^\S+ \(\) $", l) or l.startswith("declare -f")]
    for k, cmd in EXPORT_PRINTERS:
        zt, bt = bz.get("x_" + k), bs.get("x_" + k)
        if bt is None:
            continue
        if option == "posix" and k in ("export_f", "export_pf"):
            continue     # bash quirk: in posix mode `export -f` prints `export -f name` lines, no definitions (not a printer there)
        if k in ("declare_F_name", "declare_pF", "declare_xF", "command_v"):
            if (zt or "") != bt:
                fails.append(("export_attr:" + k, "export_attr", "`%s` prints something else than bash for an exported function" % cmd,
                              {"brush": (zt or "")[:200], "bash": bt[:200]}))
            continue
        if k == "command_V":
            zt = zt[len("f is a function\n"):] if (zt or "").startswith("f is a function\n") else "<no function report>" + (zt or "")
            bt = bt[len("f is a function\n"):] if bt.startswith("f is a function\n") else bt
        b_blk, z_blk = block_of_f(bt), block_of_f(zt) if zt is not None else None
        if b_blk == base_b and z_blk != base_z:
            fails.append(("export_listing:" + k, "export_listing", "`%s` does not show the exported function's definition; bash does" % cmd, (zt or "")[:200]))
        elif [l for l in shape(zt) if not l.startswith(("g", "function g"))] != [l for l in shape(bnorm(bt)) if not l.startswith("g")]:
            fails.append(("export_attr:" + k, "export_attr", "`%s` lists other functions / attribute lines (`declare -fx name`) than bash" % cmd,
                          {"brush": shape(zt), "bash": shape(bt)}))
    # the listings as delivery routes: re-read, they give back the body and the export attribute
    for rt in ROUTES:
        if bs.get("rr_" + rt) is None or bnorm(block_of_f(bs.get("rr_" + rt))) != bnorm(base_b):
            notes.append("bash_route_quirk:" + rt)
            continue
        if block_of_f(bz.get("rr_" + rt)) != base_z:
            fails.append(("route:" + rt, "route", "the text of the `%s` listing, re-read by brush, does not give the function back" % rt,
                          {"got": (bz.get("rr_" + rt) or "")[:300], "expected": base_z[:300]}))
        elif (bz.get("ra_" + rt) or "") != (bs.get("ra_" + rt) or ""):
            fails.append(("route_attr:" + rt, "route", "after re-reading the `%s` listing the export attribute differs from bash's" % rt,
                          {"brush": bz.get("ra_" + rt), "bash": bs.get("ra_" + rt)}))
        if bnorm(block_of_f(bs.get("rb_" + rt))) != bnorm(base_b):
            fails.append(("route_bash:" + rt, "route", "bash reads brush's `%s` listing as a different function (or none)" % rt,
                          {"got": (bs.get("rb_" + rt) or "")[:300], "expected": base_b[:300]}))
        elif (bs.get("rba_" + rt) or "") != (bs.get("ra_" + rt) or ""):
            fails.append(("route_bash_attr:" + rt, "route", "bash, after reading brush's `%s` listing, holds another export attribute than after its own" % rt,
                          {"from_brush_text": bs.get("rba_" + rt), "from_bash_text": bs.get("ra_" + rt)}))
    return fails, notes
