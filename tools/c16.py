"""C16 — the EXIT trap runs exactly once on every way out, and traps preserve $?."""
import os
import random
import lib
import flowgen
from flowcheck import canon

PROP = "C16"
L = lambda i, c: ("L", i, [c])

# EXIT handler bodies (every one starts with a `$?` probe and a unique marker 900+)
HANDLERS = [
    ("plain", ("S", [("P",), L(900, 0)])),
    ("exit9", ("S", [("P",), L(901, 0), ("X", 9)])),
    ("exit_last", ("S", [("P",), L(902, 3), ("X", None)])),
    ("fails", ("S", [("P",), L(903, 4)])),                       # under `set -e` this ends the shell with 4
    ("calls_func", ("S", [("P",), ("K", 0), L(904, 0)])),
    ("subshell_exit", ("S", [("P",), ("Su", ("X", 5)), L(905, 0)])),
    ("loop", ("S", [("P",), ("F", 2, L(906, 1))])),
]


def termination_family():
    """exhaustive: every way out x nesting context"""
    ways = {"end": L(1, 0), "end_fail": L(1, 6), "exit3": ("X", 3), "exit_last": ("S", [L(1, 5), ("X", None)]),
            "errexit": ("S", [("O", "e", True), L(1, 7), L(2, 0)]), "exit0": ("X", 0), "exit300": ("X", 300),
            # fatal expansion errors (status 1 when the program comes from a file or stdin; bash -c reports 127)
            "fatal_q": ("S", [L(1, 0), ("Fx", "q"), L(2, 0)]), "nounset": ("S", [L(1, 0), ("Fx", "u"), L(2, 0)]),
            "fatal_c": ("Fx", "c"), "nounset_arith": ("Fx", "a")}
    ctxs = {"top": lambda c: c, "func": None, "loop": lambda c: ("F", 2, c), "while": lambda c: ("W", ("L", 50, [0, 1]), c),
            "eval": lambda c: ("Ev", c), "group": lambda c: ("Gr", c), "if": lambda c: ("I", L(51, 0), c),
            "case": lambda c: ("C", [(True, c, "x")]), "subshell": lambda c: ("Su", ("S", [("P",), c])),
            "cmdsubst": lambda c: ("Cs", c), "andor": lambda c: ("A", L(52, 0), [(True, c)]),
            "pipe_last": lambda c: ("Pi", [0], ("Gr", c)),
            "lastpipe_last": lambda c: ("S", [("O", "l", True), ("Pi", [0, 3], ("Gr", c))]),
            "lastpipe_loop": lambda c: ("S", [("O", "l", True), ("F", 2, ("Pi", [0], ("Gr", c)))]),
            "func_in_loop": None}
    out = []
    for wn, w in ways.items():
        for cn, cf in ctxs.items():
            if cn == "func":
                funcs, body = [("S", [L(60, 0), w, L(61, 0)])], ("K", 0)
            elif cn == "func_in_loop":
                funcs, body = [("S", [L(60, 0), w, L(61, 0)])], ("F", 2, ("K", 0))
            else:
                funcs, body = [L(62, 0)], cf(("S", [L(63, 0), w, L(64, 0)]))
            main = ("S", [L(70, 0), body, ("P",), L(71, 0)])
            out.append((wn, cn, funcs, main))
    return out


def build(funcs, main, handler, trap_style):
    """returns (script, wire request)"""
    prog = (list(funcs) + ([handler] if handler is not None else []), main)
    txt = flowgen.render((funcs, main), fd3=True)
    lines = txt.rstrip("\n").split("\n")
    pre = []
    if handler is not None:
        h = flowgen.r_list(handler, {"fd3": True}).replace('echo "?$?" >&3', 'echo "T$?" >&3', 1)   # handler-start marker
        if trap_style == "replace":
            pre.append("trap 'echo OLD >&3' EXIT")
        pre.append("trap %s EXIT" % flowgen.sq(h))
    elif trap_style == "removed":
        pre += ["trap 'echo OLD >&3' EXIT", "trap - EXIT"]
    script = "\n".join(lines[:-1] + pre + [lines[-1]]) + "\n"
    req = "C16 %d 0 %s" % (1 if handler is not None else 0, flowgen.wire_prog(prog))
    return script, req


def run(ctx):
    ok, out = lib.cargo_build([])
    if not ok:
        lib.log(out[-3000:])
        ctx.broken.append("brush does not build from the current tree: " + lib._first_errors(out))
    ctx.proof_stage()
    if not ok:
        return
    rng = ctx.rng
    cases = []  # (tag, script, req, mode)
    fam = termination_family()
    for wn, cn, funcs, main in fam:
        fatal = wn in ("fatal_q", "nounset", "fatal_c", "nounset_arith")
        if fatal and cn == "pipe_last":
            continue        # a fatal error in a pipeline stage abandons the parent too (recorded under C12: stage_error_aborts_parent)
        for hn, hb in HANDLERS:
            if hn == "calls_func" and not funcs:
                continue
            for mode in ("c", "file", "stdin"):
                if fatal and mode == "c":
                    continue    # `bash -c` ends with 127 after a fatal expansion error, 1 from a file or stdin
                if mode != "c" and not fatal and rng.random() < 0.5:
                    continue
                style = rng.choice(["set", "set", "replace"])
                s, r = build(funcs, main, hb, style)
                cases.append(("exh", s, r, mode))
        s, r = build(funcs, main, None, "removed")
        cases.append(("exh-removed", s, r, "file" if fatal else "c"))
    for i in range(ctx.size(500, 12000)):
        # (no `eval` in the random programs: after errexit strikes inside `eval` inside a function bash 5.2 runs
        #  the EXIT handler in a state where its function calls fail — seen once per ~15 000 programs)
        g = flowgen.Gen(random.Random(rng.getrandbits(48)), ("opts", "cs"), budget=rng.choice([4, 6, 10, 14]))
        funcs, main = g.program(rng.choice([2, 3, 3]), nfuncs=rng.choice([1, 1, 2]),
                                prefix=([("O", "e", True)] if rng.random() < 0.4 else None))
        # (handlers that fail or call exiting functions under errexit are covered by the exhaustive family only:
        #  bash's behaviour when errexit strikes inside a handler that runs after an errexit unwinding is erratic)
        hn, hb = rng.choice([h for h in HANDLERS if h[0] in ("plain", "exit9", "subshell_exit")])
        s, r = build(funcs, main, hb, rng.choice(["set", "replace"]))
        cases.append(("rand", s, r, rng.choice(["c", "c", "file", "stdin"])))

    def one(c):
        return (lib.run_shell("brush", c[1], mode=c[3], timeout=20), lib.run_shell("bash", c[1], mode=c[3], timeout=20))

    res = lib.pmap(one, cases)
    for i, (b, o) in enumerate(res):          # a timeout under load is not evidence: retry alone, generously
        if b["timeout"] or o["timeout"]:
            c = cases[i]
            res[i] = (lib.run_shell("brush", c[1], mode=c[3], timeout=120), lib.run_shell("bash", c[1], mode=c[3], timeout=120))
    mouts = lib.run_drv_parallel([c[2] for c in cases])
    for (tag, script, req, mode), (b, o), m in zip(cases, res, mouts):
        ctx.count(script + mode, nontrivial=True, bucket=tag + "/" + mode)
        ctx.impl_validated += 1
        cbT, coT = canon(b), canon(o)
        # `T<status>` marks the start of the EXIT handler (the model prints it as an ordinary `?` probe)
        cb, co = cbT.replace(",T", ",?").replace(" T", " ?"), coT.replace(",T", ",?").replace(" T", " ?")
        case = {"script": script, "mode": mode, "request": req, "brush": cbT, "bash": coT, "model": m, "brush_stderr": b["err"][-300:]}
        # the property itself, evaluated on brush's output: the handler starts exactly once
        why = None
        toks = cbT.split(" ", 1)[1].split(",") if " " in cbT and cbT.split(" ", 1)[1] else []
        starts = [t for t in toks if t.startswith("T")]
        if "C16 1" in req and not b["timeout"]:
            if len(starts) == 0:
                why = "the EXIT handler did not run"
            elif len(starts) > 1:
                why = "the EXIT handler ran more than once"
        elif "OLD" in toks:
            why = "a removed EXIT handler ran"
        if "( (" in script:
            continue    # recorded parser finding (nested_subshell_as_arith) unrelated to traps
        if cb == m and cb == co and not why:
            continue
        if co != m:
            ctx.oracle_mismatch += 1
        if cb != co or why:
            same_trace = cb.split(" ", 1)[1:] == co.split(" ", 1)[1:]
            if not why and cb == m and same_trace:
                # identical output, only the final status differs, and brush is as its model says: by
                # exit_status_partial this can only be a handler that ends the shell itself
                ctx.known_or_violation("exit_in_trap_handler_ignored",
                                       "the status requested by an exiting trap handler is ignored", case)
            else:
                ctx.violation(why or "brush and bash differ on EXIT-trap output/order/status", case,
                              kind="property")
        elif cb != m:
            ctx.violation("trap model and brush disagree (correspondence broken)", case, kind="correspondence")
    ctx.sample({"script": cases[0][1], "brush": canon(res[0][0])})
    ctx.sample({"script": cases[-1][1], "brush": canon(res[-1][0])})
    err_trap_direct(ctx)
    err_fire_family(ctx)
    own_trap_family(ctx)
    signal_trap_family(ctx)
    nested_trap_family(ctx)
    ctx.cov["rule"] = ("termination paths (end, failing end, exit n, bare exit, errexit) x 12 nesting contexts x 7 handler bodies "
                       "(plain, exit n, failing under errexit, function call, subshell exit, loop) x {-c, script file, stdin}, trap set / "
                       "replaced / removed, plus seeded random control-flow programs; brush vs bash vs the trap model; ERR-trap "
                       "programs brush vs bash, and small ERR-firing programs (inner command x 20 contexts x 8 outer contexts x set -E x 6 "
                       "handlers, plus seeded random) four-way: brush = execE, bash = ref")
    ctx.assumptions += ["ERR-trap firing positions are in the Lean model (Model/ErrTrap.lean) for the fragment simple command / exit / return / "
                        "function call / ; && || ! / if / while / until / { } / ( ) / two-stage pipeline; outside it (and for `!` over compound "
                        "commands, a subshell or `!` as last command of a subshell, a subshell or function call as last pipeline stage, where "
                        "bash departs from its documented rule) brush is compared with bash directly or not at all",
                        "traps set inside the program at arbitrary points are resolved statically to the handler in force at exit"]



def own_trap_family(ctx):
    """A subshell-like environment that registers its OWN EXIT trap: `( trap h EXIT; c )`, `v=$(trap h EXIT; c)`,
    `Q 0 | { trap h EXIT; c; }` — ways out x nestings x handler bodies.  brush vs bash vs the model of brush
    (`subshellOwnTrap`: the handler never runs) vs the reference (`subshellOwnTrapSpec`)."""
    ways = {"end": L(1, 0), "end_fail": L(1, 6), "exit3": ("X", 3), "exit_last": ("S", [L(1, 5), ("X", None)]),
            "errexit": ("S", [("O", "e", True), L(1, 7), L(2, 0)]), "exit0": ("X", 0), "exit300": ("X", 300)}
    nests = {"top": lambda c: c, "loop": lambda c: ("F", 2, c), "group": lambda c: ("Gr", c), "if": lambda c: ("I", L(51, 0), c),
             "eval": lambda c: ("Ev", c), "func": None, "andor": lambda c: ("A", L(52, 0), [(True, c)])}
    shapes = {"su": "( trap %s EXIT; %s ); echo \"?$?\" >&3", "cs": "v=$(trap %s EXIT; %s); echo \"?$?\" >&3",
              "pi": "Q 0 | { trap %s EXIT; %s; }; echo \"?$?\" >&3"}
    cases = []
    for wn, w in ways.items():
        for nn, nf in nests.items():
            for hn, hb in HANDLERS:
                if nn == "func":
                    if hn == "calls_func":
                        continue
                    f0, body = ("S", [L(60, 0), w, L(61, 0)]), ("S", [("K", 0), L(64, 0)])
                else:
                    f0, body = L(62, 0), ("S", [L(63, 0), nf(w), L(64, 0)])
                for sn, shape in shapes.items():
                    ind = {"fd3": True, "in_cs": 1 if sn == "cs" else 0}
                    h = flowgen.r_list(hb, dict(ind)).replace('echo "?$?" >&3', 'echo "T$?" >&3', 1)
                    txt = flowgen.render(([f0], L(70, 0)), fd3=True)
                    script = txt + shape % (flowgen.sq(h), flowgen.r_list(body, dict(ind))) + "\n"
                    req = "C16 S " + flowgen.wire_prog(([f0, hb, body], L(70, 0)))
                    cases.append((wn + "/" + nn + "/" + hn + "/" + sn, script, req))
    res = lib.pmap(lambda c: lib.run_both(c[1], timeout=20), cases)
    for i, (b, o) in enumerate(res):
        if b["timeout"] or o["timeout"]:
            res[i] = lib.run_both(cases[i][1], timeout=120)
    mouts = lib.run_drv_parallel([c[2] for c in cases])
    for (tag, script, req), (b, o), m in zip(cases, res, mouts):
        ctx.count("own" + script, nontrivial=True, bucket="own-trap/" + tag.rsplit("/", 1)[1])
        ctx.impl_validated += 1
        parts = m.split(" | ")
        cbT, coT = canon(b), canon(o)
        cb, co = cbT.replace(",T", ",?").replace(" T", " ?"), coT.replace(",T", ",?").replace(" T", " ?")
        case = {"script": script, "family": tag, "request": req, "brush": cbT, "bash": coT, "model": m, "brush_stderr": b["err"][-300:]}
        if len(parts) != 2:
            ctx.violation("driver could not evaluate the own-trap request", case, kind="correspondence")
            continue
        impl, spec = parts
        if co != spec:
            ctx.oracle_mismatch += 1
            # (expected for the handler `…; exit` without a status: bash takes the status the trap was entered with,
            #  the reference takes the handler's last status)
            if "/exit_last/" not in tag:
                ctx.notes.append("own-trap oracle_mismatch: " + tag)
        starts_b = [t for t in cbT.split(" ", 1)[-1].split(",") if t.startswith("T")]
        if cb == co and len(starts_b) == 1:
            if cb != impl:
                ctx.violation("trap model and brush disagree: brush runs the subshell's own EXIT handler, the model says it "
                              "does not (correspondence broken; the property holds on this case)", case, kind="correspondence")
            continue
        if cb == impl and not starts_b:
            # the modelled defect, and nothing else: no handler start in brush's output, brush is as its model says
            ctx.known_or_violation("exit_trap_set_in_subshell_never_runs",
                                   "an EXIT trap registered inside a subshell / command substitution / pipeline stage never runs", case)
        else:
            ctx.violation("subshell with its own EXIT trap: brush differs from bash and from its model "
                          "(handler runs %d times)" % len(starts_b), case, kind="property")



def signal_trap_family(ctx):
    """`exit n` from a signal trap handler (the property's "trap handler" depth): the shell sends itself a trapped
    signal.  brush vs bash only (signal delivery is not in the model)."""
    cases = []
    for sig in ("USR1", "USR2", "HUP"):
        for hn, handler in (("marker", 'echo "S$?" >&3'), ("exit5", 'echo "S$?" >&3; exit 5'), ("exit_bare", 'echo "S$?" >&3; (exit 6); exit'),
                            ("ignore", "")):
            for pre in ("", "(exit 3); "):
                for mode in ("c", "file"):
                    script = ("exec 3>&1\ntrap 'echo \"T$?\" >&3' EXIT\ntrap %s %s\n%skill -%s $$\necho after >&3\n"
                              % (flowgen.sq(handler), sig, pre, sig))
                    cases.append((sig + "/" + hn, script, mode))
    res = lib.pmap(lambda c: (lib.run_shell("brush", c[1], mode=c[2], timeout=20), lib.run_shell("bash", c[1], mode=c[2], timeout=20)), cases)
    for i, (b, o) in enumerate(res):          # a timeout under load is not evidence: retry alone, generously
        if b["timeout"] or o["timeout"]:
            c = cases[i]
            res[i] = (lib.run_shell("brush", c[1], mode=c[2], timeout=120), lib.run_shell("bash", c[1], mode=c[2], timeout=120))
    for (tag, script, mode), (b, o) in zip(cases, res):
        ctx.count("sig" + script + mode, nontrivial=True, bucket="signal-trap")
        ctx.impl_validated += 1
        cb, co = canon(b), canon(o)
        if cb == co:
            continue
        case = {"script": script, "mode": mode, "family": tag, "brush": cb, "bash": co, "brush_stderr": b["err"][-200:]}
        if b["rc"] < 0 and not b["out"].strip() and "S" not in cb:
            # the process is killed by the signal it trapped: nothing of the handler, nothing of the EXIT trap
            ctx.known_or_violation("signal_trap_never_runs",
                                   "a trapped (or ignored) signal sent to the shell itself kills it: no handler, no EXIT trap", case)
        else:
            ctx.violation("signal trap: brush and bash differ", case, kind="property")



def nested_trap_family(ctx):
    """Something that itself saves and restores `$?` runs INSIDE the EXIT handler: another trap (ERR for a failing
    command of the handler, DEBUG before each of its commands, RETURN for a function it calls) or the xtrace prefix
    expansion.  The shell must still end with the terminating status (found missing by seed C16-4).  brush vs bash."""
    ways = {"exit3": ("X", 3), "end_fail": L(1, 6), "errexit": ("S", [("O", "e", True), L(1, 7), L(2, 0)]), "end": L(1, 0),
            "exit_last": ("S", [L(1, 5), ("X", None)])}
    ctxs = {"top": lambda c: c, "func": None, "loop": lambda c: ("F", 2, c), "subshell_then_exit": lambda c: ("S", [("Su", L(8, 2)), c])}
    extras = ["trap 'echo \"E$?\" >&3' ERR", "trap 'echo \"E$?\" >&3' ERR; set -E", "trap ': dbg' DEBUG", "trap ': dbg' DEBUG; set -T",
              "trap 'echo R >&3' RETURN", "exec 2>/dev/null; set -x", "exec 2>/dev/null; PS4='+$? '; set -x",
              "trap 'echo \"E$?\" >&3' ERR; trap ': dbg' DEBUG", "trap ': usr' USR1"]
    cases = []
    for wn, w in ways.items():
        for cn, cf in ctxs.items():
            if cn == "func":
                funcs, body = [("S", [L(60, 0), w, L(61, 0)])], ("K", 0)
            else:
                funcs, body = [L(62, 0)], cf(("S", [L(63, 0), w, L(64, 0)]))
            main = ("S", [L(70, 0), body, ("P",), L(71, 0)])
            for hn, hb in HANDLERS:
                if hn in ("exit9", "exit_last", "subshell_exit"):
                    continue        # handlers that end the shell themselves: recorded finding exit_in_trap_handler_ignored
                for ex in extras:
                    script, _ = build(funcs, main, hb, "set")
                    lines = script.rstrip("\n").split("\n")
                    script = "\n".join(lines[:-1] + [ex, lines[-1]]) + "\n"
                    for mode in ("c", "file"):
                        cases.append((wn + "/" + cn + "/" + hn, script, mode))
    res = lib.pmap(lambda c: (lib.run_shell("brush", c[1], mode=c[2], timeout=20), lib.run_shell("bash", c[1], mode=c[2], timeout=20)), cases)
    for i, (b, o) in enumerate(res):
        if b["timeout"] or o["timeout"]:
            c = cases[i]
            res[i] = (lib.run_shell("brush", c[1], mode=c[2], timeout=120), lib.run_shell("bash", c[1], mode=c[2], timeout=120))
    for (tag, script, mode), (b, o) in zip(cases, res):
        ctx.count("nest" + script + mode, nontrivial=True, bucket="nested-trap")
        ctx.impl_validated += 1
        cb, co = canon(b), canon(o)
        if cb == co:
            continue
        case = {"script": script, "mode": mode, "family": tag, "brush": cb, "bash": co, "brush_stderr": b["err"][-200:]}
        tb, to = _toks(cb), _toks(co)
        ish = lambda t: t[0] in "Ee" or t == "R"
        rest_b, rest_o = [t for t in tb if not ish(t)], [t for t in to if not ish(t)]
        eb, eo = [t for t in tb if ish(t)], [t for t in to if ish(t)]
        same_status = cb.split(" ")[0] == co.split(" ")[0]
        # errexit (switched on by the program) strikes inside the handler: the handler ends the shell itself
        ends_itself = tag.startswith("errexit/") and tag.rsplit("/", 1)[1] in ("fails", "loop", "calls_func")
        if rest_b == rest_o and _subseq(eo, eb) and (same_status or ends_itself):
            if eb != eo:
                ctx.known_or_violation("err_trap_fires_again_for_leaving_command",
                                       "the ERR handler also runs for a command that is itself leaving (exit/return/errexit)", case)
            if not same_status:
                ctx.known_or_violation("exit_in_trap_handler_ignored",
                                       "EXIT handler failing under errexit: the status it ends the shell with is ignored", case)
        else:
            ctx.violation("a trap or trace running inside the EXIT handler: brush and bash differ (status / handler runs)", case,
                          kind="property")


ERR_TRAPS = ["trap 'echo \"E$?\" >&3' ERR", "trap 'echo \"E$?\" >&3; (exit 4)' ERR", "trap 'echo \"E$?\" >&3' ERR; set -E",
             "trap 'echo \"E$?\" >&3' ERR; trap 'echo \"T$?\" >&3' EXIT",
             "trap 'echo \"E$?\" >&3; (exit 4); echo \"e$?\" >&3' ERR; set -E",
             # handlers that leave their own frame before a command fails in them (a function, a nested function, a
             # sourced file, eval): the handler must not re-enter itself (Hb … He never nest)
             "hf() { echo \"E$?\" >&3; echo Hb >&3; (exit 4); echo He >&3; }; trap hf ERR; set -E",
             "hf() { echo \"E$?\" >&3; echo Hb >&3; hg; echo He >&3; }; hg() { (exit 4); Q 5; }; trap hf ERR; set -E",
             "hf() { echo \"E$?\" >&3; echo Hb >&3; (exit 4); echo He >&3; }; trap hf ERR",
             "trap '. @HFILE@' ERR",
             "trap '. @HFILE@' ERR; set -E",
             "trap 'eval \"echo E\\$? >&3; echo Hb >&3; (exit 4); echo He >&3\"' ERR; set -E"]
HFILE_TEXT = 'echo "E$?" >&3; echo Hb >&3\n(exit 4)\nQ 5\necho He >&3\n'


def err_trap_direct(ctx):
    import tempfile, shutil
    hdir = tempfile.mkdtemp(prefix="c16h-")
    try:
        with open(os.path.join(hdir, "h.sh"), "w") as f:
            f.write(HFILE_TEXT)
        _err_trap_direct(ctx, os.path.join(hdir, "h.sh"))
    finally:
        shutil.rmtree(hdir, ignore_errors=True)


def _err_trap_direct(ctx, hfile):
    rng = ctx.rng
    cases = []
    for i in range(ctx.size(600, 8000)):
        trap = rng.choice(ERR_TRAPS).replace("@HFILE@", hfile)
        # a handler with a failing command is only paired with programs that never enable errexit (under errexit
        # bash leaves the shell from inside the handler: recorded finding exit_in_trap_handler_ignored, whose
        # knock-on effects on later handler runs are not worth classifying)
        failing_handler = "(exit 4)" in trap or "HFILE" in trap or hfile in trap
        feats = ("cs", "ev", "nobang") if failing_handler else ("opts", "cs", "ev", "nobang")
        g = flowgen.Gen(random.Random(rng.getrandbits(48)), feats, budget=rng.choice([4, 6, 10]))
        p = g.program(rng.choice([2, 3]), prefix=([("O", "e", True)] if (rng.random() < 0.3 and not failing_handler) else None))
        txt = flowgen.render(p, fd3=True, deco=(rng.getrandbits(32) if i % 2 == 0 else None), deco_nl=False)
        if "! " in txt:
            continue
        lines = txt.rstrip("\n").split("\n")
        script = "\n".join(lines[:-1] + [trap, lines[-1]]) + "\n"
        cases.append(script)
    res = lib.pmap(lambda s: lib.run_both(s, timeout=20), cases)
    for i, (b, o) in enumerate(res):
        if b["timeout"] or o["timeout"]:
            res[i] = lib.run_both(cases[i], timeout=120)
    for s, (b, o) in zip(cases, res):
        ctx.count("err" + s, nontrivial=True, bucket="err-trap-direct")
        if "( (" in s:
            continue
        cb, co = canon(b), canon(o)
        # intrinsic: the handler never re-enters itself (on brush's own trace, whatever bash does)
        depth = 0
        for t in _toks(cb):
            depth += 1 if t == "Hb" else -1 if t == "He" else 0
            if depth > 1:
                ctx.violation("the ERR handler re-entered itself (a second handler start before the first one ended)",
                              {"script": s, "brush": cb, "bash": co, "brush_stderr": b["err"][-300:]}, kind="property")
                break
        if cb == co or depth > 1:
            continue
        case = {"script": s, "brush": cb, "bash": co, "brush_stderr": b["err"][-300:]}
        tb, to = _toks(cb), _toks(co)
        ish = lambda t: t[0] in "Ee" or t in ("Hb", "He")        # the handler's own output
        rest_b, rest_o = [t for t in tb if not ish(t)], [t for t in to if not ish(t)]
        eb, eo = [t for t in tb if ish(t)], [t for t in to if ish(t)]
        if rest_b == rest_o and _subseq(eo, eb):
            # everything but the ERR handler's own output is identical and brush runs the handler at a superset
            # of bash's points
            if eb != eo:
                ctx.known_or_violation("err_trap_fires_again_for_leaving_command",
                                       "the ERR handler also runs for a command that is itself leaving (exit/return/errexit)", case)
            if cb.split(" ")[0] != co.split(" ")[0]:
                ctx.known_or_violation("exit_in_trap_handler_ignored",
                                       "ERR handler failing under errexit: the status it exits with is ignored", case)
        else:
            ctx.violation("ERR trap: brush and bash differ (handler runs / `$?` seen by or after the handler / status)", case)


def _toks(c):
    p = c.split(" ", 1)
    return p[1].split(",") if len(p) > 1 and p[1] else []


def _subseq(a, b):
    it = iter(b)
    return all(any(x == y for y in it) for x in a)


def replay(ctx, rp):
    lib.cargo_build([])
    case = rp["case"]
    mode = case.get("mode", "c")
    b = lib.run_shell("brush", case["script"], mode=mode, timeout=20)
    o = lib.run_shell("bash", case["script"], mode=mode, timeout=20)
    print(case["script"])
    print("brush:", canon(b), b["err"][-200:])
    print("bash: ", canon(o))
    if "request" in case:
        print("model:", lib.run_drv([case["request"]])[0])
    return 0 if canon(b) == canon(o) else 1


# ----------------------------------------------------------------------------------------------
# ERR-trap firing inside the model (Model/ErrTrap.lean `execE`, Spec/ErrTrap.lean `ref`)

class _EfR:
    """renders an ErrTrap.Cmd tuple to shell text; functions are defined in a preamble"""
    def __init__(self):
        self.defs, self.k = [], 0

    def fresh(self):
        self.k += 1
        return self.k

    def braced(self, c, inh):
        t = self.r(c, inh)
        return t if c[0] in ("G", "W") else "{ %s; }" % t

    def r(self, c, inh=False):
        k = c[0]
        if k == "L":
            return ("echo %s%d" % ("h" if inh else "m", c[1])) if c[2] == 0 else "false"
        if k == "X":
            return "exit %d" % c[1]
        if k == "R":
            return "return %d" % c[1]
        if k == "K":
            n = self.fresh()
            body = self.r(c[1], inh)
            self.defs.append("f%d() { %s; }" % (n, body))
            return "f%d" % n
        if k == "S":
            return "%s; %s" % (self.r(c[1], inh), self.r(c[2], inh))
        if k in ("A", "O"):
            a = self.braced(c[1], inh) if c[1][0] == "S" else self.r(c[1], inh)
            b = self.braced(c[2], inh) if c[2][0] in ("S", "A", "O") else self.r(c[2], inh)
            return "%s %s %s" % (a, "&&" if k == "A" else "||", b)
        if k == "N":
            return "! " + (self.r(c[1], inh) if c[1][0] == "L" else self.braced(c[1], inh))
        if k == "I":
            return "if %s; then %s; else %s; fi" % (self.r(c[1], inh), self.r(c[2], inh), self.r(c[3], inh))
        if k == "W":
            n = self.fresh()
            return "{ i%d=0; %s %s; [ $((i%d+=1)) %s %d ]; do %s; done; }" % (
                n, "until" if c[1] else "while", self.r(c[3], inh), n, "-gt" if c[1] else "-le", c[2], self.r(c[4], inh))
        if k == "G":
            return "{ %s; }" % self.r(c[1], inh)
        if k == "U":
            return "(\n%s\n)" % self.r(c[1], inh)
        if k == "P":
            b = self.r(c[2], inh) if c[2][0] in ("L", "I") else self.braced(c[2], inh)
            return "%s | %s" % ("true" if c[1] == 0 else "false", b)
        raise ValueError(k)


def _ef_wire(c):
    k = c[0]
    if k == "L":
        return "L %d %d" % (c[1], c[2])
    if k in ("X", "R"):
        return "%s %d" % (k, c[1])
    if k == "W":
        return "W %d %d %s %s" % (1 if c[1] else 0, c[2], _ef_wire(c[3]), _ef_wire(c[4]))
    if k == "P":
        return "P %d %s" % (c[1], _ef_wire(c[2]))
    return k + " " + " ".join(_ef_wire(x) for x in c[1:])


EF_HANDLERS = [("L", 90, 0), ("S", ("L", 91, 1), ("L", 90, 0)), ("S", ("L", 90, 0), ("L", 91, 1)),
               ("K", ("S", ("L", 91, 1), ("L", 90, 0))),
               # (no failing subshell inside the handler: under `set -E` bash takes the trap again in the subshell of
               #  the handler, without end -- a fork chain that has to be killed)
               ("O", ("L", 91, 1), ("L", 90, 0)), ("S", ("P", 0, ("L", 91, 1)), ("L", 90, 0))]


EF_OUTER = ("and_l", "or_r", "if_cond", "wh_body", "sub", "call", "stage0")


def _ef_build(prog, handler, et):
    rr = _EfR()
    h = rr.r(handler, True)
    p = rr.r(prog, False)
    script = "".join(d + "\n" for d in rr.defs) + ("set -E\n" if et else "") + "trap 'echo E$?; %s' ERR\n%s\n" % (h, p)
    return script, "C16 errfire %d %s %s" % (1 if et else 0, _ef_wire(handler), _ef_wire(prog))


def _ef_wrappers():
    m = lambda i, s=0: ("L", i, s)
    return {
        "top": lambda c, f: c, "then_more": lambda c, f: ("S", c, m(10)), "after_fail": lambda c, f: ("S", m(11, 1), c),
        "and_l": lambda c, f: ("A", c, m(12)), "and_r": lambda c, f: ("A", m(13), c),
        "or_l": lambda c, f: ("O", c, m(14, 1)), "or_r": lambda c, f: ("O", m(15, 1), c),
        "andor_mid": lambda c, f: ("O", ("A", m(16), c), m(17)),
        "if_cond": lambda c, f: ("I", c, m(18), m(19, 1)), "if_then": lambda c, f: ("I", m(20), c, m(21)),
        "if_else": lambda c, f: ("I", m(22, 1), m(23), c),
        "wh_cond": lambda c, f: ("W", False, 1, c, m(24)), "wh_body": lambda c, f: ("W", False, 2, m(25), c),
        "un_body": lambda c, f: ("W", True, 1, m(26, 1), ("S", c, m(27))),
        "grp": lambda c, f: ("G", ("S", c, m(28))), "sub": lambda c, f: ("U", ("S", c, m(29))),
        "call": lambda c, f: ("K", ("S", c, m(30))), "call_last": lambda c, f: ("K", c),
        "stage": lambda c, f: ("P", 1, ("G", c)), "stage0": lambda c, f: ("P", 0, ("S", c, m(31))),
    }


def _ef_ok(c, infn=False, top=True):
    """generator domain: `return` only directly in a function (not under a subshell / stage); `!` only over a simple
    command (bash's ERR exemption under `!` does not reach into compound commands); a last stage is a simple command,
    a brace group or an `if` (bash checks a subshell / function call as last stage twice)"""
    k = c[0]
    if k == "R":
        return infn
    if k in ("L", "X"):
        return True
    if k == "N":
        return c[1][0] == "L"
    if k == "K":
        return _ef_ok(c[1], True)
    if k in ("U",):
        # bash runs the last command of a subshell without a process of its own: a subshell there is not checked
        # separately and a `!` there loses its exemption (bash-only oddities, outside the reference rule)
        t = c[1]
        while t[0] == "S":
            t = t[2]
        return t[0] not in ("U", "N") and _ef_ok(c[1], False)
    if k == "P":
        return c[2][0] in ("L", "G", "I", "S", "A", "O") and _ef_ok(c[2], False)
    if k == "W":
        return _ef_ok(c[3], infn) and _ef_ok(c[4], infn)
    return all(_ef_ok(x, infn) for x in c[1:])


def _ef_rand(rng, d, infn):
    m = lambda: ("L", rng.randrange(1, 60), rng.choice([0, 0, 1]))
    if d <= 0 or rng.random() < 0.25:
        r = rng.random()
        if r < 0.08:
            return ("X", rng.choice([0, 3]))
        if r < 0.16 and infn:
            return ("R", rng.choice([0, 3]))
        if r < 0.3:
            return ("N", m())
        return m()
    k = rng.choice("SSSAAOOIWGUKKP")
    g = lambda f=infn: _ef_rand(rng, d - 1, f)
    if k in "SAO":
        return (k, g(), g())
    if k == "I":
        return ("I", g(), g(), g())
    if k == "W":
        return ("W", rng.random() < 0.4, rng.choice([0, 1, 2]), g(), g())
    if k == "G":
        return ("G", g())
    if k == "U":
        return ("U", g(False))
    if k == "K":
        return ("K", g(True))
    return ("P", rng.choice([0, 1]), ("G", g(False)))


def err_fire_family(ctx):
    rng = ctx.rng
    cases = []
    inners = {"fail": ("L", 1, 1), "ok": ("L", 1, 0), "not_ok": ("N", ("L", 1, 0)), "not_fail": ("N", ("L", 1, 1)),
              "exit3": ("X", 3), "exit0": ("X", 0), "sub_exit3": ("U", ("X", 3)), "fn_ret3": ("K", ("R", 3)),
              "fn_fail_more": ("K", ("S", ("L", 2, 1), ("L", 3, 0))), "fn_fail": ("K", ("L", 2, 1)),
              "pipe_fail": ("P", 0, ("L", 4, 1)), "pipe_ok": ("P", 1, ("L", 4, 0)), "sub_fail": ("U", ("L", 5, 1)),
              "fn_ret0": ("K", ("S", ("L", 2, 1), ("R", 0)))}
    ws = _ef_wrappers()
    n = 0
    for iname, inner in inners.items():
        for w1n, w1 in ws.items():
            for w2n, w2 in [(k, v) for k, v in ws.items() if k in EF_OUTER] + [(None, None)]:
                prog = w1(inner, None)
                if w2 is not None:
                    prog = w2(prog, None)
                if not _ef_ok(prog):
                    continue
                for et in (False, True):
                    n += 1
                    h = EF_HANDLERS[n % len(EF_HANDLERS)]
                    cases.append(("exh/%s/%s/%s" % (iname, w1n, w2n), prog, h, et))
    for i in range(ctx.size(700, 8000)):
        prog = _ef_rand(rng, rng.choice([2, 3, 3, 4]), False)
        if not _ef_ok(prog):
            continue
        cases.append(("rand", prog, rng.choice(EF_HANDLERS), rng.random() < 0.5))
    built = [_ef_build(p, h, et) for (_, p, h, et) in cases]
    res = lib.pmap(lambda sr: lib.run_both(sr[0], timeout=20), built)
    for i, (b, o) in enumerate(res):
        if b["timeout"] or o["timeout"]:
            res[i] = lib.run_both(built[i][0], timeout=120)
    mouts = lib.run_drv_parallel([r for _, r in built])
    for (tag, prog, h, et), (script, req), (b, o), m in zip(cases, built, res, mouts):
        cb, co = canon(b), canon(o)
        fired = "E" in cb
        ctx.count("ef" + script, nontrivial=fired or "false" in script, bucket="err-fire/" + tag.split("/")[0] + ("/fires" if fired else "/silent"))
        ctx.impl_validated += 1
        case = {"script": script, "family": tag, "request": req, "brush": cb, "bash": co, "model": m, "brush_stderr": b["err"][-300:]}
        parts = m.split(" | ")
        if len(parts) != 3:
            ctx.violation("driver could not evaluate the errfire request", case, kind="correspondence")
            continue
        impl, spec, d = parts
        if co != spec:
            ctx.oracle_mismatch += 1
            ctx.notes.append("err-fire oracle_mismatch: " + tag)
        if cb == co:
            if cb != impl:
                ctx.violation("ERR-firing model and brush disagree (correspondence broken; brush agrees with bash here)", case,
                              kind="correspondence")
            continue
        # brush and bash differ: the property fails on this input
        tb, to = _toks(cb), _toks(co)
        ish = lambda t: t[0] in "Eh"
        if (cb == impl and d == "D" and [t for t in tb if not ish(t)] == [t for t in to if not ish(t)]
                and cb.split(" ")[0] == co.split(" ")[0] and _subseq(to, tb)):
            ctx.known_or_violation("err_trap_fires_again_for_leaving_command",
                                   "the ERR handler also runs for a command that is itself leaving (exit/return)", case)
        else:
            ctx.violation("ERR trap firing: brush and bash differ" + ("" if cb == impl else " (and brush differs from its model)"),
                          case, kind="property")
    ctx.sample({"script": built[0][0], "brush": canon(res[0][0]), "model": mouts[0]})
