#!/bin/bash
# tools/soak.sh "C02 C03" 10 40  → runs the quick tier of each property for seeds 10..40, prints only failures
cd /verif
for p in $1; do
  for s in $(seq $2 $3); do
    out=$(timeout 1800 ./check $p --seed $s 2>&1 | grep -v "^KNOWN" | tail -2)
    if echo "$out" | grep -q "VIOLATION\|Traceback"; then echo "FAIL $p seed $s: $out"; fi
  done
  echo "soaked $p seeds $2..$3"
done
