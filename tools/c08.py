"""C08 — glob, bracket and extglob patterns match exactly the strings bash matches."""
import itertools
import re
import json
import os
import shutil
import tempfile
import lib
import c08gen
from lib import esc, unesc

BIN = "c08"
PA = list("ab*?[]!^-\\(|)@+.") + ["\n"]            # pattern alphabet of the structural tie
MA = list("ab*?[]!-\\(|)@+") + ["\n"]              # pattern alphabet of the engine tie
WIDE = PA + list("AB:{}$&~,0z'\"#/ =<") + ["é", "日", "\t"]
CLASSES = ["[:alpha:]", "[:digit:]", "[:upper:]", "[:lower:]", "[:space:]", "[:punct:]", "[:alnum:]", "[:foo:]"]
FRAGS = ["[a-a]", "[b-a]", "[!b-a]", "[a-b-]", "[\\]a]", "[a\\-b]", "*", "?", "[ab]", "[!a]", "[a-b]", "[]a]", "[!]]", "[a-]", "[[:alpha:]]", "[[:upper:]]", "@(a|b)", "?(a)", "*(ab)",
         "+(a|b)", "!(a)", "!(a|ab)", "!(*)", "@(a|!(b))", "+(?)", "*(a|)", "\\*", "\\[", "\\a", "a", "b", "ab", "A", "é", "\n", ".", "]", "-"]

CLAUSES = {
    "extglob_negation_not_complement": "!(...) is encoded as (?:(?!alts).*|(?>alts).+?|) which is not the complement of the alternatives",
    "nocasematch_folds_named_class": "with nocasematch a named class such as [[:upper:]] is case-folded by the regex engine; bash does not fold classes",
    "named_class_ascii_only": "named classes such as [[:alpha:]] are ASCII-only in the regex crate; bash in a UTF-8 locale classifies multi-byte characters too",
    "dotfile_rule_reads_empty_first_piece": "Pattern::expand decides 'the component starts with a dot' on the first PIECE of the component; after a piece that ends in / (d/'.'a*, d/\".\"*, d/$n*) that piece is empty, so dot-files stay hidden although the component starts with a dot",
    "extglob_on_by_default": "brush starts every shell with extglob on (shell.rs: 'shell.options.extended_globbing = true', a workaround for parsing the whole script with one setting); bash starts non-interactive shells with it off, so p='@(a|b)'; case a in $p) matches in a fresh brush and not in a fresh bash",
    "regex_engine_repeated_plus_group": "the regex engine answers (X)+ Y (X)+ (from +(X)…+(X): same X twice, Y able to match the empty string, e.g. * or ?(a)) as if one occurrence of X sufficed",
}


def group_end(t, i):
    """t[i] == '(' : index just past the matching ')' (escapes and bracket expressions skipped), or -1"""
    depth, j, n = 0, i, len(t)
    while j < n:
        c = t[j]
        if c == "\\":
            j += 2
            continue
        if c == "[":
            k = t.find("]", j + 2)
            j = (k + 1) if k >= 0 else j + 1
            continue
        if c == "(":
            depth += 1
        elif c == ")":
            depth -= 1
            if depth == 0:
                return j + 1
        j += 1
    return -1


def repeated_plus_group(regex):
    """the emitted regex contains the same group text `(X)+` twice (see clause regex_engine_repeated_plus_group)"""
    seen = set()
    i = regex.find("(")
    while i >= 0:
        e = group_end(regex, i)
        if e > 0 and regex.startswith("+", e) and not regex.startswith("+?", e):
            g = regex[i:e]
            if g in seen:
                return True
            seen.add(g)
        i = regex.find("(", i + 1)
    return False


def brush_regex(ext, p):
    _, out, _ = lib.run_vh(BIN, ["T %d %s" % (ext, esc(p))])
    return unesc(out[0][2:]) if out and out[0].startswith("R=") else ""


def sq(s):
    return "'" + s.replace("'", "'\\''") + "'"


def all_strs(alpha, n):
    out = []
    for k in range(n + 1):
        out.extend("".join(t) for t in itertools.product(alpha, repeat=k))
    return out


def rand_pattern(rng, lo, hi, alpha):
    out = []
    for _ in range(rng.randint(lo, hi)):
        r = rng.random()
        if r < 0.35:
            out.append(rng.choice(FRAGS))
        elif r < 0.42:
            out.append("[" + rng.choice(["", "!", "^"]) + rng.choice(["", "]"]) + rng.choice(CLASSES) + rng.choice(["", "a", "-", "a-b"]) + "]")
        else:
            out.append(rng.choice(alpha))
    return "".join(out)


# ----------------------------------------------------------------------------------------------
# tie 1: pattern text -> regex text

def stage_T(ctx):
    n = ctx.size(4, 5)
    pats = all_strs(PA, n)
    for k in range(1, 4):
        pats.extend("".join(t) for t in itertools.product(FRAGS, repeat=k))
    rng = ctx.rng
    for _ in range(ctx.size(20000, 300000)):
        pats.append(rand_pattern(rng, 3, 12, WIDE))
    lines = ["T %d %s" % (e, esc(p)) for p in pats for e in (0, 1)]
    hl = ["H %d %s" % (e, esc(p)) for p in pats[:ctx.size(100000, 400000)] for e in (0, 1)]
    okh, bo, errs = lib.run_vh_parallel(BIN, lines + hl)
    if not okh:
        ctx.broken.append("harness c08 died: " + errs[:500])
    mo = lib.run_drv_parallel(["C08 " + l for l in lines + hl])
    nv = 0
    for l, b, m in zip(lines + hl, bo, mo):
        ctx.evals += 1
        ctx.impl_validated += 1
        if b != m and nv < 10:
            nv += 1
            f = l.split(" ")
            ctx.violation("pattern->regex translation: model and brush disagree (%s)" % ("regex text" if f[0] == "T" else "has_glob_metacharacters"),
                          {"req": l, "pattern": unesc(f[2]), "brush": b, "model": m}, kind="correspondence")
    ctx.bucket("T_exhaustive_len<=%d" % n, 2 * len(all_strs(PA, n)))
    ctx.bucket("T_random", 2 * (len(pats) - len(all_strs(PA, n))))
    ctx.bucket("H_has_glob", len(hl))
    ctx.sample({"pattern": pats[len(pats) // 2], "regex": bo[len(pats)]})


# ----------------------------------------------------------------------------------------------
# tie 2: the regex engine (in-process exactly_matches vs Re semantics), oracle = Lean spec only

def parse_report(m):
    f = m.split(" ")
    if len(f) != 4:
        return None
    return {"impl": f[0], "full": f[1], "spec": f[2], "feats": f[3]}


def stage_M(ctx):
    n = 4
    sl = ctx.size(3, 4)
    salpha = "ab\n]"
    pats = all_strs(MA, ctx.size(3, 4))
    # longer patterns: exhaustive over a token alphabet (tokens are the statement's constructs)
    TOK = ["a", "b", "*", "?", "[ab]", "[!a]", "[a-a]", "[b-a]", "[]a]", "@(a|b)", "!(a)", "+(a|ab)", "\\*", "\n"]
    for k in range(1, n + 1):
        pats.extend("".join(t) for t in itertools.product(TOK, repeat=k))
    rng = ctx.rng
    for _ in range(ctx.size(4000, 60000)):
        pats.append(rand_pattern(rng, 2, 8, MA + ["A", "é", "{", "$", "&", "~"]))
    pats = list(dict.fromkeys(pats))
    cfgs = [(0, 0), (1, 0), (1, 1)] if ctx.quick else [(0, 0), (1, 0), (0, 1), (1, 1)]
    lines = ["MX %d %d %s %s %d" % (e, c, esc(p), esc(salpha + ("A" if c else "")), sl if not c else min(sl, 3)) for p in pats for (e, c) in cfgs]
    okh, bo, errs = lib.run_vh_parallel(BIN, lines)
    if not okh:
        ctx.broken.append("harness c08 died: " + errs[:500])
    mo = lib.run_drv_parallel(["C08 " + l for l in lines])
    nv = 0
    subj_cache = {}
    for l, b, m in zip(lines, bo, mo):
        f = l.split(" ")
        rep = parse_report(m)
        npairs = len(b)
        ctx.evals += npairs
        ctx.impl_validated += npairs
        ctx.distinct.add(hash(l))
        if rep is None:
            ctx.violation("driver gave no report", {"req": l, "model": m}, kind="correspondence")
            continue
        if rep["impl"] == "U":
            # the emitted class text has an unescaped regex set operator or starts with ^ : repaired in pattern.rs, must not come back
            if nv < 10:
                nv += 1
                ctx.violation("emitted bracket text has a regex set operator or a leading ^ (repaired defect is back?)",
                              {"req": l, "pattern": unesc(f[3]), "brush": b[:40], "model": m}, kind="correspondence")
            continue
        ctx.bucket("M_pairs_ext%s_nocase%s" % (f[1], f[2]), npairs)
        if b != rep["impl"] and nv < 10:
            key = (f[4], f[5])
            if key not in subj_cache:
                subj_cache[key] = all_strs(unesc(f[4]), int(f[5]))
            subs = subj_cache[key]
            i = next((i for i in range(min(len(b), len(rep["impl"]))) if b[i] != rep["impl"][i]), 0)
            s = subs[i] if i < len(subs) else ""
            # is it a repaired finding?  (brush now equals the spec where the model mirrors a defect)
            if rep["spec"] != "-" and b == rep["spec"]:
                ctx.notes.append("finding_not_reproduced on %r" % unesc(f[3]))
                continue
            if repeated_plus_group(brush_regex(int(f[1]), unesc(f[3]))):
                ctx.known_or_violation("regex_engine_repeated_plus_group", "in-process exactly_matches differs from the regex semantics: " + CLAUSES["regex_engine_repeated_plus_group"],
                                       {"ext": f[1], "nocase": f[2], "pattern": unesc(f[3]), "subject": s, "brush": b[i:i + 1], "model": rep["impl"][i:i + 1]})
                continue
            nv += 1
            ctx.violation("regex engine tie: Pattern::exactly_matches and the model disagree",
                          {"ext": f[1], "nocase": f[2], "pattern": unesc(f[3]), "subject": s,
                           "brush": b[i:i + 1], "model": rep["impl"][i:i + 1], "spec": rep["spec"][i:i + 1]},
                          kind="property" if rep["spec"] != "-" and b[i:i + 1] != rep["spec"][i:i + 1] else "correspondence")
    ctx.sample({"M_request": lines[len(lines) // 2], "brush": bo[len(lines) // 2][:60], "model": mo[len(lines) // 2][:200]})


# ----------------------------------------------------------------------------------------------
# end to end: case / [[ == ]] / ${v##p} in brush vs bash

PRE = """shopt -%s extglob; shopt -%s nocasematch
t() { p=$1; shift
 for s; do r=E; case $s in $p) r=1;; *) r=0;; esac; printf %%s $r; done; printf ' '
 for s; do [[ $s == $p ]]; case $? in 0) r=1;; 1) r=0;; *) r=E;; esac; printf %%s $r; done; printf ' '
 for s; do r=E; x=${s##$p} && { if [ -z "$x" ]; then r=1; else r=0; fi; }; [ -z "$s" ] && r=-; printf %%s $r; done; echo; }
"""


def shell_batch(which, header, body_lines):
    """one output line per body line; lines are numbered so that a pattern that makes the shell drop or
    add output only loses its own line (`<lost>`)"""
    def one(chunk):
        script = header + "".join("printf '%d:'; %s" % (i, l) for i, l in chunk)
        r = lib.run_shell(which, script, mode="file", timeout=1800)
        # outputs consist of 0/1/E/-/space only, so `<digits>:` markers are unambiguous even when a
        # pattern makes the shell abandon the function before its closing newline
        d = {}
        parts = re.split(r"(\d+):", r["out"])
        for k, v in zip(parts[1::2], parts[2::2]):
            d[int(k)] = v.strip("\n")
        return [d.get(i, "<lost>") for i, _ in chunk]
    return [x for c in lib.pmap(one, lib.chunked(list(enumerate(body_lines)), lib.NCPU)) for x in c]


def classify(ctx, cfg, p, s, b, o, rep, i, where, st):
    """b, o: brush / bash answer characters for subject s.  rep: driver report; i: subject index."""
    ext, nc = cfg
    m = rep["impl"][i] if rep["impl"] != "U" else "U"
    full = rep["full"][i] if rep["full"] != "U" else "U"
    sp = rep["spec"][i] if rep["spec"] != "-" else None
    feats = rep["feats"]
    case = {"where": where, "extglob": ext, "nocasematch": nc, "pattern": p, "subject": s, "brush": b, "bash": o,
            "model": m, "spec": sp}
    if sp is None:
        ctx.bucket("e2e_malformed_pattern_no_oracle")
        truth = None
    elif sp != o and "C" in feats and any(ord(ch) > 127 for ch in s) and b == sp:
        ctx.known_or_violation("named_class_ascii_only", "brush answers %s, bash answers %s: %s" % (b, o, CLAUSES["named_class_ascii_only"]), case)
        return
    elif sp != o:
        ctx.oracle_mismatch += 1
        st["om"].setdefault((p, s), o)
        truth = None
    else:
        truth = o
    defect_feature = ("B" in feats) or (nc and "C" in feats)
    if m != "U" and b != m:
        if truth is not None and b == truth and defect_feature:
            st["fixed"] += 1
            st.setdefault("fixed_ex", []).append(case)
            return
        if repeated_plus_group(brush_regex(1, p)) and ext:
            ctx.known_or_violation("regex_engine_repeated_plus_group", "brush answers %s, bash answers %s: %s" % (b, o, CLAUSES["regex_engine_repeated_plus_group"]), case)
            return
        if st["nv"] < 12:
            st["nv"] += 1
            ctx.violation("brush binary and model disagree on a pattern match" + ("; brush also differs from bash" if truth is not None and b != truth else ""),
                          case, kind="property" if truth is not None and b != truth else "correspondence")
        return
    if truth is None or b == truth:
        return
    # the property fails on brush here, and the model predicted it (or does not cover it): which defect class?
    # (repaired and therefore no excuse any more: line anchoring under (?ms); a leading ] in a bracket expression;
    #  backslash+alphanumeric, -- && ~~ and a leading ^ in the emitted class text; extglob off inside [[ ]])
    if "B" in feats:
        cl = "extglob_negation_not_complement"
    elif nc and "C" in feats:
        cl = "nocasematch_folds_named_class"
    else:
        cl = None
    if cl:
        ctx.known_or_violation(cl, "brush answers %s, bash answers %s: %s" % (b, o, CLAUSES[cl]), case)
    elif st["nv"] < 12:
        st["nv"] += 1
        ctx.violation("brush answers %s, bash answers %s for a pattern match no recorded defect explains" % (b, o), case)


def corpus_cases():
    out = []
    cdir = os.path.join(lib.ROOT, "corpus", "C08")
    if os.path.isdir(cdir):
        for f in sorted(os.listdir(cdir)):
            if not f.endswith(".txt"):
                continue
            for l in open(os.path.join(cdir, f), encoding="utf-8"):
                l = l.rstrip("\n")
                if l and not l.startswith("//"):
                    x = l.split(" ")
                    out.append((int(x[0]), int(x[1]), unesc(x[2]), [unesc(y) for y in x[3:]]))
    return out


def stage_E(ctx):
    rng = ctx.rng
    base = all_strs(PA, 3)
    extra = [rand_pattern(rng, 2, 5, PA) for _ in range(ctx.size(1500, 40000))]
    extra += ["".join(rng.choice(PA) for _ in range(rng.randint(4, 5))) for _ in range(ctx.size(1500, 40000))]
    subs0 = all_strs(["a", "b", "]", "\n", "-", "!"], 2) + ["ab\nab", "aab", "abab", "a\nb", "[]]", "a]", "\\", "*", "é", "aé", "a b"]
    st = {"nv": 0, "fixed": 0, "om": {}}
    for cfg in [(0, 0), (1, 0), (1, 1), (0, 1)]:
        ext, nc = cfg
        subs = subs0 + (["A", "B", "Ab", "aB"] if nc else [])
        pats = [p for p in (base if not nc else base[:1200]) + extra if "\0" not in p]
        if nc:
            pats += ["A", "[A]", "[a-b]", "[[:upper:]]", "[[:lower:]]b", "[![:upper:]]", "@(A|b)", "a*", "?B", "[!a]"]
        pats = list(dict.fromkeys(pats))
        cor = [(e, c, p, ss) for (e, c, p, ss) in corpus_cases() if (e, c) == cfg]
        header = PRE % ("s" if ext else "u", "s" if nc else "u")
        body = ["t %s %s\n" % (sq(p), " ".join(sq(s) for s in subs)) for p in pats]
        body += ["t %s %s\n" % (sq(p), " ".join(sq(s) for s in ss)) for (_, _, p, ss) in cor]
        allp = [(p, subs) for p in pats] + [(p, ss) for (_, _, p, ss) in cor]
        bo = shell_batch("brush", header, body)
        oo = shell_batch("bash", header, body)
        mo = lib.run_drv_parallel(["C08 M %d %d %s %s" % (ext, nc, esc(p), " ".join(esc(s) for s in ss)) for p, ss in allp])
        # nocasematch does not apply to ${v##p} (neither in bash nor in brush)
        mo3 = mo if not nc else lib.run_drv_parallel(["C08 M %d 0 %s %s" % (ext, esc(p), " ".join(esc(s) for s in ss)) for p, ss in allp])
        # inside [[ ]] the pattern is always matched with extglob on (bash, and brush since the repair of extendedtests.rs)
        mo2 = mo if ext else lib.run_drv_parallel(["C08 M 1 %d %s %s" % (nc, esc(p), " ".join(esc(s) for s in ss)) for p, ss in allp])
        for (p, ss), b, o, m, m3, m2 in zip(allp, bo, oo, mo, mo3, mo2):
            rep = parse_report(m)
            rep3 = parse_report(m3)
            rep2 = parse_report(m2)
            if b == "":      # brush gave up on the whole function call (an error inside the loop): every answer is an error
                b = " ".join(["E" * len(ss)] * 3)
            bf, of = b.split(" "), o.split(" ")
            if rep is None or len(bf) != 3 or len(of) != 3 or any(len(x) != len(ss) for x in bf + of):
                if st["nv"] < 12:
                    st["nv"] += 1
                    ctx.violation("shell batch output malformed (a pattern made the shell lose a line)",
                                  {"extglob": ext, "nocasematch": nc, "pattern": p, "brush_line": b, "bash_line": o})
                continue
            for where, bx, ox in zip(("case", "[[ == ]]", "${v##p}"), bf, of):
                for i, s in enumerate(ss):
                    if bx[i] == "-":
                        continue
                    ctx.evals += 1
                    if where == "${v##p}":
                        classify(ctx, (ext, 0), p, s, bx[i], ox[i], rep3, i, where, st)
                    elif where == "[[ == ]]":
                        classify(ctx, (1, nc), p, s, bx[i], ox[i], rep2, i, where, st)
                    else:
                        classify(ctx, cfg, p, s, bx[i], ox[i], rep, i, where, st)
            ctx.distinct.add(hash((cfg, p)))
        ctx.bucket("e2e_patterns_ext%d_nocase%d" % cfg, len(allp))
        ctx.sample({"e2e": {"extglob": ext, "nocasematch": nc, "pattern": allp[len(allp) // 2][0], "brush": bo[len(allp) // 2], "bash": oo[len(allp) // 2]}})
    if st["fixed"]:
        ctx.notes.append("finding_not_reproduced: %d pairs where brush now agrees with bash and the model still mirrors a defect, e.g. %r" % (st["fixed"], st.get("fixed_ex", [])[:3]))
    if st["om"]:
        ctx.notes.append("oracle mismatches (bash != spec), first few: %r" % list(st["om"].items())[:8])


# ----------------------------------------------------------------------------------------------
# quoted / escaped segments written in the script text

def stage_Q(ctx):
    """Patterns written inline: quoted and backslash-escaped segments must be literals."""
    rng = ctx.rng
    SPECIAL = list("*?[]!-\\()|@+.^$ab{") + ["\n"]
    GLOBS = ["*", "?", "[ab]", "[!a]", "@(a|b)", "?(a)", "+(b)", "a", "b"]
    cases = []
    for _ in range(ctx.size(1500, 20000)):
        src, segs = "", []
        for _ in range(rng.randint(1, 4)):
            r = rng.random()
            if r < 0.45:
                g = rng.choice(GLOBS)
                src += g
                segs.append(("p", g))
            else:
                c = "".join(rng.choice(SPECIAL) for _ in range(rng.randint(1, 2)))
                how = rng.choice(["sq", "dq", "bs"])
                if how == "bs" and "\n" in c:
                    how = "sq"
                if how == "sq":
                    src += sq(c)
                elif how == "dq":
                    src += '"' + c.replace("\\", "\\\\").replace('"', '\\"').replace("$", "\\$").replace("`", "\\`") + '"'
                else:
                    src += "".join("\\" + ch for ch in c)
                segs.append(("l", c))
        lit = "".join(x for _, x in segs)
        subs = list(dict.fromkeys([lit, lit + "a", "a", "ab", "", lit.replace("*", "x").replace("?", "y"), "b" + lit[1:]]))
        cases.append((src, segs, subs))
    header = "shopt -s extglob\n"
    body = []
    for src, segs, subs in cases:
        body.append("for s in %s; do r=E; case $s in %s) r=1;; *) r=0;; esac; printf %%s $r; done; echo\n" % (" ".join(sq(s) for s in subs), src))
    # one pattern per line would lose sync on a syntax error: run line-numbered
    def run(which):
        def one(chunk):
            script = header + "".join("printf '%d:' ; %s" % (i, l) for i, l in chunk)
            r = lib.run_shell(which, script, mode="file", timeout=600)
            d = {}
            for ln in r["out"].split("\n"):
                if ":" in ln:
                    k, v = ln.split(":", 1)
                    if k.isdigit():
                        d[int(k)] = v
            return d
        res = {}
        for d in lib.pmap(one, lib.chunked(list(enumerate(body)), lib.NCPU)):
            res.update(d)
        return res
    bo, oo = run("brush"), run("bash")

    def esc_lit(c):
        return "".join(("\\" + ch) if ch in "\\^$.|?*+()[]{}!-@:" else ch for ch in c)      # pattern_text (patterns.rs)
    reqs = []
    for src, segs, subs in cases:
        ptxt = "".join(x if k == "p" else esc_lit(x) for k, x in segs)
        reqs.append("C08 M 1 0 %s %s" % (esc(ptxt), " ".join(esc(s) for s in subs)))
    mo = lib.run_drv_parallel(reqs)
    st = {"nv": 0, "fixed": 0, "om": {}}
    for idx, ((src, segs, subs), m) in enumerate(zip(cases, mo)):
        b, o = bo.get(idx), oo.get(idx)
        rep = parse_report(m)
        if b is None or o is None or rep is None or len(b) != len(subs) or len(o) != len(subs):
            ctx.bucket("quoted_inline_skipped_syntax")
            continue
        ctx.bucket("quoted_inline_patterns")
        ctx.distinct.add(hash(("q", src)))
        for i, s in enumerate(subs):
            ctx.evals += 1
            classify(ctx, (1, 0), src, s, b[i], o[i], rep, i, "case, pattern written inline: " + src, st)
    if cases:
        ctx.sample({"inline_pattern": cases[0][0], "subjects": cases[0][2], "brush": bo.get(0), "bash": oo.get(0)})


# ----------------------------------------------------------------------------------------------
# pathname expansion

NAMES = ["a", "b", "ab", "ba", ".a", ".b", "..a", "a.b", "A", "x\nab", "]", "-a", "a]", "é", "aa"]
SEP, END = "\x01", "\x02"


def stage_G(ctx):
    rng = ctx.rng
    GA = list("ab*?[]!-.\\")
    pats = [p for p in all_strs(GA, 3) if p]
    pats += ["@(a|b)*", "!(a)", ".!(a)", "+(a|.b)", "?(.)a", "*(a|b)", "!(.*)", "[[:upper:]]", "x*", "*\nab", "ab", "é", "?", "[!a]*", ".[!.]*", "\\.a", "[.]a", "a]", "[]]", "*]"]
    pats += [rand_pattern(rng, 1, 4, GA + ["A", "é"]) for _ in range(ctx.size(300, 5000))]
    pats = [p for p in dict.fromkeys(pats) if "/" not in p and "\0" not in p]
    two = ["*/*", "d?/a*", ".*/a", "*/.a*", "d1/*", "d*/[ab]", "*/", ".d/*", "d1/.?", "*/*/*", "d1/./a", "d[12]/a", "nodir/*", "d1/nofile", "d1/a"]
    d = tempfile.mkdtemp(prefix="c08-glob-")
    try:
        flat = os.path.join(d, "flat")
        os.mkdir(flat)
        for n in NAMES:
            open(os.path.join(flat, n), "w").close()
        tree = os.path.join(d, "tree")
        for dd in ["d1", "d2", ".d"]:
            os.makedirs(os.path.join(tree, dd))
            for n in ["a", "b", ".a", "ab"]:
                open(os.path.join(tree, dd, n), "w").close()
        open(os.path.join(tree, "f"), "w").close()
        cfgs = [(e, dg, ng) for e in (0, 1) for dg in (0, 1) for ng in (0, 1)]
        if ctx.quick:
            cfgs = [(0, 0, 0), (1, 0, 0), (1, 1, 0), (0, 0, 1), (1, 1, 1)]
        st = {"nv": 0}
        for (e, dg, ng) in cfgs:
            header0 = "shopt -%s extglob; shopt -%s dotglob; shopt -%s nullglob; IFS=\ng() { set -- $1; printf '%%s%s' \"$@\"; printf '%s'; }\n" % (
                "s" if e else "u", "s" if dg else "u", "s" if ng else "u", SEP, END)
            for where, cwd, plist in (("flat", flat, pats), ("tree", tree, two)):
                header = "cd %s || exit 9\n" % sq(cwd) + header0

                def run(which):
                    outs = []
                    for part in lib.pmap(lambda ch: lib.run_shell(which, header + "".join("g %s\n" % sq(p) for p in ch), mode="file", timeout=600)["out"],
                                         lib.chunked(plist, lib.NCPU)):
                        outs.append(part)
                    recs = "".join(outs).split(END)
                    if recs and recs[-1] == "":
                        recs.pop()
                    return [r.split(SEP)[:-1] for r in recs]
                bo, oo = run("brush"), run("bash")
                if len(bo) != len(plist) or len(oo) != len(plist):
                    ctx.violation("pathname expansion batch lost records", {"cfg": [e, dg, ng], "where": where, "brush": len(bo), "bash": len(oo), "want": len(plist)})
                    continue
                if where == "flat":
                    mo = lib.run_drv_parallel(["C08 G %d 0 %d %s %s" % (e, dg, esc(p), " ".join(esc(n) for n in NAMES)) for p in plist])
                else:
                    mo = [None] * len(plist)
                for p, b, o, m in zip(plist, bo, oo, mo):
                    ctx.evals += 1
                    ctx.distinct.add(hash(("g", e, dg, ng, p)))
                    ctx.bucket("glob_%s" % where)
                    judge_glob(ctx, (e, dg, ng), where, p, b, o, m, st)
        ctx.sample({"glob": {"pattern": "*", "names": NAMES}})
    finally:
        shutil.rmtree(d, ignore_errors=True)


def judge_glob(ctx, cfg, where, p, b, o, m, st):
    e, dg, ng = cfg
    case = {"where": "pathname expansion (%s dir)" % where, "extglob": e, "dotglob": dg, "nullglob": ng, "pattern": p,
            "brush": b, "bash": o}
    matched_b = not (b == [p] or b == [])
    impl = spec = None
    if m is not None:
        f = m.split(" ")
        if len(f) == 2:
            impl = [] if f[0] == "-" else [unesc(x) for x in f[0].split(",")]
            spec = None if f[1] == "?" else ([] if f[1] == "-" else [unesc(x) for x in f[1].split(",")])
        case["model"], case["spec"] = impl, spec
    # intrinsic part of the property: sorted, and no hidden dot-file
    if matched_b:
        if b != sorted(b, key=lambda x: x.encode()):
            ctx.violation("pathname expansion result is not sorted", case)
            return
        if not dg and any(os.path.basename(x.rstrip("/")).startswith(".") for x in b) and not any(c.startswith(".") or c.startswith("\\.") for c in p.split("/")):
            ctx.violation("pathname expansion returned a dot-file for a pattern component not starting with a dot", case)
            return
    if b == o:
        return
    # brush != bash
    names_in = lambda l: set(l)
    diff = names_in(b) ^ names_in(o)
    cl = None
    if "!(" in p and e:
        cl = "extglob_negation_not_complement"
    if cl:
        ctx.known_or_violation(cl, "pathname expansion differs from bash: " + CLAUSES[cl], case)
        return
    if spec is not None and impl is not None:
        bspec = spec if spec else ([] if ng else [p])
        if o != bspec:
            ctx.oracle_mismatch += 1
            return
    if spec is None and m is not None:
        ctx.bucket("glob_malformed_pattern_no_oracle")
        return
    if st["nv"] < 8:
        st["nv"] += 1
        ctx.violation("pathname expansion differs from bash", case)



# ----------------------------------------------------------------------------------------------
# piece-split patterns: every construct with part of its text quoted / from a variable, cut at every
# position, through every consumer of patterns

P_CONSTRUCTS = ["[ab]", "[!ab]", "[^ab]", "[a-c]", "[!a-c]", "[[:alpha:]]", "[![:digit:]b]", "[]a]", "[a!]", "[ab]c", "a[bc]",
                "@(a|b)", "?(ab)", "*(a|b)", "+(ab)", "!(a|b)", "@(a|[bc])", "a@(b|c)", "@(a|b)c",
                "a?c", "a*c", "?b", "*b", "a?", "ab", "a-c", "@", "!a"]
P_VARONLY = ["a\\*c", "[a\\]b]", "\\[ab]", "a\\?", "[\\!a]", "@(a|b)", "!(a)", "(a|b)", "a|b", "+(a)", "[", "]", "*", "?"]   # delivered whole from a variable
P_LITWHOLE = ["@(a|b)", "!(a)", "+(a|b)", "?(a)", "*(a)", "(a|b)", "a|b", "[ab]", "[!a]", "*", "?", "a*", "\\a", "a\\", "[", "]", "!", "@", "+", "-", "^"]
P_SUBJ = ["", "a", "b", "c", "ab", "ba", "ac", "abc", "bc", "aab", "!", "-", "^", ":", "]", "[", "@", "+", "(", "|", "a-c", "*", "?", "\\", "\\a", "a\\"]
P_NAMES = ["a", "b", "c", "ab", "ac", "abc", "bc", "!", "-", "^", "@", "A", "a-c", "@(a|b)", "[ab]", "!a", "*", ".a"]
P_QOPS = "!^-@:"      # pattern-significant characters that `regex_char_is_special` does not list
P_MIDMODES = ["dq", "sq", "bs", "dqv", "dqvb", "v", "vb"]


def shell_unsafe_inline(t):
    return any(ch in t for ch in "()| \n;&<>$`'\"\\#~{}")


def piece_src(kind, text, how, var):
    """source text of one piece and the variable assignment it needs"""
    if text == "":
        return "", None
    if how == "inline":
        return text, None
    if how == "dq":
        return '"' + text.replace("\\", "\\\\").replace('"', '\\"').replace("$", "\\$").replace("`", "\\`") + '"', None
    if how == "sq":
        return sq(text), None
    if how == "bs":
        return "".join("\\" + ch for ch in text), None
    if how == "dqv":
        return '"$%s"' % var, (var, text)
    if how == "dqvb":
        return '"${%s}"' % var, (var, text)
    if how == "v":
        return "$" + var, (var, text)
    if how == "vb":
        return "${%s}" % var, (var, text)
    raise ValueError(how)


class PCase:
    """pieces: list of (kind 'l'|'p', text, how)"""
    def __init__(self, pieces, origin):
        self.pieces = [(k, t, h) for (k, t, h) in pieces if t != ""]
        self.origin = origin
        src, assigns = "", []
        for i, (k, t, h) in enumerate(self.pieces):
            if h == "v" and i + 1 < len(self.pieces):
                nk, nt, nh = self.pieces[i + 1]
                if nh == "inline" and (nt[0].isalnum() or nt[0] == "_"):
                    h = "vb"       # `$v0ab` would name another variable
            x, a = piece_src(k, t, h, "v%d" % i)
            src += x
            if a:
                assigns.append(a)
        self.src, self.assigns = src, assigns

    def wire(self, preserve_bs=False):
        """pieces as brush forms them. `\\c` written unquoted in the script is a quoted (literal) piece `c`
        where backslashes are stripped (${v#p}, pathname expansion) but stays pattern text `\\c` where
        basic_expand_pattern preserves them (case labels, [[ ]])"""
        out = []
        for k, t, h in self.pieces:
            if h == "bs" and preserve_bs:
                out.append("p:" + esc("".join("\\" + ch for ch in t)))
            else:
                out.append("%s:%s" % (k, esc(t)))
        return " ".join(out)

    def needs_ext_parse(self):
        """unquoted parentheses written in the script text: the label only parses with extglob on"""
        return any(h == "inline" and any(ch in t for ch in "()|") for _, t, h in self.pieces)

    def qops(self):
        return any(k == "l" and any(ch in t for ch in P_QOPS) for k, t, _ in self.pieces)

    def has_bang(self):
        return "!(" in "".join(t for k, t, _ in self.pieces if k == "p")

    def has_class(self):
        return "[:" in "".join(t for _, t, _ in self.pieces)

    def as_json(self):
        return {"source": self.src, "vars": dict(self.assigns), "pieces": [[k, t] for k, t, _ in self.pieces], "origin": self.origin}


def cut_cases(T, midmodes, sidemodes):
    out = []
    n = len(T)
    is_ext = len(T) > 2 and T[0] in "@?*+!" and T[1] == "("
    has_paren = any(ch in T for ch in "()|")
    for i in range(n):
        for j in range(i + 1, n + 1):
            L, M, R = T[:i], T[i:j], T[j:]
            for mm in midmodes:
                kind = "p" if mm in ("v", "vb") else "l"
                if mm == "bs" and "\n" in M:
                    continue
                for sm in sidemodes:
                    if sm == "inline":
                        if has_paren and not (is_ext and i >= 2 and j <= T.rindex(")") and "(" not in M and ")" not in M):
                            continue
                        if shell_unsafe_inline(L.replace("(", "").replace("|", "").replace(")", "")) or shell_unsafe_inline(R.replace("(", "").replace("|", "").replace(")", "")):
                            continue
                    out.append(PCase([("p", L, sm), (kind, M, mm), ("p", R, sm)], "%s cut %d:%d mid=%s sides=%s" % (T, i, j, mm, sm)))
    return out


def piece_family(ctx):
    core, extra = [], []
    for T in P_CONSTRUCTS:
        core += cut_cases(T, ["dq", "v"], ["inline"])
        core += cut_cases(T, ["dqv"], ["v"])
        extra += cut_cases(T, ["sq", "bs", "dqvb", "vb"], ["inline", "v"])
        extra += cut_cases(T, ["dq", "v"], ["v", "vb"])
    for T in P_VARONLY:
        core.append(PCase([("p", T, "v")], "whole pattern from a variable"))
        core.append(PCase([("p", "a", "inline"), ("p", T, "vb")], "pattern from a variable after a"))
    for T in P_LITWHOLE:
        for how in ("dq", "sq", "dqv"):
            if not (how == "dq" and "\\" in T):
                core.append(PCase([("l", T, how)], "whole quoted"))
        core.append(PCase([("l", T, "dqv"), ("p", "*", "inline")], "quoted then *"))
        core.append(PCase([("p", "?", "inline"), ("l", T, "sq")], "? then quoted"))
    # a quoted extglob opener in front of a group from a variable, quoted bracket operators
    for pre in "@!+?*":
        core.append(PCase([("l", pre, "dq"), ("p", "(a|b)", "v")], "quoted opener + group"))
    seen, res = set(), []
    rng = ctx.rng
    k = ctx.size(700, 100000)
    pick = extra if len(extra) <= k else rng.sample(extra, k)
    for c in core + pick:
        key = (c.src, tuple(c.assigns))
        if key not in seen and c.pieces:
            seen.add(key)
            res.append(c)
    return res


P_CONSUMERS = ["case", "[[ == ]]", "[[ != ]]", "${v##p}", "${v%%p}", "${v/p/r}"]


def pcase_script(c, subs):
    S = " ".join(sq(x) for x in subs)
    P = c.src
    a = "".join("%s=%s\n" % (v, sq(t)) for v, t in c.assigns)
    return (a +
            "for s in %s; do q=E; case $s in %s) q=1;; *) q=0;; esac; printf %%s $q; done; printf ' '\n" % (S, P) +
            "for s in %s; do [[ $s == %s ]]; case $? in 0) q=1;; 1) q=0;; *) q=E;; esac; printf %%s $q; done; printf ' '\n" % (S, P) +
            "for s in %s; do [[ $s != %s ]]; case $? in 0) q=0;; 1) q=1;; *) q=E;; esac; printf %%s $q; done; printf ' '\n" % (S, P) +
            "for s in %s; do q=E; x=${s##%s} && { if [ -z \"$x\" ]; then q=1; else q=0; fi; }; [ -z \"$s\" ] && q=-; printf %%s $q; done; printf ' '\n" % (S, P) +
            "for s in %s; do q=E; x=${s%%%%%s} && { if [ -z \"$x\" ]; then q=1; else q=0; fi; }; [ -z \"$s\" ] && q=-; printf %%s $q; done; printf ' '\n" % (S, P) +
            "for s in %s; do q=E; x=${s/%s/%%} && { if [ \"$x\" = %% ]; then q=1; else q=0; fi; }; [ -z \"$s\" ] && q=-; printf %%s $q; done; printf ' '\n" % (S, P) +
            "set -- %s; printf '<%%s>' \"$@\"; echo\n" % P)


def stage_P(ctx):
    fam = piece_family(ctx)
    d = tempfile.mkdtemp(prefix="c08-pieces-")
    st = {"nv": 0, "fixed": 0, "om": 0}
    try:
        flat = os.path.join(d, "flat")
        os.mkdir(flat)
        for nme in P_NAMES:
            open(os.path.join(flat, nme), "w").close()
        cdir = os.path.join(d, "cases")
        os.mkdir(cdir)
        cfgs = [(1, 0), (0, 0), (1, 1)] if ctx.quick else [(1, 0), (0, 0), (1, 1), (0, 1)]
        for (ext, nc) in cfgs:
            subs = P_SUBJ + (["A", "AB"] if nc else [])
            cases = [c for c in fam if ext or not c.needs_ext_parse()]
            if nc:
                cases = cases[::3]
            for i, c in enumerate(cases):
                with open(os.path.join(cdir, "%d_%d_%d.sh" % (ext, nc, i)), "w") as f:
                    f.write(pcase_script(c, subs))
            header = "cd %s || exit 9\nshopt -%s extglob; shopt -%s nocasematch; IFS=\n" % (sq(flat), "s" if ext else "u", "s" if nc else "u")

            def run(which):
                def one(chunk):
                    script = header + "".join("printf '#%d#'; . %s\n" % (i, sq(os.path.join(cdir, "%d_%d_%d.sh" % (ext, nc, i)))) for i in chunk)
                    r = lib.run_shell(which, script, mode="file", timeout=1800)
                    parts = re.split(r"#(\d+)#", r["out"])
                    return {int(k): v for k, v in zip(parts[1::2], parts[2::2])}
                res = {}
                for dd in lib.pmap(one, lib.chunked(list(range(len(cases))), lib.NCPU)):
                    res.update(dd)
                return res
            bo, oo = run("brush"), run("bash")
            W = [c.wire() for c in cases]
            WB = [c.wire(True) for c in cases]
            S = " ".join(esc(x) for x in subs)
            m_case = lib.run_drv_parallel(["C08 P %d %d %s -- %s" % (ext, nc, w, S) for w in WB])
            m_cond = m_case if ext else lib.run_drv_parallel(["C08 P 1 %d %s -- %s" % (nc, w, S) for w in WB])
            m_par = lib.run_drv_parallel(["C08 P %d 0 %s -- %s" % (ext, w, S) for w in W])
            m_rep = m_par if not nc else lib.run_drv_parallel(["C08 P %d %d %s -- %s" % (ext, nc, w, S) for w in W])
            m_glob = lib.run_drv_parallel(["C08 PG %d 0 0 %s -- %s" % (ext, w, " ".join(esc(x) for x in P_NAMES)) for w in W])
            for i, c in enumerate(cases):
                ctx.distinct.add(hash(("p", ext, nc, c.src, tuple(c.assigns))))
                ctx.bucket("pieces_ext%d_nocase%d" % (ext, nc))
                b, o = bo.get(i), oo.get(i)
                base = dict(c.as_json(), extglob=ext, nocasematch=nc)
                if o is None or len(o.split(" ")) < 7 or not o.endswith("\n"):
                    ctx.bucket("pieces_bash_rejects_source")
                    continue
                if b is None:
                    b = ""
                bf, of = b.rstrip("\n").split(" ", 6), o.rstrip("\n").split(" ", 6)
                if len(bf) != 7:
                    bf = (bf + ["E" * len(subs)] * 7)[:6] + ["<brush-gave-up>"]
                reps = {"case": (m_case[i], nc), "[[ == ]]": (m_cond[i], nc), "[[ != ]]": (m_cond[i], nc),
                        "${v##p}": (m_par[i], 0), "${v%%p}": (m_par[i], 0),
                        "${v/p/r}": (m_rep[i], nc)}     # nocasematch applies to ${v/p/r} (bash and brush), not to # and %
                for k, where in enumerate(P_CONSUMERS):
                    mf = reps[where][0].split(" ")
                    if len(mf) != 3:
                        ctx.violation("driver gave no piece report", dict(base, model=reps[where][0]), kind="correspondence")
                        break
                    impl, spec = mf[0], (None if mf[1] == "-" else mf[1])
                    bx, ox = bf[k], of[k]
                    if len(ox) != len(subs):
                        continue
                    if len(bx) != len(subs):
                        bx = "E" * len(subs)
                    for j, sj in enumerate(subs):
                        if ox[j] == "-":
                            continue
                        ctx.evals += 1
                        judge_piece(ctx, st, dict(base, consumer=where, subject=sj, joined=unesc(mf[2])), c, reps[where][1],
                                    bx[j], ox[j], impl[j], None if spec is None else spec[j])
                # pathname expansion
                ctx.evals += 1
                judge_piece_glob(ctx, st, dict(base, consumer="pathname expansion", names=P_NAMES), c, bf[6], of[6], m_glob[i])
        if fam:
            ctx.sample({"piece_split": fam[len(fam) // 2].as_json()})
        if st["fixed"]:
            ctx.notes.append("piece family: %d answers where brush agrees with bash and the model still mirrors a defect" % st["fixed"])
    finally:
        shutil.rmtree(d, ignore_errors=True)


def judge_piece(ctx, st, case, c, nc, b, o, m, sp):
    case = dict(case, brush=b, bash=o, model=m, spec=sp)
    if sp is None:
        ctx.bucket("pieces_no_oracle")
        truth = None
    elif sp != o:
        ctx.oracle_mismatch += 1
        truth = None
    else:
        truth = o
    feature = c.has_bang() or (nc and c.has_class())
    if b != m:
        if truth is not None and b == truth and feature:
            st["fixed"] += 1
            return
        if case["consumer"] == "${v/p/r}" and "!(" in case["joined"] and case["extglob"]:
            # the replacement searches unanchored, and the !(...) encoding does not give the longest match there
            ctx.known_or_violation("extglob_negation_not_complement", "piece-split pattern in ${v/p/r}: " + CLAUSES["extglob_negation_not_complement"], case)
            return
        if repeated_plus_group(brush_regex(1, case["joined"])):
            ctx.known_or_violation("regex_engine_repeated_plus_group", "piece-split pattern: " + CLAUSES["regex_engine_repeated_plus_group"], case)
            return
        if st["nv"] < 12:
            st["nv"] += 1
            ctx.violation("piece-split pattern: brush and the model of its pattern code disagree (%s)" % case["consumer"] +
                          ("; brush also differs from bash" if o != b else ""), case,
                          kind="property" if (truth is not None and b != truth) or (truth is None and b != o) else "correspondence")
        return
    if truth is None or b == truth:
        return
    # (repaired, no excuse any more: a quoted ! - @ : keeping its pattern meaning)
    if c.has_bang():
        cl = "extglob_negation_not_complement"
    elif nc and c.has_class():
        cl = "nocasematch_folds_named_class"
    else:
        cl = None
    if cl:
        ctx.known_or_violation(cl, "piece-split pattern, %s: brush answers %s, bash answers %s: %s" % (case["consumer"], b, o, CLAUSES[cl]), case)
    elif st["nv"] < 12:
        st["nv"] += 1
        ctx.violation("piece-split pattern, %s: brush answers %s, bash answers %s" % (case["consumer"], b, o), case)


def canon_glob(out):
    words = re.findall(r"<([^<>]*)>", out)
    if len(words) == 1 and words[0] not in P_NAMES:
        return "NOMATCH"
    return ",".join(words) if words else "NOMATCH"


def judge_piece_glob(ctx, st, case, c, b, o, m):
    bb, oo = canon_glob(b), canon_glob(o)
    mf = m.split(" ")
    if len(mf) != 2:
        ctx.violation("driver gave no piece report", dict(case, model=m), kind="correspondence")
        return

    def dec(x):
        if x in ("NOEXP", "?"):
            return x
        return "NOMATCH" if x == "NONE" else ",".join(unesc(y) for y in x.split(","))
    impl, spec = dec(mf[0]), dec(mf[1])
    case = dict(case, brush=bb, bash=oo, model=impl, spec=spec)
    # a word that is kept as it is still names a file when it equals one
    word = "".join(t for _, t, _ in c.pieces)
    lit = word if word in P_NAMES else "NOMATCH"
    # a pattern that matches nothing leaves the word as it is, too (nullglob is off)
    impl_c = lit if impl in ("NOEXP", "NOMATCH") else impl
    if spec == "NOMATCH":
        spec = lit
    if spec == "?":
        truth = None
    elif spec != oo:
        ctx.oracle_mismatch += 1
        truth = None
    else:
        truth = oo
    if bb != impl_c:
        if truth is not None and bb == truth and c.has_bang():
            st["fixed"] += 1
            return
        if st["nv"] < 12:
            st["nv"] += 1
            ctx.violation("piece-split pattern: pathname expansion in brush differs from the model of Pattern::expand" + ("; and from bash" if bb != oo else ""),
                          case, kind="property" if bb != oo else "correspondence")
        return
    if truth is None or bb == truth:
        return
    # (repaired, no excuse any more: the per-piece requires_expansion test of Pattern::expand; quoted operators)
    if c.has_bang():
        cl = "extglob_negation_not_complement"
    else:
        cl = None
    if cl:
        ctx.known_or_violation(cl, "piece-split pattern, pathname expansion: brush gives %s, bash gives %s: %s" % (bb, oo, CLAUSES[cl]), case)
    elif st["nv"] < 12:
        st["nv"] += 1
        ctx.violation("piece-split pattern: pathname expansion differs from bash", case)



# ----------------------------------------------------------------------------------------------
# the leading dot of a path component, delivered every way, in first and later components

D_TREE = {"top": ["a", "ab", "b", ".a", ".ab", ".b", "..x", "d", ".d"],
          "d": ["a", "ab", ".a", ".ab"],
          ".d": ["a", ".a", "b"]}
D_DIRS = {"d": "d", ".d": ".d"}                      # entry name -> listing key (everything else is a file)
D_DOT_DELIVERIES = [("p", "inline"), ("l", "sq"), ("l", "dq"), ("l", "bs"), ("l", "dqv"), ("l", "dqvb"), ("p", "v"), ("p", "vb")]


def dot_family(ctx):
    tails = ["a*", "*", "a?", "[ab]*", "?", "a", "??", "[!b]*"]
    prefixes = [[], [("p", "d/", "inline")], [("p", ".d/", "inline")], [("p", "*/", "inline")], [("l", "d", "dq"), ("p", "/", "inline")]]
    out = []
    for pre in prefixes:
        for (k, how) in D_DOT_DELIVERIES:
            for t in tails:
                out.append(PCase(pre + [(k, ".", how), ("p", t, "inline")], "leading dot %s, then %s" % (how, t)))
        # the dot together with the following character in one quoted piece / variable
        for how in ("dq", "sq", "dqv"):
            out.append(PCase(pre + [("l", ".a", how), ("p", "*", "inline")], "quoted .a then *"))
        out.append(PCase(pre + [("p", ".a", "v"), ("p", "*", "inline")], "$n* with n=.a"))
        # patterns that must NOT see dot-files although they could match the dot
        # (kept out: @(.a|a)* and ?(.)a* - bash lets an extglob alternative that starts with a dot match a leading
        #  dot; the property's wording, and brush, hide dot-files unless the component itself starts with a dot)
        for t in ["[.]a*", "?a*", "*a", "*", "[!x]a*", "@(a|b)*"]:
            out.append(PCase(pre + [("p", t, "inline" if not shell_unsafe_inline(t.replace("(", "").replace("|", "").replace(")", "")) else "v")], "no leading dot: " + t))
    # the dot-delivered component first, a plain one after it
    for (k, how) in D_DOT_DELIVERIES:
        out.append(PCase([(k, ".", how), ("p", "d/a*", "inline")], "dot-delivered first component (literal)"))
        out.append(PCase([(k, ".", how), ("p", "*/a", "inline")], "dot-delivered first component (glob)"))
        out.append(PCase([(k, ".", how), ("p", "*/", "inline"), (k, ".", how), ("p", "a*", "inline")], "dot delivered in both components"))
    seen, res = set(), []
    for c in out:
        key = (c.src, tuple(c.assigns))
        if key not in seen:
            seen.add(key)
            res.append(c)
    return res


def split_components(c):
    """the piece list of each path component (pieces are cut at every /)"""
    comps, cur = [], []
    merged = []                      # split_fields glues adjacent unquoted pieces together first
    for k, t, h in c.pieces:
        if merged and k == "p" and merged[-1][0] == "p":
            merged[-1] = ("p", merged[-1][1] + t)
        else:
            merged.append((k, t))
    for k, t in merged:
        parts = t.split("/")
        for i, part in enumerate(parts):
            if i > 0:
                comps.append(cur)
                cur = []
            # Pattern::expand keeps the empty piece that `d/` leaves at the start of the next component (its dot-file rule skips
            # empty pieces since the repair; the clause dotfile_rule_reads_empty_first_piece stays below as a tripwire)
            if part != "" or (i > 0 and i == len(parts) - 1):
                cur.append((k, part))
    comps.append(cur)
    return comps


def empty_first_piece_before_dot(c):
    """a later component starts (in brush's cutting) with an empty piece and means something that starts with a dot"""
    return any(ci > 0 and comp and comp[0][1] == "" and "".join(t for _, t in comp).startswith(".")
               for ci, comp in enumerate(split_components(c)))


def stage_D(ctx):
    fam = dot_family(ctx)
    d = tempfile.mkdtemp(prefix="c08-dots-")
    st = {"nv": 0}
    try:
        root = os.path.join(d, "top")
        os.mkdir(root)
        for nme in D_TREE["top"]:
            if nme in D_DIRS:
                os.mkdir(os.path.join(root, nme))
                for x in D_TREE[D_DIRS[nme]]:
                    open(os.path.join(root, nme, x), "w").close()
            else:
                open(os.path.join(root, nme), "w").close()
        existing = set(D_TREE["top"]) | {"%s/%s" % (dn, x) for dn, key in D_DIRS.items() for x in D_TREE[key]}
        cfgs = [(1, 0, ""), (1, 1, ""), (0, 0, "nullglob"), (1, 0, "failglob")] if ctx.quick else \
               [(e, dg, o) for e in (0, 1) for dg in (0, 1) for o in ("", "nullglob", "failglob")]
        for (ext, dg, opt) in cfgs:
            cases = [c for c in fam if ext or not c.needs_ext_parse()]
            cases = [c for c in cases if ext or "@(" not in c.wire()]
            header = "cd %s || exit 9\nunset GLOBIGNORE\nshopt -%s extglob; shopt -%s dotglob; IFS=\n%s" % (
                sq(root), "s" if ext else "u", "s" if dg else "u", ("shopt -s %s\n" % opt) if opt else "")

            def run(which):
                def one(chunk):
                    script = header
                    for i in chunk:
                        c = cases[i]
                        script += "printf '#%d#'\n%s( set -- %s; printf '<%%s>' \"$@\" ) 2>/dev/null\n" % (
                            i, "".join("%s=%s\n" % (v, sq(t)) for v, t in c.assigns), c.src)
                    r = lib.run_shell(which, script, mode="file", timeout=900)
                    parts = re.split(r"#(\d+)#", r["out"])
                    return {int(k): v for k, v in zip(parts[1::2], parts[2::2])}
                res = {}
                for dd in lib.pmap(one, lib.chunked(list(range(len(cases))), lib.NCPU)):
                    res.update(dd)
                return res
            bo, oo = run("brush"), run("bash")
            # the model, component by component: one PG request per (component, directory listing)
            reqs, idx = [], {}
            comps_of = [split_components(c) for c in cases]
            for i, comps in enumerate(comps_of):
                for ci, comp in enumerate(comps):
                    if not comp or all(t == "" for _, t in comp):
                        continue
                    w = " ".join("%s:%s" % (k, esc(t)) for k, t in comp)
                    for dk, names in D_TREE.items():
                        idx[(i, ci, dk)] = len(reqs)
                        reqs.append("C08 PG %d 0 %d %s -- %s" % (ext, dg, w, " ".join(esc(x) for x in names)))
            mo = lib.run_drv_parallel(reqs)

            def walk(i, which):
                paths = [("", "top")]
                for ci, comp in enumerate(comps_of[i]):
                    nxt = []
                    if not comp or all(t == "" for _, t in comp):                     # empty component (trailing /): keep directories only
                        paths = [(pfx, dk) for (pfx, dk) in paths if dk is not None]
                        continue
                    for (pfx, dk) in paths:
                        if dk is None:
                            continue
                        f = mo[idx[(i, ci, dk)]].split(" ")
                        r = f[which] if len(f) == 2 else "?"
                        if r == "?":
                            return None
                        if r == "NOEXP":
                            lit = "".join(t for _, t in comp)
                            got = [lit] if lit in D_TREE[dk] else []
                        elif r == "NONE":
                            got = []
                        else:
                            got = [unesc(x) for x in r.split(",")]
                        for nme in got:
                            nxt.append((pfx + nme + "/", D_DIRS.get(nme) if dk == "top" else None))
                    paths = nxt
                return sorted(pfx.rstrip("/") for pfx, _ in paths)

            def canon(out):
                if out is None:
                    return "LOST"
                words = re.findall(r"<([^<>]*)>", out)
                if not words or words == [""]:
                    return "NONE"                    # nullglob: no word at all (printf prints <>); failglob: the command was not run
                if len(words) == 1 and words[0].rstrip("/") not in existing:
                    return "KEPT"
                return ",".join(w.rstrip("/") for w in words)
            for i, c in enumerate(cases):
                ctx.evals += 1
                ctx.distinct.add(hash(("d", ext, dg, opt, c.src, tuple(c.assigns))))
                ctx.bucket("dot_delivery_%s" % (opt or "plain"))
                b, o = canon(bo.get(i)), canon(oo.get(i))
                impl, spec = walk(i, 0), walk(i, 1)
                unm = "KEPT" if not opt else "NONE"
                mi = unm if impl == [] else (",".join(impl) if impl is not None else "?")
                ms = unm if spec == [] else (",".join(spec) if spec is not None else "?")
                case = dict(c.as_json(), consumer="pathname expansion, dot-file policy", extglob=ext, dotglob=dg, option=opt or "-",
                            tree=D_TREE, brush=b, bash=o, model=mi, spec=ms)
                if b != mi:
                    if st["nv"] < 10:
                        st["nv"] += 1
                        ctx.violation("leading-dot delivery: pathname expansion in brush differs from the model of Pattern::expand" +
                                      ("; and from bash" if b != o else ""), case, kind="property" if b != o else "correspondence")
                    continue
                if b == o:
                    continue
                if ms != o:
                    ctx.oracle_mismatch += 1
                    continue
                if c.has_bang():
                    ctx.known_or_violation("extglob_negation_not_complement", "leading-dot delivery: " + CLAUSES["extglob_negation_not_complement"], case)
                elif empty_first_piece_before_dot(c) and not dg:
                    ctx.known_or_violation("dotfile_rule_reads_empty_first_piece", "brush %s, bash %s: %s" % (b, o, CLAUSES["dotfile_rule_reads_empty_first_piece"]), case)
                elif st["nv"] < 10:
                    st["nv"] += 1
                    ctx.violation("leading-dot delivery: pathname expansion differs from bash (brush %s, bash %s)" % (b, o), case)
        if fam:
            ctx.sample({"dot_delivery": fam[3].as_json()})
    finally:
        shutil.rmtree(d, ignore_errors=True)



# ----------------------------------------------------------------------------------------------
# context sweep: the same (pattern, subject) probes in other execution contexts and under options

C_TREE = ["a", "ab", "abc", "b", "A", "Ab", ".a", ".ab", "d/a", "d/b", "d/.a", "e/a"]
C_FIXED = [("a*", "ab"), ("A*", "ab"), ("@(a|b)", "a"), ("?(a)b", "ab"), ("[[:upper:]]*", "Ab"), ("*", ".a"), (".*", ".a"), ("[ab]", "a"),
           ("\\*", "*"), ("a?", "ab"), ("+(a)", "aaa"), ("[!a]*", "b"), ("*b", "ab"), ("[a-c]?", "ab"), ("d/*", "d/a"), ("*/a", "d/a"),
           ("a*c", "abc"), ("[]a]*", "]x"), ("*(a|b)c", "abc"), ("ab", "ab"), ("A?", "ab"), ("?", "a"), ("[A-B]*", "ab"), ("*/.a", "d/.a")]

C_PROBE = """case $s in $p) echo c1;; *) echo c0;; esac
if [[ $s == $p ]]; then echo e1; else echo e0; fi
if [[ $s == "$p" ]]; then echo q1; else echo q0; fi
if [[ $s != $p ]]; then echo n1; else echo n0; fi
x=${s##$p}; echo "r<$x>"
x=${s%%$p}; echo "R<$x>"
set -- $p; echo "g<$*>"
"""
# (${v/p/r} is left to C06's sweep: where a pattern can match the empty string the two shells place the replacement differently,
#  C06 replace_empty_match_differs, and an option that changes the pattern's meaning brings that in without a fresh-shell baseline)


# options that legitimately change what a pattern means or what pathname expansion yields: in a fresh shell they are baselines
# (what the pattern does under them is the business of the other stages); the sweep judges them inside the sequences
C_BASELINE_OPTIONS = {"option: " + o for o in ["shopt -s nullglob", "shopt -s dotglob", "shopt -s extglob", "shopt -s nocasematch", "shopt -s nocaseglob",
                                                 "shopt -s failglob", "shopt -u extglob", "shopt -s extglob nocasematch dotglob nocaseglob"]}


def c_units(p, s, p2, srcfile):
    """(name, script text) for every context / option / sequence; every unit runs in its own subshell"""
    A = "p=%s; s=%s\n" % (sq(p), sq(s))
    B = C_PROBE
    hide = "p='zz*'; s=zz\n"
    loc = "local p=%s s=%s\n" % (sq(p), sq(s))
    u = [("plain", A + B)]
    u.append(("function, locals hiding globals", hide + "f() { " + loc + B + "}\nf\n"))
    u.append(("two functions deep (dynamic scope)", hide + "g() {\n" + B + "}\nf() { " + loc + "g\n}\nf\n"))
    u.append(("subshell", A + "(\n" + B + ")\n"))
    # (inside $( ) the case labels carry their leading parenthesis: brush cannot parse the bare form there, finding C15-1)
    BP = B.replace("in $p) echo c1;; *) echo c0", "in ($p) echo c1;; (*) echo c0")
    u.append(("command substitution", A + "out=$(\n" + BP + ")\necho \"$out\"\n"))
    u.append(("eval", A + "eval " + sq(B) + "\n"))
    u.append(("brace group with a redirect", A + "{\n" + B + "} 2>/dev/null\n"))
    u.append(("last stage of a pipeline, lastpipe", A + "shopt -s lastpipe\necho x | { read _\n" + B + "}\n"))
    u.append(("for body", A + "for i in 1; do\n" + B + "done\n"))
    u.append(("while body", A + "while :; do\n" + B + "break; done\n"))
    # (the EXIT trap context runs as a script of its own, see stage_C: brush does not run a subshell's own EXIT trap, finding C16-3)
    u.append(("sourced file", A + ". " + sq(srcfile) + "\n"))
    u.append(("twice in the same shell", A + B + B))
    u.append(("function in a command substitution in eval", hide + "f() { " + loc + B + "}\neval 'out=$(f)'; echo \"$out\"\n"))
    for opt in ["set -u", "set -f", "set -e", "set -E", "set -T", "set +h", "set -C", "shopt -s nullglob", "shopt -s dotglob", "shopt -s globstar",
                "shopt -s expand_aliases", "shopt -s lastpipe", "shopt -s inherit_errexit", "shopt -s extglob", "shopt -s nocasematch",
                "shopt -s nocaseglob", "shopt -s failglob", "shopt -u extglob", "shopt -s extglob nocasematch dotglob nocaseglob"]:
        u.append(("option: " + opt, opt + "\n" + A + B))
    tog = A + B
    for o in ["nocasematch", "extglob", "nocaseglob", "dotglob", "globstar", "nullglob"]:
        tog += "shopt -s %s\n%sshopt -u %s\n%s" % (o, B, o, B)
    u.append(("same pattern, options toggled between uses", tog))
    u.append(("same pattern, options toggled inside a function", hide + "f() { " + loc + tog.replace(A, "") + "}\nf\n"))
    u.append(("plain (other pattern)", "p=%s; s=%s\n" % (sq(p2), sq(s)) + B))
    u.append(("two patterns alternating", A + B + "p=%s\n" % sq(p2) + B + "p=%s\n" % sq(p) + B + "p=%s\n" % sq(p2) + B +
              "shopt -s nocasematch\np=%s\n" % sq(p) + B))
    u.append(("after cd into another directory and back", A + B + "cd d\n" + B + "cd ..\n" + B + "cd e\n" + B))
    u.append(("extglob switched on inside the function, next line", "shopt -u extglob\n" + A + "f() { shopt -s extglob\n" + B + "}\nf\n" + B))
    u.append(("extglob switched on inside the function, same line", "shopt -u extglob\n" + A + "f() { shopt -s extglob; " + B.replace("\n", "; ", 1) + "}\nf\n"))
    u.append(("extglob switched off inside the function", "shopt -s extglob\n" + A + "f() { shopt -u extglob\n" + B + "}\nf\n" + B))
    u.append(("set -f then set +f", A + "set -f\n" + B + "set +f\n" + B))
    u.append(("pattern in a local array element and positional parameter", hide + "f() { local -a arr=(x %s); local p=${arr[1]} s=$1\n" % sq(p) + B + "}\nf %s\n" % sq(s)))
    return u


def stage_C(ctx):
    rng = ctx.rng
    cases = list(C_FIXED)
    alpha = list("ab*?[]-!A.") + ["@(a|b)", "[ab]", "?(a)", "*(b)", "[[:alpha:]]", "\\*"]
    for _ in range(ctx.size(40, 600)):
        pt = "".join(rng.choice(alpha) for _ in range(rng.randint(1, 4)))
        cases.append((pt, rng.choice(["a", "ab", "b", "Ab", ".a", "abc", "", "*", "a-b", "]"])))
    if ctx.quick:
        cases = rng.sample(C_FIXED, 18) + cases[len(C_FIXED):]
    d = tempfile.mkdtemp(prefix="c08-ctx-")
    nv = 0
    try:
        root = os.path.join(d, "root")
        for f in C_TREE:
            os.makedirs(os.path.dirname(os.path.join(root, f)), exist_ok=True)
            open(os.path.join(root, f), "w").close()
        src = os.path.join(d, "probe.sh")
        open(src, "w").write(C_PROBE)
        # every unit starts from a stated extglob setting: brush starts with extglob ON (shell.rs, deliberate: the whole script is
        # parsed with one setting), bash with it off - see the clause extglob_on_by_default, witnessed once below
        units = []
        for ci, (p, s) in enumerate(cases):
            p2 = cases[(ci + 1) % len(cases)][0]
            for base in ("u", "s"):
                for name, text in c_units(p, s, p2, src):
                    units.append(((ci, base), name, "shopt -%s extglob\n" % base + text))

        def run(which):
            def one(chunk):
                script = "cd %s || exit 9\n" % sq(root)
                for i in chunk:
                    script += "printf '#%d#'\n(\n%s) 2>/dev/null\n" % (i, units[i][2])
                r = lib.run_shell(which, script, mode="file", timeout=1800)
                parts = re.split(r"#(\d+)#", r["out"])
                return {int(k): v for k, v in zip(parts[1::2], parts[2::2])}
            res = {}
            for dd in lib.pmap(one, lib.chunked(list(range(len(units))), lib.NCPU)):
                res.update(dd)
            return res
        bo, oo = run("brush"), run("bash")
        # the EXIT trap handler context: one shell process per case
        base0 = len(units)
        for ci, (p, s) in enumerate(cases):
            for base in ("u", "s"):
                units.append(((ci, base), "EXIT trap handler", "shopt -%s extglob\np=%s; s=%s\ntrap %s EXIT\n:\n" % (base, sq(p), sq(s), sq(C_PROBE))))
        def trap_run(which):
            outs = lib.pmap(lambda i: lib.run_shell(which, "cd %s || exit 9\n%s" % (sq(root), units[i][2]), mode="file", timeout=60)["out"],
                            list(range(base0, len(units))))
            return {base0 + j: v for j, v in enumerate(outs)}
        bo.update(trap_run("brush"))
        oo.update(trap_run("bash"))
        # A context is judged only where the two shells agree in a FRESH shell on everything the unit is made of: the plain unit,
        # and for units that switch options or patterns, the fresh-shell unit of every option / pattern they go through
        # (a divergence there belongs to the pattern itself and is judged, and classified, by the other stages).
        agree = {}
        for i, (ci, name, text) in enumerate(units):
            agree[(ci, name)] = (bo.get(i) == oo.get(i) and oo.get(i) is not None)
        toggled = ["option: shopt -s %s" % o for o in ("nocasematch", "extglob", "nocaseglob", "dotglob", "globstar", "nullglob")] + ["option: shopt -u extglob"]

        def fresh_ok(ci, name):
            need = [(ci, "plain")]
            if "toggled" in name:
                need += [(ci, t) for t in toggled]
            if "alternating" in name:
                need += [(ci, "plain (other pattern)"), (ci, "option: shopt -s nocasematch")]
            if "extglob switched on" in name:
                need += [(ci, "option: shopt -s extglob")]
            if "extglob switched off" in name:
                need += [(ci, "option: shopt -s extglob"), (ci, "option: shopt -u extglob")]
            return all(agree.get(k) for k in need)
        for i, (ci, name, text) in enumerate(units):
            p, s = cases[ci[0]]
            ctx.evals += 1
            if not fresh_ok(ci, name):
                ctx.bucket("context_sweep_skipped_fresh_shell_differs")
                continue
            # bash quirk kept out: with extglob OFF bash still takes an unquoted X(...) word for a glob when deciding nullglob/failglob
            # (it removes `@(a|b)`); by the property's wording, and in brush, it is plain text then
            if re.search(r"[@?*+!]\(", p) and ("nullglob" in name or "failglob" in name or "toggled" in name):
                ctx.bucket("context_sweep_skipped_bash_extglob_off_quirk")
                continue
            if name.startswith("plain") or name in C_BASELINE_OPTIONS:
                continue                                             # the fresh-shell baselines themselves
            ctx.bucket("context_sweep_units")
            ctx.distinct.add(hash(("ctx", p, s, ci[1], name)))
            b, o = bo.get(i), oo.get(i)
            if b == o:
                continue
            bl, ol = (b or "").split("\n"), (o or "").split("\n")
            k = next((j for j in range(min(len(bl), len(ol))) if bl[j] != ol[j]), min(len(bl), len(ol)))
            case = {"context": name, "pattern": p, "subject": s, "first_difference": {"line": k, "brush": bl[k:k + 1], "bash": ol[k:k + 1]},
                    "script": "cd <dir with %s>\n(\n%s)" % (" ".join(C_TREE), text), "brush": b, "bash": o}
            cl = context_clause(name, p, b, o)
            if cl:
                ctx.known_or_violation(cl, "context sweep (%s): %s" % (name, CLAUSES[cl]), case)
            elif nv < 10:
                nv += 1
                ctx.violation("context sweep: in the context '%s' brush and bash print different answers for the same pattern probes (they agree at top level)" % name, case)
        # the one place where the initial setting is looked at
        b0, o0 = lib.run_both("shopt -q extglob; echo $?")
        ctx.evals += 1
        if b0["out"] != o0["out"]:
            ctx.known_or_violation("extglob_on_by_default", "a fresh non-interactive shell: " + CLAUSES["extglob_on_by_default"],
                                   {"context": "fresh shell", "script": "shopt -q extglob; echo $?", "brush": b0["out"], "bash": o0["out"]})
        ctx.sample({"context_sweep": {"pattern": cases[0][0], "subject": cases[0][1], "contexts": [n for n, _ in c_units("p", "s", "q", src)]}})
    finally:
        shutil.rmtree(d, ignore_errors=True)


def context_clause(name, p, b, o):
    # the regex engine folds named classes under (?i); nocaseglob switches it on for pathname expansion just as nocasematch does for matching
    if "[:" in p and ("nocaseglob" in name or "nocasematch" in name or "toggled" in name or "alternating" in name):
        bl, ol = (b or "").split("\n"), (o or "").split("\n")
        if len(bl) == len(ol) and all(x == y or x[:1] in "cengrR" for x, y in zip(bl, ol)):
            return "nocasematch_folds_named_class"
    return None


# ----------------------------------------------------------------------------------------------

def run(ctx):
    ok, out = lib.cargo_build([BIN])
    if not ok:
        lib.log(out[-4000:])
        ctx.broken.append("harness c08 does not build against the current tree: " + lib._first_errors(out))
    ctx.proof_stage(gens=[c08gen.gen_pattern_tables])
    if not ok:
        return
    stage_T(ctx)
    stage_M(ctx)
    stage_E(ctx)
    stage_Q(ctx)
    stage_G(ctx)
    stage_P(ctx)
    stage_D(ctx)
    stage_C(ctx)
    ctx.cov["rule"] = ("T: every pattern text over %d characters up to length 4/5 (+random to 12 fragments over a wide alphabet) x extglob on/off, regex text "
                       "string-equal; M: in-process exactly_matches vs the Lean regex semantics on every subject over {a,b,newline,]} up to length 3/4; "
                       "E/Q: case, [[ == ]], ${v##p} and inline quoted patterns in the brush binary vs bash 5.2 vs model vs spec; "
                       "G: pathname expansion in real directories x extglob/dotglob/nullglob; P: piece-split patterns - every construct (bracket expressions, "
                       "each extglob operator, ?/* next to text, whole quoted/variable-borne patterns) cut at every position with the middle quoted (\"..\", '..', \\c, \"$v\") or from "
                       "a variable ($v, ${v}) - through case, [[ == ]], [[ != ]], ${v##p}, ${v%%%%p}, ${v/p/r} and pathname expansion, brush vs bash vs piece model vs spec. "
                       "D: the leading dot of a path component in every delivery (bare, '.', \".\", \\., \"$d\", $d, ${d}, together with the next character) "
                       "in first and later components of a tree with dot-files and a dot-directory x dotglob/nullglob/failglob; "
                       "C: context sweep - a sample of (pattern, subject) probes (case, [[ == ]] unquoted and quoted, [[ != ]], ${v##p}, ${v%%%%p}, pathname expansion) "
                       "re-run in 14 execution contexts, under 19 option settings and in 10 option/pattern/directory sequences, each from extglob off and on, brush vs bash on identical text. "
                       "non-trivial = distinct (config, pattern)" % len(PA))
    ctx.assumptions += ["fancy_regex/regex crates implement the modelled regex subset as Re.run does (sampled by tie M on every run)",
                        "add_missing_escape_chars_to_regex is the identity on emitted text (every [ inside a bracket is already escaped by pattern.rs)",
                        "patterns whose meaning POSIX leaves open (unterminated [, [. [= unknown [:x:], dangling backslash, unbalanced extglob parentheses) are compared model-vs-brush only, not against bash",
                        "for ${v/p/r} only the answer 'the whole value was replaced' is compared (a whole-string match); where the replacement lands otherwise is C06's subject",
                        "locale C.UTF-8; non-ASCII case folding and named classes on non-ASCII characters are not modelled"]


def replay(ctx, rp):
    lib.cargo_build([BIN])
    case = rp["case"]
    print(json.dumps(case, indent=1, ensure_ascii=False))
    if "context" in case and "script" in case:
        d = tempfile.mkdtemp(prefix="c08-replay-")
        for f in C_TREE:
            os.makedirs(os.path.dirname(os.path.join(d, f)), exist_ok=True)
            open(os.path.join(d, f), "w").close()
        open(os.path.join(d, "probe.sh"), "w").write(C_PROBE)
        script = case["script"]
        if script.startswith("cd <dir"):
            script = "cd %s\n" % sq(d) + script.split("\n", 1)[1]
        script = re.sub(r"\. '[^']*probe\.sh'", ". " + sq(os.path.join(d, "probe.sh")), script)
        b, o = lib.run_both(script, mode="file")
        shutil.rmtree(d, ignore_errors=True)
        print(script)
        print("--- brush:\n" + b["out"] + "--- bash:\n" + o["out"])
        return 1 if b["out"] != o["out"] else 0
    if "pieces" in case and "source" in case:
        P = case["source"]
        pre = "shopt -%s extglob; shopt -%s nocasematch; IFS=\n" % ("s" if case.get("extglob") else "u", "s" if case.get("nocasematch") else "u")
        pre += "".join("%s=%s\n" % (v, sq(t)) for v, t in case.get("vars", {}).items())
        cons, s0 = case.get("consumer", "case"), case.get("subject", "")
        d = None
        if cons.startswith("pathname expansion"):
            d = tempfile.mkdtemp(prefix="c08-replay-")
            if "tree" in case:
                for nme in case["tree"]["top"]:
                    if nme in D_DIRS:
                        os.mkdir(os.path.join(d, nme))
                        for x in case["tree"][D_DIRS[nme]]:
                            open(os.path.join(d, nme, x), "w").close()
                    else:
                        open(os.path.join(d, nme), "w").close()
                pre += "shopt -%s dotglob\n" % ("s" if case.get("dotglob") else "u") + ("shopt -s %s\n" % case["option"] if case.get("option", "-") != "-" else "")
            else:
                for nme in case.get("names", P_NAMES):
                    open(os.path.join(d, nme), "w").close()
            body = "cd %s\n( set -- %s; printf '<%%s>' \"$@\" ); echo" % (sq(d), P)
        elif cons == "case":
            body = "case %s in %s) echo 1;; *) echo 0;; esac" % (sq(s0), P)
        elif cons == "[[ == ]]":
            body = "[[ %s == %s ]]; echo $?" % (sq(s0), P)
        elif cons == "[[ != ]]":
            body = "[[ %s != %s ]]; echo $?" % (sq(s0), P)
        elif cons == "${v##p}":
            body = "s=%s; echo \"<${s##%s}>\"" % (sq(s0), P)
        elif cons == "${v%%p}":
            body = "s=%s; echo \"<${s%%%%%s}>\"" % (sq(s0), P)
        else:
            body = "s=%s; echo \"<${s/%s/%%}>\"" % (sq(s0), P)
        b, o = lib.run_both(pre + body, mode="file")
        if d:
            shutil.rmtree(d, ignore_errors=True)
        w = " ".join("%s:%s" % (k, esc(t)) for k, t in case["pieces"])
        m = lib.run_drv(["C08 P %d %d %s -- %s" % (int(case.get("extglob", 0)), int(case.get("nocasematch", 0)), w, esc(s0))])
        print("script:\n" + pre + body)
        print("brush:", b["out"].strip(), b["err"].strip()[:200])
        print("bash: ", o["out"].strip())
        print("model impl / spec / joined text:", m[0])
        return 1 if b["out"] != o["out"] else 0
    if "pattern" in case and "subject" in case:
        ext, nc = int(case.get("extglob", case.get("ext", 0))), int(case.get("nocasematch", case.get("nocase", 0)))
        p, s = case["pattern"], case["subject"]
        if str(case.get("where", "")).startswith("case, pattern written inline"):
            script = "shopt -s extglob\ncase %s in %s) echo 1;; *) echo 0;; esac" % (sq(s), p)
        else:
            script = "shopt -%s extglob; shopt -%s nocasematch; p=%s; case %s in $p) echo 1;; *) echo 0;; esac" % ("s" if ext else "u", "s" if nc else "u", sq(p), sq(s))
        b, o = lib.run_both(script, mode="file")
        _, hb, _ = lib.run_vh(BIN, ["M %d %d %s %s" % (ext, nc, esc(p), esc(s))])
        m = lib.run_drv(["C08 M %d %d %s %s" % (ext, nc, esc(p), esc(s))])
        print("script:          ", script)
        print("brush binary:    ", b["out"].strip(), b["err"].strip()[:200])
        print("bash:            ", o["out"].strip())
        print("brush in-process:", hb[0] if hb else "<none>")
        print("model impl/full/spec/features:", m[0])
        return 1 if b["out"] != o["out"] or (hb and hb[0] != m[0].split(" ")[0] and m[0][0] != "U") else 0
    if "req" in case:
        _, hb, _ = lib.run_vh(BIN, [case["req"]])
        m = lib.run_drv(["C08 " + case["req"]])
        print("brush:", hb[0] if hb else "<none>")
        print("model:", m[0])
        return 1 if not hb or hb[0] != m[0] else 0
    if "brush" in case and "bash" in case:
        return 1
    return 1
