"""C03 — errexit, nounset and pipefail stop the shell exactly where bash does."""
import json
import os
import random
import lib
import flowgen
import flowcheck
from flowcheck import canon

PROP = "C03"
FEATS = ("opts", "opts2", "cs", "ev", "pipe")


def exempt_family():
    """exhaustive (seed-independent): a failing leaf in every exempt / non-exempt position x wrappers x option settings"""
    L = lambda i, c: ("L", i, [c])
    fail = L(1, 3)
    ctxs = {
        "plain": lambda c: c,
        "if_cond": lambda c: ("I", c, L(20, 0)),
        "elif_cond": lambda c: ("J", L(21, 1), L(22, 0), ("I", c, L(23, 0))),
        "while_cond": lambda c: ("W", ("S", [c, ("L", 34, [0, 1])]), L(24, 0)),
        "until_cond": lambda c: ("U", ("S", [c, L(25, 0)]), L(26, 0)),
        "and_nonfinal": lambda c: ("A", c, [(True, L(27, 0))]),
        "or_nonfinal": lambda c: ("A", c, [(False, L(28, 0))]),
        "and_final": lambda c: ("A", L(29, 0), [(True, c)]),
        "or_final": lambda c: ("A", L(30, 1), [(False, c)]),
        "andor_middle": lambda c: ("A", L(31, 0), [(True, c), (False, L(32, 0))]),
        "bang": lambda c: ("N", c),
        # (`… | eval` under errexit leaves bash with status 1 instead of the failing status: keep eval one level down)
        "pipe_last": lambda c: ("Pi", [0], ("Gr", c) if c[0] == "Ev" else c),
        "pipe_nonfinal_fail": lambda c: ("S", [("Pi", [3, 0], L(33, 0)), c]),
        "lastpipe_last": lambda c: ("S", [("O", "l", True), ("Pi", [0], ("Gr", c) if c[0] == "Ev" else c), L(35, 0)]),
    }
    wraps = {
        "none": lambda c: c,
        "group": lambda c: ("Gr", c),
        "subshell": lambda c: ("Su", ("S", [("P",), c])),
        "func": None,     # handled below
        "cmdsubst": lambda c: ("Cs", c),
        "eval": lambda c: ("Ev", c),
        "for": lambda c: ("F", 2, c),
        "case": lambda c: ("C", [(True, c, "x")]),
        "if_then": lambda c: ("I", L(40, 0), c),
        "group_group": lambda c: ("Gr", ("Gr", c)),
    }
    out = []
    for cn, cf in ctxs.items():
        for wn, wf in wraps.items():
            for opts in ([("O", "e", True)], [("O", "e", True), ("O", "p", True)],
                         [("O", "e", True), ("O", "i", True)], [("O", "p", True)], []):
                inner = ("S", [L(2, 0), fail, L(3, 0)])
                for order in ("ctx(wrap)", "wrap(ctx)"):
                    if wn == "func":
                        funcs = [inner]
                        body = cf(("K", 0)) if order == "ctx(wrap)" else None
                        if body is None:
                            funcs = [cf(inner)]
                            body = ("K", 0)
                    else:
                        funcs = []
                        body = cf(wf(inner)) if order == "ctx(wrap)" else wf(cf(inner))
                    main = ("S", list(opts) + [L(4, 0), body, ("P",), L(5, 0)])
                    out.append((funcs, main))
    return out


def toggle_family():
    """exhaustive: the command that FAILS is the one that switched the option on (or off) while it ran in the current
    shell — a function, eval, a brace group — in exempt and non-exempt positions.  bash decides with the option value in
    force when the command has finished (found missing by seed C03-3)."""
    L = lambda i, c: ("L", i, [c])
    endings = {
        "return3": lambda: [("R", 3)],
        "exempt_andor_fails": lambda: [("A", L(1, 1), [(True, L(2, 0))])],          # `false && true` → 1, exempt inside
        "if_no_branch_then_return": lambda: [("I", L(1, 1), L(2, 0)), ("R", 2)],
        "bang_fails": lambda: [("N", L(1, 0))],
        "last_fails": lambda: [L(1, 0), L(2, 4)],                                   # would exit inside once `-e` is on
    }
    toggles = {"e_on": [("O", "e", True)], "e_on_pipefail": [("O", "p", True), ("O", "e", True)],
               "e_off": [("O", "e", False)], "e_on_late": None}
    carriers = ("func", "eval", "group", "func_in_eval")
    positions = {"plain": lambda c: c, "if_cond": lambda c: ("I", c, L(20, 0)), "and_nonfinal": lambda c: ("A", c, [(True, L(27, 0))]),
                 "or_final": lambda c: ("A", L(30, 1), [(False, c)]), "loop": lambda c: ("F", 2, c), "subshell": lambda c: ("Su", ("S", [("P",), c]))}
    out = []
    for en, ef in endings.items():
        for tn, tg in toggles.items():
            for ca in carriers:
                if en.startswith("return") or en.endswith("return"):
                    if ca in ("eval", "group"):
                        continue          # `return` needs a function
                for pn, pf in positions.items():
                    body = (list(tg) if tg is not None else [L(9, 0), ("O", "e", True)]) + ef()
                    pre = [("O", "e", True)] if tn == "e_off" else []
                    if ca == "func":
                        funcs, cmd = [("S", body)], ("K", 0)
                    elif ca == "func_in_eval":
                        funcs, cmd = [("S", body)], ("Ev", ("K", 0))
                    elif ca == "eval":
                        funcs, cmd = [], ("Ev", ("S", body))
                    else:
                        funcs, cmd = [], ("Gr", ("S", body))
                    main = ("S", pre + [L(4, 0), pf(cmd), ("P",), L(5, 0), L(6, 7), L(8, 0)])
                    out.append((funcs, main))
    return out


def run(ctx):
    ok, out = lib.cargo_build([])
    if not ok:
        lib.log(out[-3000:])
        ctx.broken.append("brush does not build from the current tree: " + lib._first_errors(out))
    ctx.proof_stage()
    if not ok:
        return
    cases = []
    cdir = os.path.join(lib.ROOT, "corpus", PROP)
    if os.path.isdir(cdir):
        import c02
        for f in sorted(os.listdir(cdir)):
            if f.endswith(".json"):
                for rec in json.load(open(os.path.join(cdir, f))):
                    cases.append(("corpus", c02._untuple(rec["prog"]), False))
    for p in exempt_family():
        cases.append(("exh", p, False))
    for p in toggle_family():
        cases.append(("exh-toggle", p, False))
    rng = ctx.rng
    n = ctx.size(1200, 25000)
    for i in range(n):
        g = flowgen.Gen(random.Random(rng.getrandbits(48)), FEATS, budget=rng.choice([4, 6, 10, 14, 20]))
        pre = []
        if rng.random() < 0.7:
            pre.append(("O", "e", True))
        if rng.random() < 0.25:
            pre.append(("O", "p", True))
        if rng.random() < 0.2:
            pre.append(("O", "i", True))
        cases.append(("rand", g.program(rng.choice([2, 3, 3, 4]), prefix=pre), rng.random() < 0.5))
    scripts, res = flowcheck.decide(ctx, cases, "C03", fd3=True)
    ctx.sample({"script": scripts[len(scripts) // 2], "brush": canon(res[len(scripts) // 2][0])})
    ctx.sample({"script": scripts[-1], "brush": canon(res[-1][0])})
    ctx.cov["rule"] = ("control-flow programs with `set -e`/`set -o pipefail`/`shopt -s inherit_errexit` toggled at arbitrary points: "
                       "exhaustive family (failing leaf x 13 exempt/non-exempt contexts x 10 wrappers incl. functions, subshells, "
                       "command substitutions, eval x 5 option settings x nesting order) plus seeded random programs; brush vs bash "
                       "vs both Lean models; non-trivial = at least 3 construct kinds")
    ctx.assumptions += ["bash 5.2.15 is the oracle; two bash behaviours that contradict the property's own wording are kept out of the "
                        "generated programs and are documented in DESIGN.md: `set -e` switched on inside an already running `!` command, "
                        "and `( ! cmd )` whose `!` flag bash strips in execute_in_subshell; also `… | eval` under errexit (status 1 quirk)",
                        "markers are written to fd 3 so that command substitutions and pipelines do not hide the trace"]
    nounset(ctx)


# ---------------------------------------------------------------------------------------------
# nounset: the decision table (which expansions of an unset parameter abort the shell)

STATES = {"unset": "unset v", "null": "v=", "set": "v=abc", "arr_empty": "v=()", "arr_set": "v=(a b)",
          "decl_only": "declare v", "declarr_only": "declare -a v", "assoc_empty": "declare -A v", "assoc_set": "declare -A v=([k]=1)"}
FORMS = ['$v', '${v}', '${v-w}', '${v:-w}', '${v+w}', '${v:+w}', '${v=w}', '${v:=w}', '${v?w}', '${v:?w}', '${#v}', '${v:0:1}',
         '${v#a}', '${v%a}', '${v/a/b}', '${v^^}', '${v,,}', '${v@Q}', '${v@U}', '${!v}', '${v[0]}', '${v[1]}', '${v[@]}', '${v[*]}',
         '"${v[@]}"', '${#v[@]}', '${#v[0]}', '${!v[@]}', '${v[@]:0:1}', '${v[@]-w}', '${v[k]}', '$((v))', '$((v+1))', '$1', '${1}',
         '${1-w}', '$@', '$*', '"$@"', '${@:1}', '$#', '${#1}', '${!1}', '${v[@]@Q}', '${v[0]-w}', '${#@}', '${*:1:1}', '$v$v', '${v:-$v}']
# forms added with the Lean model of the decision (Model/Nounset.lean): lists under `?`/`=`, special parameters, subscripts
# that are words, operand words that are expansions, operators applied to a reference
FORMS += ['${v[@]#a}', '${v[*]:-w}', '${v[@]?w}', '${v[@]:?w}', '${v[*]?w}', '${@?w}', '${*:?w}', '${1?w}', '${1:?w}', '${1=w}', '${@=w}',
          '${!v@}', '$?', '$-', '$$', '$0', '${#}', '${#*}', '${1:0:1}', '${@:0:1}', '${v[1]-w}', '${v[1]+w}', '${v[1]?w}', '${v[k]-w}',
          '$((v[1]))', '$((k))', '${v:-$k}', '${v:+$k}', '${v?$k}', '${v=$k}', '${v[1]:0:1}', '${v[0]:k}', '${#v[1]}',
          '${!v#a}', '${!v:0:1}', '${!v@Q}']
# forms whose brush/bash difference is a recorded finding (C03-10 … C03-17); all three placements in every state, because a
# command that is only abandoned looks like one that ran when it stands on a line of its own
ATTR_FORMS = ('${v@a}', '${v@A}', '${v[0]@a}')
INDIRECT_LIST_FORMS = ('${!@}', '${!*}')
INDIRECT_TEST_FORMS = ('${!v-w}', '${!v+w}', '${!v?w}', '${!1-w}')
CLAUSE_FORMS = list(ATTR_FORMS) + ['$!'] + list(INDIRECT_LIST_FORMS) + list(INDIRECT_TEST_FORMS) + ['${v[@]=w}', '${v[-1]}', '${v:1:k}', '${#v[k]}']
FORMS += CLAUSE_FORMS
# rows compared brush-vs-bash only: the form is outside the Lean model (`@a`/`@A`, `$!`, `${!ref-w}`, negative subscripts)
NO_MODEL_FORMS = set(ATTR_FORMS) | {'$!', '${v[-1]}'} | set(INDIRECT_TEST_FORMS)
# rows where the model is compared with brush but the bash reference is not established (its guard excludes them)
NO_SPEC_FORMS = set(INDIRECT_LIST_FORMS) | {'${v:1:k}'}
ARG_FORMS = ['$1', '${1}', '$@', '$*', '"$@"', '${@:1}', '$2', '${2-w}', '${#2}', '${*:2}']
LEN_CLAUSE_FORMS = ('${#v[@]}', '${#v[0]}', '${#v[1]}')
ELEM_LEN_FORMS = ('${#v[0]}', '${#v[1]}')
INDIRECT_VALUE_FORMS = ('${!v}', '${!v#a}', '${!v:0:1}', '${!v@Q}')

# ---- the same table in the wire format of the Lean driver (Drv/C03.lean, request `nounset …`)
_W1 = lambda e: "W 1 " + e
_T = lambda op, colon, p, w="wl w": "t %s %d %s %s" % (op, colon, p, w)
NS_WIRE = {
    '$v': _W1("v pl 0 n v"), '${v}': _W1("v pl 0 n v"),
    '${v-w}': _W1(_T("-", 0, "n v")), '${v:-w}': _W1(_T("-", 1, "n v")), '${v+w}': _W1(_T("+", 0, "n v")), '${v:+w}': _W1(_T("+", 1, "n v")),
    '${v=w}': _W1(_T("=", 0, "n v")), '${v:=w}': _W1(_T("=", 1, "n v")), '${v?w}': _W1(_T("?", 0, "n v")), '${v:?w}': _W1(_T("?", 1, "n v")),
    '${#v}': _W1("len n v"), '${v:0:1}': _W1("v sub 0 n v L 0 + L 1"), '${v#a}': _W1("v rm 0 n v"), '${v%a}': _W1("v rm 0 n v"),
    '${v/a/b}': _W1("v rep 0 n v"), '${v^^}': _W1("v cm 0 n v"), '${v,,}': _W1("v cm 0 n v"), '${v@Q}': _W1("v xf 0 n v"), '${v@U}': _W1("v xf 0 n v"),
    '${!v}': _W1("v pl 1 n v"), '${v[0]}': _W1("v pl 0 i v N 0"), '${v[1]}': _W1("v pl 0 i v N 1"),
    '${v[@]}': _W1("v pl 0 a v @"), '${v[*]}': _W1("v pl 0 a v *"), '"${v[@]}"': _W1("v pl 0 a v @"),
    '${#v[@]}': _W1("len a v @"), '${#v[0]}': _W1("len i v N 0"), '${#v[1]}': _W1("len i v N 1"), '${!v[@]}': _W1("keys v"),
    '${v[@]:0:1}': _W1("v sub 0 a v @ L 0 + L 1"), '${v[@]-w}': _W1(_T("-", 0, "a v @")), '${v[k]}': _W1("v pl 0 i v K k"),
    '$((v))': _W1("ar V v"), '$((v+1))': _W1("ar ADD V v L 1"), '$1': _W1("v pl 0 p 1"), '${1}': _W1("v pl 0 p 1"), '${1-w}': _W1(_T("-", 0, "p 1")),
    '$@': _W1("v pl 0 s @"), '$*': _W1("v pl 0 s *"), '"$@"': _W1("v pl 0 s @"), '${@:1}': _W1("v sub 0 s @ L 1 -"), '$#': _W1("v pl 0 s #"),
    '${#1}': _W1("len p 1"), '${!1}': _W1("v pl 1 p 1"), '${v[@]@Q}': _W1("v xf 0 a v @"), '${v[0]-w}': _W1(_T("-", 0, "i v N 0")),
    '${#@}': _W1("len s @"), '${*:1:1}': _W1("v sub 0 s * L 1 + L 1"), '$v$v': "W 2 v pl 0 n v v pl 0 n v", '${v:-$v}': _W1(_T("-", 1, "n v", "wr n v")),
    '${v[@]#a}': _W1("v rm 0 a v @"), '${v[*]:-w}': _W1(_T("-", 1, "a v *")), '${v[@]?w}': _W1(_T("?", 0, "a v @")), '${v[@]:?w}': _W1(_T("?", 1, "a v @")),
    '${v[*]?w}': _W1(_T("?", 0, "a v *")), '${@?w}': _W1(_T("?", 0, "s @")), '${*:?w}': _W1(_T("?", 1, "s *")), '${1?w}': _W1(_T("?", 0, "p 1")),
    '${1:?w}': _W1(_T("?", 1, "p 1")), '${1=w}': _W1(_T("=", 0, "p 1")), '${@=w}': _W1(_T("=", 0, "s @")), '${!v@}': _W1("names v"),
    '$?': _W1("v pl 0 s ?"), '$-': _W1("v pl 0 s -"), '$$': _W1("v pl 0 s $"), '$0': _W1("v pl 0 s 0"), '${#}': _W1("v pl 0 s #"), '${#*}': _W1("len s *"),
    '${1:0:1}': _W1("v sub 0 p 1 L 0 + L 1"), '${@:0:1}': _W1("v sub 0 s @ L 0 + L 1"), '${v[1]-w}': _W1(_T("-", 0, "i v N 1")),
    '${v[1]+w}': _W1(_T("+", 0, "i v N 1")), '${v[1]?w}': _W1(_T("?", 0, "i v N 1")), '${v[k]-w}': _W1(_T("-", 0, "i v K k")),
    '$((v[1]))': _W1("ar X v L 1"), '$((k))': _W1("ar V k"), '${v:-$k}': _W1(_T("-", 1, "n v", "wr n k")), '${v:+$k}': _W1(_T("+", 1, "n v", "wr n k")),
    '${v?$k}': _W1(_T("?", 0, "n v", "wr n k")), '${v=$k}': _W1(_T("=", 0, "n v", "wr n k")), '${v[1]:0:1}': _W1("v sub 0 i v N 1 L 0 + L 1"),
    '${v[0]:k}': _W1("v sub 0 i v N 0 V k -"), '${!v#a}': _W1("v rm 1 n v"), '${!v:0:1}': _W1("v sub 1 n v L 0 + L 1"), '${!v@Q}': _W1("v xf 1 n v"),
    '${!@}': _W1("v pl 1 s @"), '${!*}': _W1("v pl 1 s *"), '${v[@]=w}': _W1(_T("=", 0, "a v @")), '${v:1:k}': _W1("v sub 0 n v L 1 + V k"),
    '${#v[k]}': _W1("len i v K k"),
    '$2': _W1("v pl 0 p 2"), '${2-w}': _W1(_T("-", 0, "p 2")), '${#2}': _W1("len p 2"), '${*:2}': _W1("v sub 0 s * L 2 -"),
    '(( v ))': "AC V v", '(( v + 1 ))': "AC ADD V v L 1", 'let v+1': "LET ADD V v L 1", '[[ v -eq 0 ]]': "CND V v",
    'for ((i=v; i<1; i++)); do :; done': "FOR ASN i V v", 'a[v]=1': "AIX V v", ': ${s:v}': _W1("v sub 0 n s V v -"),
    ': ${s:0:v}': _W1("v sub 0 n s L 0 + V v"), ': ${a[v]}': _W1("v pl 0 i a K v"), ': $((v[0]))': _W1("ar X v L 0"), ': $((v++))': _W1("ar INC v"),
    ': $((v=1))': _W1("ar ASN v L 1"), ': $(( 1 ? 2 : v ))': _W1("ar CND L 1 L 2 V v"), ': $(( 0 && v ))': _W1("ar AND L 0 V v"),
}
NS_VALUE = {"unset": None, "null": "S %", "set": "S abc", "arr_empty": "I 0", "arr_set": "I 2 0 a 1 b", "decl_only": "U", "declarr_only": "Ui",
            "assoc_empty": "Ua", "assoc_set": "A 1 k 1"}


def ns_request(placement, state, form, args=()):
    """the driver request for one row of the table; the scripts also set s=abcdef and a=(1 2)"""
    vs = [("s", "S abcdef"), ("a", "I 2 0 1 1 2")] if state is not None else []
    if state is not None and NS_VALUE[state] is not None:
        vs.append(("v", NS_VALUE[state]))
    if form in NO_MODEL_FORMS:
        return None
    return "C03 nounset %s 1 %d %s %d %s %s" % (placement, len(args), " ".join(args), len(vs), " ".join(n + " " + v for n, v in vs), NS_WIRE[form])


STMT_FORMS = ['(( v ))', '(( v + 1 ))', 'let v+1', '[[ v -eq 0 ]]', 'for ((i=v; i<1; i++)); do :; done', 'a[v]=1',
              ': ${s:v}', ': ${s:0:v}', ': ${a[v]}', ': $((v[0]))', ': $((v++))', ': $((v=1))', ': $(( 1 ? 2 : v ))', ': $(( 0 && v ))']
PL_WIRE = {"same_line": "S", "next_line": "N", "in_func": "F"}
PLACEMENTS = {
    # the rest of the same line is abandoned by any error, fatal or not: only the other two placements tell them apart
    "same_line": "set -u; s=abcdef; a=(1 2); %(setup)s; %(stmt)s; echo after",
    "next_line": "set -u\ns=abcdef; a=(1 2)\n%(setup)s\n%(stmt)s\necho after",
    "in_func": "set -u\ns=abcdef; a=(1 2)\n%(setup)s\ng() { %(stmt)s; echo inner; }\ng\necho after",
}


def nounset(ctx):
    cases = []
    for st, setup in STATES.items():
        for f in FORMS + STMT_FORMS:
            stmt = f if f in STMT_FORMS else ": " + f
            for pn, pl in PLACEMENTS.items():
                if pn != "next_line" and f not in STMT_FORMS and f not in CLAUSE_FORMS and st not in ("unset", "null", "arr_empty", "decl_only"):
                    continue
                cases.append((st + "/" + pn, f, True, pl % {"setup": setup, "stmt": stmt}, ns_request(PL_WIRE[pn], st, f)))
    for f in ARG_FORMS:
        cases.append(("args1", f, True, "set -u; set -- a; : %s; echo after" % f, ns_request("S", None, f, ["a"])))
        cases.append(("args1/next_line", f, True, "set -u; set -- a\n: %s\necho after" % f, ns_request("N", None, f, ["a"])))
        cases.append(("infunc", f, True, "set -u; g() { : %s; echo after; }; g a" % f, ns_request("S", None, f, ["a"])))
        cases.append(("infunc/next_line", f, True, "set -u\ng() { : %s; echo inner; }\ng a\necho after" % f, ns_request("F", None, f, ["a"])))

    def one(c):
        # script-file delivery: `bash -c` reports an unbound variable with status 127, a script with 1
        return lib.run_shell("brush", c[3], mode="file", timeout=20), lib.run_shell("bash", c[3], mode="file", timeout=20)

    res = lib.pmap(one, cases)
    answers = iter(lib.run_drv_parallel([c[4] for c in cases if c[4] is not None]))
    drv = [next(answers) if c[4] is not None else None for c in cases]
    bits = lambda k: "".join("1" if x else "0" for x in (tuple(k) + (False,))[:3])
    for (st, f, uflag, script, wire), (b, o), d in zip(cases, res, drv):
        kb = (b["rc"] != 0, "after" in b["out"]) + (("inner" in b["out"],) if "echo inner" in script else ())
        ko = (o["rc"] != 0, "after" in o["out"]) + (("inner" in o["out"],) if "echo inner" in script else ())
        ctx.count(("nounset", st, f, uflag), nontrivial=uflag, bucket="nounset")
        case = {"script": script, "state": st, "form": f, "brush": [b["rc"], b["out"]], "bash": [o["rc"], o["out"]],
                "brush_stderr": b["err"][-200:]}
        if d is not None:
            case.update({"nswire": wire[4:], "model|spec": d})
            # the tie: Lean model of brush's decision vs brush, Lean reference vs bash
            parts = [x.split() for x in d.split(" | ")]
            if len(parts) != 2 or len(parts[0]) != 2 or len(parts[1]) != 2:
                ctx.violation("the Lean driver did not answer a nounset request: " + d, case, kind="correspondence")
                continue
            (mdec, mshown), (sdec, sshown) = parts
            if mshown != bits(kb):
                ctx.violation("`set -u`: brush's outcome %s differs from the Lean model's (%s %s)" % (bits(kb), mdec, mshown), case,
                              kind="property" if kb != ko else "correspondence")
                continue
            ctx.impl_validated += 1
            if sshown != bits(ko) and f not in NO_SPEC_FORMS:
                ctx.oracle_mismatch += 1          # my transcription of bash is wrong here: never a violation of brush
                ctx.notes.append("oracle_mismatch (nounset): %s / %s: bash %s, reference %s %s" % (st, f, bits(ko), sdec, sshown))
        if kb == ko:
            continue
        tolerant = kb[0] is False and all(x or not y for x, y in zip(kb[1:], ko[1:]))   # brush goes on at least as far as bash
        base, _, pn = st.partition("/")
        # what each placement shows of the three decisions (Model/Nounset.lean `shown`)
        looks = lambda k, dec: bits(k) == {"ok": {"same_line": "010", "next_line": "010", "in_func": "011"},
                                           "fail": {"same_line": "100", "next_line": "010", "in_func": "010"},
                                           "abort": {"same_line": "100", "next_line": "100", "in_func": "100"}}[dec].get(pn)
        valueless = base in ("arr_empty", "decl_only", "declarr_only", "assoc_empty", "assoc_set")
        if f in ATTR_FORMS and looks(kb, "ok") and looks(ko, "abort"):
            ctx.known_or_violation("nounset_attributes_tolerated",
                                   "`${v@a}` / `${v@A}` of a variable without a value goes through under `set -u`; bash: unbound variable", case)
        elif f == "$!" and looks(kb, "ok") and looks(ko, "abort"):
            ctx.known_or_violation("nounset_bgpid_tolerated", "`$!` with no background job goes through under `set -u`; bash: unbound variable", case)
        elif f in INDIRECT_LIST_FORMS and looks(kb, "fail") and looks(ko, "abort"):
            ctx.known_or_violation("nounset_indirect_of_list_not_fatal",
                                   "`${!@}` with no arguments only abandons the command; bash ends the shell", case)
        elif f in INDIRECT_TEST_FORMS and (valueless or f == "${!1-w}") and looks(kb, "fail") and (looks(ko, "ok") or looks(ko, "abort")):
            ctx.known_or_violation("nounset_indirect_test_of_valueless_ref",
                                   "`${!ref-w}` / `+` / `?` with a reference that has no value: brush fails to parse the empty reference and "
                                   "abandons the command; bash applies the operator to an unset parameter", case)
        elif f == "${v[@]=w}" and base == "assoc_empty" and looks(kb, "fail") and looks(ko, "ok"):
            ctx.known_or_violation("nounset_assign_default_to_declared_assoc_list",
                                   "`${A[@]=w}` with A declared -A without a value: brush cannot assign; bash stores under the key @", case)
        elif f == "${v[-1]}" and base in ("null", "set") and looks(kb, "ok") and looks(ko, "abort"):
            ctx.known_or_violation("nounset_negative_subscript_of_scalar",
                                   "`${v[-1]}` of a scalar expands to the scalar; bash: unbound variable", case)
        elif f == "${v:1:k}" and base == "null" and looks(kb, "abort") and looks(ko, "ok"):
            ctx.known_or_violation("nounset_substring_length_always_evaluated",
                                   "the length of `${v:1:k}` is evaluated (unbound k) although the offset is out of range; bash skips it", case)
        elif f == "${#v[k]}" and base in ("unset", "null", "set", "decl_only", "declarr_only") and looks(kb, "abort") and looks(ko, "fail"):
            ctx.known_or_violation("nounset_element_length_word_subscript",
                                   "`${#v[k]}` of a non-array evaluates the subscript (unbound k ends the shell); bash abandons the command "
                                   "before looking at the subscript", case)
        elif f == "${#v[k]}" and base == "assoc_empty" and looks(kb, "ok") and looks(ko, "fail"):
            ctx.known_or_violation("nounset_array_length_tolerated",
                                   "under `set -u` brush accepts an expansion that bash rejects as unbound", case)
        elif f in LEN_CLAUSE_FORMS and ko != kb and tolerant:
            ctx.known_or_violation("nounset_array_length_tolerated",
                                   "under `set -u` brush accepts an expansion that bash rejects as unbound", case)
        elif f in ELEM_LEN_FORMS and st.startswith("unset/") and kb[:2] == (True, False) and ko[:2] == (False, True):
            ctx.known_or_violation("nounset_element_length_of_unset_is_fatal",
                                   "`${#v[0]}` of an unset variable ends the shell; bash reports the error, abandons the command and goes on", case)
        elif f in INDIRECT_VALUE_FORMS and st.startswith("unset/") and kb[:2] == (True, False) and ko[:2] == (False, True):
            ctx.known_or_violation("nounset_indirect_of_unset_is_fatal",
                                   "`${!v}` with v unset ends the shell; bash reports the error, abandons the command and goes on", case)
        elif f == "let v+1" and tolerant:
            ctx.known_or_violation("nounset_in_let_tolerated",
                                   "`let` with an unset variable under `set -u` only fails; bash ends the shell", case)
        else:
            ctx.violation("`set -u`: brush and bash disagree on whether the expansion aborts the shell", case)
    ctx.sample({"nounset_case": cases[0][3], "request": cases[0][4]})
    ctx.cov["rule"] += ("; nounset decision table: %d expansion forms + %d arithmetic commands x 9 variable states x 3 placements (same line, "
                        "next line, inside a function) + positional forms with one argument, each sent as a script file to brush and bash "
                        "and as a `nounset` request to the Lean driver (model of brush's decision vs brush, bash reference vs bash)"
                        % (len(FORMS), len(STMT_FORMS)))
    ctx.cov["rule"] += ("; the forms of the recorded clauses C03-10..17 run in all three placements in every state; of these, %s are outside "
                        "the Lean model and are compared brush vs bash only, and for %s the model is compared with brush but the bash "
                        "reference is not (not established there)" % (", ".join(sorted(NO_MODEL_FORMS)), ", ".join(sorted(NO_SPEC_FORMS))))


def replay(ctx, rp):
    lib.cargo_build([])
    case = rp["case"]
    s = case["script"]
    mode = "file" if "form" in case else "c"
    b, o = lib.run_shell("brush", s, mode=mode, timeout=20), lib.run_shell("bash", s, mode=mode, timeout=20)
    print(s)
    print("brush:", canon(b), b["err"][-200:])
    print("bash: ", canon(o))
    if "wire" in case:
        print("model:", lib.run_drv(["C03 " + case["wire"]])[0])
    if "nswire" in case:
        print("model | reference:", lib.run_drv(["C03 " + case["nswire"]])[0])
    same = (canon(b) == canon(o)) if "form" not in case else ((b["rc"] != 0, "after" in b["out"]) == (o["rc"] != 0, "after" in o["out"]))
    return 0 if same else 1
