"""Shared machinery for the brush verification checks (stdlib only).

Every ./check Cxx run goes through the same stages (DESIGN.md section 3):
  1. rebuild brush + the property's harness binary from /repo's working tree,
  2. regenerate Gen/*.lean (translators) and `lake build` the property's theorems + driver,
  3. audit (forbidden tokens, #print axioms),
  4. corpus + generated correspondence cases (brush vs Lean model vs oracle),
  5. classify (pass / KNOWN-FINDING / VIOLATION), write replay + evidence.
"""
import contextlib
import fcntl
import hashlib
import json
import os
import random
import re
import shutil
import subprocess
import sys
import tempfile
import time
from concurrent.futures import ThreadPoolExecutor

ROOT = os.path.dirname(os.path.dirname(os.path.abspath(__file__)))
REPO = os.path.abspath(os.environ.get("VERIF_REPO") or "/repo")
BUILD = os.path.join(ROOT, ".build")
LEAN_SRC = os.path.join(ROOT, "lean")
LEAN = os.environ.get("VERIF_LEAN") or LEAN_SRC   # scratch copy while developing
HARNESS_SRC = os.path.join(ROOT, "harness")
if REPO == "/repo":
    HARNESS = HARNESS_SRC
    TARGET = os.path.join(BUILD, "target")
    EVIDENCE = os.path.join(ROOT, "evidence")
else:
    # checking a scratch copy/worktree of the repository (mutation testing): private harness copy,
    # private target dir, private evidence dir — nothing registered in MANIFEST.json uses this.
    _h = hashlib.md5(REPO.encode()).hexdigest()[:8]
    HARNESS = os.path.join(BUILD, "harness-" + _h)
    TARGET = os.path.join(BUILD, "target-" + _h)
    EVIDENCE = os.path.join(BUILD, "evidence-" + _h)
    if not os.environ.get("VERIF_LEAN"):
        # translators write Gen/*.lean from the mutated sources: never into the shared project
        LEAN = os.path.join(BUILD, "lean-" + _h)
        if not os.path.isdir(LEAN):
            shutil.copytree(LEAN_SRC, LEAN, symlinks=True)
        else:
            # keep the private copy's sources current (content-compared, so lake rebuilds only what changed)
            for _dp, _dn, _fn in os.walk(LEAN_SRC):
                if ".lake" in _dp.split(os.sep):
                    continue
                for _f in _fn:
                    _src = os.path.join(_dp, _f)
                    _dst = os.path.join(LEAN, os.path.relpath(_src, LEAN_SRC))
                    try:
                        _data = open(_src, "rb").read()
                        if not os.path.exists(_dst) or open(_dst, "rb").read() != _data:
                            os.makedirs(os.path.dirname(_dst), exist_ok=True)
                            open(_dst, "wb").write(_data)
                    except OSError:
                        pass
BIN = os.path.join(TARGET, "debug")
BRUSH = os.path.join(BIN, "brush")
DRV = os.path.join(LEAN, ".lake", "build", "bin", "drv")
BASH = "/usr/bin/bash"
NCPU = os.cpu_count() or 4
# shape guards: a translator calls shape_guard(cond, msg) for a transcription check on hand-modelled code that is
# NOT needed to regenerate a table; a failed one is reported as a note and widens the correspondence run
SHAPE_NOTES = []


def shape_guard(cond, msg):
    if not cond:
        SHAPE_NOTES.append(msg)
    return bool(cond)


ALLOWED_AXIOMS = {"propext", "Classical.choice", "Quot.sound"}
FORBIDDEN = re.compile(
    r"\bsorry\b|\badmit\b|^\s*axiom\s|native_decide|bv_decide|implemented_by|\bunsafe\s|maxHeartbeats\s+0|@\[extern|@\[csimp")

os.makedirs(BUILD, exist_ok=True)


def sweep_tmp(prefix):
    """remove <tmp>/<prefix><pid> directories left by harness processes that no longer exist (a harness killed by
    its watchdog cannot clean up after itself)"""
    import glob
    base = os.environ.get("TMPDIR", tempfile.gettempdir())
    for d in glob.glob(os.path.join(base, prefix + "*")):
        pid = d[len(os.path.join(base, prefix)):]
        if pid.isdigit() and not os.path.exists("/proc/" + pid):
            shutil.rmtree(d, ignore_errors=True)


def log(*a):
    print(*a, file=sys.stderr, flush=True)


@contextlib.contextmanager
def flock(name):
    if name == "lake":
        name = "lake-" + hashlib.md5((LEAN + "\n").encode()).hexdigest()[:8]
    path = os.path.join(BUILD, name + ".lock")
    with open(path, "w") as f:
        fcntl.flock(f, fcntl.LOCK_EX)
        try:
            yield
        finally:
            fcntl.flock(f, fcntl.LOCK_UN)


def sh(cmd, cwd=None, env=None, timeout=None, inp=None):
    e = dict(os.environ)
    if env:
        e.update(env)
    p = subprocess.run(cmd, cwd=cwd, env=e, input=inp, stdout=subprocess.PIPE,
                       stderr=subprocess.STDOUT, timeout=timeout)
    return p.returncode, p.stdout.decode("utf-8", "replace")


# ----------------------------------------------------------------------------------------------
# build steps

CARGO_ENV = {"CARGO_NET_OFFLINE": "true", "CARGO_TARGET_DIR": TARGET, "CARGO_TERM_COLOR": "never",
             "RUSTFLAGS": os.environ.get("VERIF_RUSTFLAGS", "")}


def cargo_build(bins):
    """Build the brush binary and the given harness bins from /repo's current working tree.
    Returns (ok, log_text)."""
    with flock("cargo-" + os.path.basename(TARGET)):
        if HARNESS != HARNESS_SRC:
            os.makedirs(os.path.join(HARNESS, "src", "bin"), exist_ok=True)
            for dp, dn, fn in os.walk(HARNESS_SRC):
                if "target" in dp.split(os.sep):
                    continue
                for f in fn:
                    if f == "Cargo.lock":
                        continue
                    src = os.path.join(dp, f)
                    dst = os.path.join(HARNESS, os.path.relpath(src, HARNESS_SRC))
                    os.makedirs(os.path.dirname(dst), exist_ok=True)
                    data = open(src, "rb").read()
                    if f == "Cargo.toml":
                        data = data.replace(b'"/repo/', ('"' + REPO + '/').encode())
                    if not os.path.exists(dst) or open(dst, "rb").read() != data:
                        open(dst, "wb").write(data)
        lock_src = os.path.join(REPO, "Cargo.lock")
        lock_dst = os.path.join(HARNESS, "Cargo.lock")
        try:
            if open(lock_src, "rb").read() != (open(lock_dst, "rb").read() if os.path.exists(lock_dst) else b""):
                shutil.copyfile(lock_src, lock_dst)
        except OSError as ex:
            return False, "cannot copy Cargo.lock: %s" % ex
        cmd = ["cargo", "build", "--offline", "--features", "verif-hooks"]
        for b in ["brush"] + list(bins):
            cmd += ["--bin", b]
        rc, out = sh(cmd, cwd=HARNESS, env=CARGO_ENV, timeout=3600)
        return rc == 0, out


def lake_build(targets):
    with flock("lake"):
        rc, out = sh(["lake", "build"] + list(targets), cwd=LEAN, timeout=3600)
        return rc == 0, out


def strip_lean_comments(text):
    # remove block comments (nested) and line comments; keeps string literals naive (good enough for audit)
    out = []
    i, n, depth = 0, len(text), 0
    while i < n:
        if text.startswith("/-", i):
            depth += 1
            i += 2
        elif depth and text.startswith("-/", i):
            depth -= 1
            i += 2
        elif depth:
            if text[i] == "\n":
                out.append("\n")
            i += 1
        elif text.startswith("--", i):
            while i < n and text[i] != "\n":
                i += 1
        else:
            out.append(text[i])
            i += 1
    return "".join(out)


def audit_sources():
    """grep every .lean file under lean/ for forbidden constructs outside comments."""
    bad = []
    for dp, dn, fn in os.walk(LEAN):
        if ".lake" in dp:
            continue
        for f in fn:
            if f.endswith(".lean"):
                p = os.path.join(dp, f)
                body = strip_lean_comments(open(p, encoding="utf-8").read())
                for ln, line in enumerate(body.split("\n"), 1):
                    if FORBIDDEN.search(line):
                        bad.append("%s:%d: %s" % (os.path.relpath(p, ROOT), ln, line.strip()[:120]))
    return bad


def theorem_names(prop):
    """Names of the property theorems in Props/<prop>.lean (namespace BrushVerif.<prop>)."""
    p = os.path.join(LEAN, "BrushVerif", "Props", prop + ".lean")
    body = strip_lean_comments(open(p, encoding="utf-8").read())
    names = re.findall(r"^(?:protected\s+)?theorem\s+([A-Za-z_][\w'.]*)", body, re.M)
    return names


def audit_axioms(prop):
    """Generate Audit/<prop>.lean, elaborate it, parse `#print axioms`.
    Returns dict name -> list of axioms (None when the theorem could not be found/elaborated)."""
    names = theorem_names(prop)
    adir = os.path.join(LEAN, "BrushVerif", "Audit")
    os.makedirs(adir, exist_ok=True)
    apath = os.path.join(adir, prop + ".lean")
    src = "import BrushVerif.Props.%s\n" % prop
    for nm in names:
        src += "#print axioms BrushVerif.%s.%s\n" % (prop, nm)
    with open(apath, "w") as f:
        f.write(src)
    with flock("lake"):
        rc, out = sh(["lake", "env", "lean", apath], cwd=LEAN, timeout=1800)
    res = {nm: None for nm in names}
    # outputs: "'X' depends on axioms: [a, b]" or "'X' does not depend on any axioms"
    flat = re.sub(r"\s+", " ", out)
    for m in re.finditer(r"'BrushVerif\.%s\.([^']+)' (does not depend on any axioms|depends on axioms: \[([^\]]*)\])" % prop, flat):
        nm = m.group(1)
        axs = [] if m.group(3) is None else [a.strip() for a in m.group(3).split(",") if a.strip()]
        res[nm] = axs
    return res, out


_DRV_COPY = None
import threading
_DRV_LOCK = threading.Lock()


def drv_path():
    """A private copy of the driver for this process (lake relinks `drv` in place; a concurrent check
    could otherwise hit the moment when the file is missing)."""
    global _DRV_COPY
    with _DRV_LOCK:
        if _DRV_COPY is None or not os.path.exists(_DRV_COPY):
            dst = os.path.join(BUILD, "drv-%d-%d" % (os.getpid(), int(time.time() * 1000) % 1000000))
            with flock("lake"):
                shutil.copy2(DRV, dst)
            _DRV_COPY = dst
            import atexit
            atexit.register(lambda d=dst: os.path.exists(d) and os.remove(d))
        return _DRV_COPY


def run_drv(lines, timeout=1800):
    """Feed request lines to the compiled Lean driver; returns the list of response lines."""
    data = ("\n".join(lines) + "\n").encode("utf-8")
    p = subprocess.run([drv_path()], input=data, stdout=subprocess.PIPE, stderr=subprocess.PIPE, timeout=timeout)
    if p.returncode != 0:
        raise RuntimeError("drv failed rc=%d: %s" % (p.returncode, p.stderr.decode("utf-8", "replace")[:2000]))
    out = p.stdout.decode("utf-8").split("\n")
    if out and out[-1] == "":
        out.pop()
    if len(out) != len(lines):
        raise RuntimeError("drv returned %d lines for %d requests" % (len(out), len(lines)))
    return out


def run_vh(binname, lines, args=(), timeout=1800, env=None):
    """Feed request lines to a harness binary (one response line per request line)."""
    data = ("\n".join(lines) + "\n").encode("utf-8")
    e = dict(os.environ)
    if env:
        e.update(env)
    p = subprocess.run([os.path.join(BIN, binname)] + list(args), input=data, stdout=subprocess.PIPE,
                       stderr=subprocess.PIPE, timeout=timeout, env=e)
    out = p.stdout.decode("utf-8", "replace").split("\n")
    if out and out[-1] == "":
        out.pop()
    return p.returncode, out, p.stderr.decode("utf-8", "replace")


def chunked(seq, n):
    seq = list(seq)
    k = max(1, (len(seq) + n - 1) // n)
    return [seq[i:i + k] for i in range(0, len(seq), k)]


def run_vh_parallel(binname, lines, args=(), workers=NCPU, timeout=1800, env=None):
    """Split request lines over `workers` harness processes; preserves order. Returns (ok, outs, errs)."""
    if not lines:
        return True, [], ""
    parts = chunked(lines, workers)
    with ThreadPoolExecutor(max_workers=workers) as ex:
        rs = list(ex.map(lambda part: run_vh(binname, part, args, timeout, env), parts))
    outs, errs, ok = [], [], True
    for part, (rc, out, err) in zip(parts, rs):
        if rc != 0 or len(out) != len(part):
            ok = False
            errs.append("rc=%d got %d/%d lines: %s" % (rc, len(out), len(part), err[-2000:]))
            out = out + ["<harness-died>"] * (len(part) - len(out))
        outs.extend(out[:len(part)])
    return ok, outs, "\n".join(errs)


def run_drv_parallel(lines, workers=NCPU):
    if not lines:
        return []
    parts = chunked(lines, workers)
    with ThreadPoolExecutor(max_workers=workers) as ex:
        rs = list(ex.map(run_drv, parts))
    return [x for r in rs for x in r]


# ----------------------------------------------------------------------------------------------
# running shells

BASE_ENV = {"PATH": "/usr/local/sbin:/usr/local/bin:/usr/sbin:/usr/bin:/sbin:/bin", "LC_ALL": "C.UTF-8",
            "LANG": "C.UTF-8", "HOME": "/nonexistent", "TERM": "dumb", "BRUSH_VERIF": "1"}


def shell_cmd(which, script=None, args=(), mode="c"):
    if which == "brush":
        base = [BRUSH, "--norc", "--noprofile", "--no-config"]
    else:
        base = [BASH, "--norc", "--noprofile"]
    if mode == "c":
        return base + ["-c", script] + list(args)
    if mode == "stdin":
        return base + ["-s"] + list(args)
    if mode == "file":
        return base + [script] + list(args)
    raise ValueError(mode)


def run_shell(which, script, mode="c", stdin=None, timeout=20, cwd=None, env=None, args=()):
    """Run one script under brush or bash. Returns dict(rc, out, err, timeout)."""
    e = dict(BASE_ENV)
    if env:
        e.update(env)
    tmpf = None
    if mode == "file":
        tmpf = tempfile.NamedTemporaryFile("w", suffix=".sh", delete=False, dir=cwd)
        tmpf.write(script)
        tmpf.close()
        cmd = shell_cmd(which, tmpf.name, args, "file")
        inp = stdin
    elif mode == "stdin":
        cmd = shell_cmd(which, None, args, "stdin")
        inp = script if stdin is None else script + stdin
    else:
        cmd = shell_cmd(which, script, args, "c")
        inp = stdin
    if isinstance(inp, str):
        inp = inp.encode("utf-8", "surrogateescape")
    try:
        p = subprocess.Popen(cmd, cwd=cwd, env=e, stdin=subprocess.PIPE if inp is not None else subprocess.DEVNULL,
                             stdout=subprocess.PIPE, stderr=subprocess.PIPE, start_new_session=True)
        try:
            out, err = p.communicate(inp, timeout=timeout)
            return {"rc": p.returncode, "out": out.decode("utf-8", "replace"),
                    "err": err.decode("utf-8", "replace"), "timeout": False}
        except subprocess.TimeoutExpired:
            with contextlib.suppress(Exception):
                os.killpg(p.pid, 9)
            with contextlib.suppress(Exception):
                out, err = p.communicate(timeout=5)
            return {"rc": -9, "out": "", "err": "", "timeout": True}
    finally:
        if tmpf:
            with contextlib.suppress(OSError):
                os.unlink(tmpf.name)


def sp_run(cmd, input=None, timeout=None, **kw):
    """subprocess.run with the child in its own session; on timeout the whole process group is killed (a script that
    loops for ever in a subshell would otherwise survive as an orphan), then TimeoutExpired is raised as usual."""
    if input is not None:
        kw["stdin"] = subprocess.PIPE
    kw.pop("check", None)
    p = subprocess.Popen(cmd, start_new_session=True, **kw)
    try:
        out, err = p.communicate(input, timeout=timeout)
    except subprocess.TimeoutExpired:
        with contextlib.suppress(Exception):
            os.killpg(p.pid, 9)
        with contextlib.suppress(Exception):
            p.communicate(timeout=5)
        raise
    return subprocess.CompletedProcess(cmd, p.returncode, out, err)


def run_both(script, **kw):
    """Run one script under brush and under bash (the oracle). Returns (brush_result, bash_result)."""
    return run_shell("brush", script, **kw), run_shell("bash", script, **kw)


def same_outcome(b, o, stderr=False):
    """Observable agreement of two shell runs: exit status and stdout (stderr wording differs between shells)."""
    if b["timeout"] or o["timeout"]:
        return b["timeout"] == o["timeout"]
    return b["rc"] == o["rc"] and b["out"] == o["out"] and (not stderr or b["err"] == o["err"])


def pmap(fn, items, workers=NCPU):
    with ThreadPoolExecutor(max_workers=workers) as ex:
        return list(ex.map(fn, items))


def is_panic(r):
    return r["rc"] in (101, 134, -6, -11) or "panicked at" in r["err"]


# ----------------------------------------------------------------------------------------------
# known findings

def load_known(prop):
    p = os.environ.get("VERIF_KNOWN") or os.path.join(ROOT, "known_findings.json")
    if not os.path.exists(p):
        return []
    data = json.load(open(p))
    return [f for f in data.get("findings", []) if f.get("property") == prop]


# ----------------------------------------------------------------------------------------------
# check context

class Ctx:
    def __init__(self, prop, tier, seed):
        self.prop, self.tier, self.seed = prop, tier, seed
        self.t0 = time.time()
        self.rng = random.Random(seed)
        self.violations = []          # dicts: kind, what, case, detail
        self.known_hits = {}          # clause -> example case
        self.known = {f["clause"]: f for f in load_known(prop) if f.get("status") == "open"}
        self.obligations = []         # (name, ok, note)
        self.cov = {"samples": [], "distribution": {}}
        self.assumptions = []
        self.level = "proof"
        self.evals = 0
        self.distinct = set()
        self.impl_validated = 0
        self.oracle_mismatch = 0
        self.notes = []
        self.broken = []              # names of theorems / correspondences that no longer check

    @property
    def quick(self):
        return self.tier == "quick"

    # -- proof obligations ---------------------------------------------------------------------
    def size(self, q, t):
        # a shape guard that no longer matches widens this run's correspondence to the thorough sizes
        return t if (not self.quick or getattr(self, "widen", False)) else q

    def proof_stage(self, extra_targets=(), gens=()):
        """Regenerate translators, build theorems + driver, audit. Records obligations."""
        prop = self.prop
        del SHAPE_NOTES[:]
        for g in gens:
            try:
                g()
            except Exception as ex:  # translator could not find / parse its item
                self.obligations.append(("translator:%s" % getattr(g, "__name__", "gen"), False, str(ex)[:500]))
                self.broken.append("translator:%s: %s" % (getattr(g, "__name__", "gen"), str(ex)[:300]))
        if SHAPE_NOTES:
            # not proof obligations: the generated tables were still extracted and the theorems are re-checked over
            # them; the hand-written part of the model stays tied to the code by the correspondence run, which is
            # widened to the thorough sizes for this run
            self.widen = True
            self.cov["shape_guards_changed"] = list(SHAPE_NOTES)
            for n in SHAPE_NOTES:
                log("NOTE: source shape changed (correspondence widened): %s" % n)
        global _DRV_COPY
        _DRV_COPY = None
        ok, out = lake_build(["BrushVerif.Props.%s" % prop, "drv"] + list(extra_targets))
        self.lake_log = out
        names = theorem_names(prop)
        if not ok:
            log(out[-6000:])
            # which theorems failed? Lean reports "error: ...Props/Cxx.lean:LINE:COL"
            self.broken.append("lake build BrushVerif.Props.%s failed: %s" % (prop, _first_errors(out)))
            for nm in names:
                self.obligations.append((nm, False, "lake build failed"))
            return False
        bad = audit_sources()
        if bad:
            self.broken.append("forbidden construct in Lean sources: " + "; ".join(bad[:5]))
            self.obligations.append(("source-audit", False, "; ".join(bad[:5])))
        else:
            self.obligations.append(("source-audit", True, "no sorry/admit/axiom/native_decide/bv_decide/implemented_by/unsafe"))
        axs, aout = audit_axioms(prop)
        for nm in names:
            a = axs.get(nm)
            if a is None:
                self.obligations.append((nm, False, "not elaborated in audit"))
                self.broken.append("theorem %s missing from audit output" % nm)
            elif not set(a) <= ALLOWED_AXIOMS:
                self.obligations.append((nm, False, "axioms " + ",".join(a)))
                self.broken.append("theorem %s depends on axioms %s" % (nm, a))
            else:
                self.obligations.append((nm, True, "axioms: " + (",".join(a) if a else "none")))
        if not self.quick:
            with flock("lake"):
                rc, o = sh(["lake", "env", "leanchecker", "BrushVerif.Props.%s" % prop], cwd=LEAN, timeout=3600)
            self.obligations.append(("leanchecker", rc == 0, o[-300:]))
            if rc != 0:
                self.broken.append("leanchecker rejected BrushVerif.Props.%s: %s" % (prop, o[-300:]))
        return not self.broken

    # -- cases ---------------------------------------------------------------------------------
    def count(self, case_key, nontrivial=True, bucket=None):
        self.evals += 1
        if nontrivial:
            self.distinct.add(hashlib.blake2b(repr(case_key).encode("utf-8", "surrogateescape"), digest_size=8).digest())
        if bucket:
            d = self.cov["distribution"]
            d[bucket] = d.get(bucket, 0) + 1

    def bucket(self, name, n=1):
        d = self.cov["distribution"]
        d[name] = d.get(name, 0) + n

    def sample(self, s, maxn=12):
        if len(self.cov["samples"]) < maxn:
            self.cov["samples"].append(s)

    def violation(self, what, case, detail=None, kind="property"):
        """kind: 'property' (brush fails the property on `case`), 'correspondence' (model != brush)."""
        self.violations.append({"kind": kind, "what": what, "case": case, "detail": detail})

    def known_or_violation(self, clause, what, case, detail=None):
        """A failure of the property on `case`, of the defect class `clause`."""
        if clause in self.known:
            self.known_hits.setdefault(clause, case)
        else:
            self.violation(what + " [clause %s]" % clause, case, detail)

    # -- wrap-up -------------------------------------------------------------------------------
    def finish(self):
        prop = self.prop
        wall = time.time() - self.t0
        os.makedirs(EVIDENCE, exist_ok=True)
        os.makedirs(os.path.join(ROOT, "replays"), exist_ok=True)
        for clause, case in self.known_hits.items():
            print("KNOWN-FINDING: property=%s %s: %s" % (prop, clause, self.known[clause].get("what_fails", "")))
        viol_lines = []
        failing_inputs = sorted(self.violations, key=lambda v: 0 if v['kind'] == 'property' else 1)
        if failing_inputs or self.broken:
            ts = time.strftime("%Y%m%d-%H%M%S")
            if failing_inputs:
                for i, v in enumerate(failing_inputs[:5]):
                    path = os.path.join(ROOT, "replays", "%s-%s-%d.json" % (prop, ts, i))
                    json.dump({"property": prop, "seed": self.seed, "tier": self.tier, "kind": v["kind"],
                               "what": v["what"], "case": v["case"], "detail": v["detail"],
                               "broken_obligations": self.broken,
                               "replay_cmd": "./check %s --replay %s" % (prop, os.path.relpath(path, ROOT))},
                              open(path, "w"), indent=1, ensure_ascii=False, default=str)
                    viol_lines.append("VIOLATION property=%s replay=%s" % (prop, path))
            else:
                path = os.path.join(ROOT, "replays", "%s-%s-broken.json" % (prop, ts))
                json.dump({"property": prop, "seed": self.seed, "tier": self.tier, "kind": "broken-obligation",
                           "broken_obligations": self.broken, "case": None,
                           "note": "theorem/translator/correspondence no longer checks against the current source; "
                                   "the search found no concrete failing input"},
                          open(path, "w"), indent=1)
                viol_lines.append("VIOLATION property=%s replay=%s no-failing-input-found" % (prop, path))
        nobl = len(self.obligations)
        ndis = sum(1 for o in self.obligations if o[1])
        cov = dict(self.cov)
        cov.update({
            "obligations": max(nobl, 1), "discharged": ndis if nobl else 0,
            "obligation_list": [{"name": n, "ok": ok, "note": note} for n, ok, note in self.obligations],
            "checker_cmd": "cd lean && lake build BrushVerif.Props.%s && lake env lean BrushVerif/Audit/%s.lean (#print axioms)%s"
                           % (prop, prop, "" if self.quick else " && lake env leanchecker BrushVerif.Props.%s" % prop),
            "trusted_base": ["Lean 4.33.0 kernel", "axioms allowed: propext, Classical.choice, Quot.sound",
                             "Lean compiler for the driver executable (drv)",
                             "hand-written model tied to /repo by the correspondence run counted below",
                             "bash 5.2.15 as oracle where the property says 'as in bash'"] + self.assumptions,
            "evaluations": self.evals, "distinct_nontrivial": len(self.distinct),
            "traces_validated_against_impl": self.impl_validated,
            "oracle_mismatch": self.oracle_mismatch,
            "known_findings_hit": sorted(self.known_hits),
            "broken": self.broken, "notes": self.notes,
        })
        if not cov["samples"]:
            cov["samples"] = ["(no correspondence cases in this run)"]
        ev = {"property_id": prop, "tier": self.tier, "seed": self.seed, "level": self.level, "coverage": cov,
              "assumptions": self.assumptions, "wall_s": round(wall, 2), "violations": len(viol_lines)}
        json.dump(ev, open(os.path.join(EVIDENCE, prop + ".json"), "w"), indent=1, ensure_ascii=False, default=str)
        for l in viol_lines:
            print(l)
        print("%s %s: obligations %d/%d, cases %d (distinct non-trivial %d), known findings hit %d, violations %d, %.1fs"
              % (prop, self.tier, ndis, nobl, self.evals, len(self.distinct), len(self.known_hits), len(viol_lines), wall))
        return 1 if viol_lines else 0


def _first_errors(out, n=3):
    errs = [l for l in out.split("\n") if "error" in l.lower()]
    return " | ".join(errs[:n])[:600]


def esc(s):
    """Line-protocol escaping shared with the Lean driver and the Rust harness:
    backslash, newline, tab, CR, space-safe (%XX for bytes < 0x20, '%', ' ' and 0x7f)."""
    out = []
    for ch in s:
        o = ord(ch)
        if o < 0x21 or ch == "%" or o == 0x7f:
            out.append("%%%02X" % o)
        else:
            out.append(ch)
    return "".join(out) if out else "%"  # a lone '%' encodes the empty string


def unesc(s):
    if s == "%":
        return ""
    out, i = [], 0
    while i < len(s):
        if s[i] == "%":
            out.append(chr(int(s[i + 1:i + 3], 16)))
            i += 3
        else:
            out.append(s[i])
            i += 1
    return "".join(out)
